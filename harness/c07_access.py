"""C07, stream `access`: use association sees only what the used module makes accessible.

Abstract projects of three or four modules in which the accessibility of same-named entities varies:
module default (bare PRIVATE in front of the declarations or none), access attribute on a derived
type's declaration, access statements naming declared or use-associated identifiers, the
constructor idiom (derived type `t` + generic interface `t` - one identifier, one accessibility),
re-export through a module with either default, USE with / without ONLY and renames.  The later
modules declare entities of the same names themselves (a hidden entity of a used module must not
take their place) or leave them undeclared (the reference must stay text).

  (a) correspondence: the public tables (`pub_procs`, `pub_absints`, `pub_types`) of every module and
      every reference slot, equal to the Lean model `ScopeAccess.corrProjectA` / `exportsProjectA`;
  (b) property oracle (`oracle`, written from Fortran's rules, independent of the model): a
      reference denotes the entity its scope declares or use-associates under that name, where a
      USE statement makes accessible exactly the PUBLIC identifiers of the module; nothing => text.
"""
from __future__ import annotations

from . import common

TY = ["ta", "tb"]
PR = ["pa", "pb", "pc"]
SKIP = "skip"


def spell(rng, n):
    return "".join(c.upper() if rng.random() < 0.3 else c for c in n)


# --------------------------------------------------------------------------- generator

def gen_use(rng, mod, names):
    """names: the identifiers one might want from `mod` (whether accessible or not)"""
    r = rng.random()
    if r < 0.55 or not names:
        return {"mod": mod, "only": False, "items": []}
    if r < 0.8:
        pick = rng.sample(names, rng.randint(1, min(3, len(names))))
        return {"mod": mod, "only": True, "items": [(n, n) for n in pick]}
    # renames (with or without ONLY): local names te / pe exist nowhere else
    n = rng.choice(names)
    loc = ("te" if n in TY else "pe")
    items = [(loc, n)]
    only = rng.random() < 0.5
    if only:
        items += [(x, x) for x in rng.sample(names, rng.randint(0, 2)) if x != n]
    return {"mod": mod, "only": only, "items": items}


def gen_module(rng, name, ctr, earlier, p_decl=0.6):
    m = {"name": name, "dflt": "private" if rng.random() < 0.4 else "public", "stmts": [], "uses": [],
         "decls": [], "refs": []}
    for e in earlier:
        if rng.random() < 0.75:
            m["uses"].append(gen_use(rng, e["name"], TY + PR))
    named = set()
    for t in TY:
        if rng.random() < p_decl:
            attr = rng.choice([None, None, "private", "public"])
            m["decls"].append({"k": "t", "name": t, "attr": attr, "ent": ctr.next()})
            if rng.random() < 0.6:
                # the constructor idiom: generic interface of the type's name
                m["decls"].append({"k": "g", "name": t, "attr": None, "ent": ctr.next()})
    for p in PR:
        if rng.random() < p_decl:
            m["decls"].append({"k": rng.choice(["p", "p", "g", "a"]), "name": p, "attr": None, "ent": ctr.next()})
    rng.shuffle(m["decls"])
    local = sorted({d["name"] for d in m["decls"]})
    # access statements: every identifier at most once; PRIVATE names only declared identifiers
    # (hiding a use-associated identifier by an access statement is property C06's subject)
    for n in local:
        r = rng.random()
        if r < 0.25:
            m["stmts"].append(("private", n))
            named.add(n)
        elif r < 0.45:
            m["stmts"].append(("public", n))
            named.add(n)
    if m["uses"]:
        for n in TY + PR + ["te", "pe"]:
            if n not in local and rng.random() < (0.4 if m["dflt"] == "private" else 0.15):
                m["stmts"].append(("public", n))
    rng.shuffle(m["stmts"])
    # references: every candidate name, as type(...) / procedure(...) / parent type
    for t in TY + ["te", "td"]:
        if rng.random() < 0.7:
            m["refs"].append({"k": "ty", "name": t, "id": ctr.slot()})
    for p in PR + ["pe"]:
        if rng.random() < 0.6:
            m["refs"].append({"k": "pa", "name": p, "id": ctr.slot()})
    own_types = [d["name"] for d in m["decls"] if d["k"] == "t"]
    for d in m["decls"]:
        if d["k"] == "t":
            m["refs"].append({"k": "ctor", "name": d["name"], "id": ctr.slot()})
    # parent type of (at most) one local type, type-bound procedures with targets named like the procedures
    if own_types and rng.random() < 0.6:
        t = rng.choice(own_types)
        m["refs"].append({"k": "ext", "of": t, "name": rng.choice([x for x in TY + ["te", "td"] if x != t]), "id": ctr.slot()})
    for t in own_types:
        if rng.random() < 0.5:
            for p in rng.sample(PR + ["pe"], rng.randint(1, 2)):
                m["refs"].append({"k": "bind", "of": t, "name": p, "id": ctr.slot()})
    return m


class Ctr:
    def __init__(self):
        self.e = 0
        self.s = 0

    def next(self):
        self.e += 1
        return self.e

    def slot(self):
        self.s += 1
        return self.s - 1


def gen_project(rng):
    ctr = Ctr()
    mods = []
    n = rng.choice([2, 3, 3, 4])
    for k in range(n):
        # the first module declares most names, the later ones fewer (so that a name is often
        # declared by exactly one of: a used module / the module itself / nobody)
        # (half of the later modules see the first ones only through the module in between: re-export)
        earlier = mods[-1:] if rng.random() < 0.5 else mods[-2:]
        mods.append(gen_module(rng, f"m{k}", ctr, earlier, p_decl=0.75 if k == 0 else 0.35))
    return {"modules": mods}


# --------------------------------------------------------------------------- rendering

def render(P, rng):
    out = []
    for m in P["modules"]:
        out.append(f"module {m['name']}")
        for u in m["uses"]:
            line = f"  use {spell(rng, u['mod'])}"
            items = [f"{spell(rng, l)} => {spell(rng, r)}" if l != r else spell(rng, l) for l, r in u["items"]]
            if u["only"]:
                line += ", only: " + ", ".join(items)
            elif items:
                line += ", " + ", ".join(items)
            out.append(line)
        out.append("  implicit none")
        if m["dflt"] == "private":
            out.append(rng.choice(["  private", "  PRIVATE"]))
        stm = list(m["stmts"])
        # access statements before or after the declarations; several names on one statement
        early = [s for s in stm if rng.random() < 0.5]
        late = [s for s in stm if s not in early]

        def emit(sts):
            i = 0
            while i < len(sts):
                kw = sts[i][0]
                names = [sts[i][1]]
                while i + 1 < len(sts) and sts[i + 1][0] == kw and rng.random() < 0.5:
                    i += 1
                    names.append(sts[i][1])
                out.append(f"  {spell(rng, kw)} :: " + ", ".join(spell(rng, x) for x in names))
                i += 1

        emit(early)
        helpers = []
        for d in m["decls"]:
            n = spell(rng, d["name"])
            if d["k"] == "t":
                a = f", {spell(rng, d['attr'])}" if d["attr"] else ""
                for r in m["refs"]:
                    if r["k"] == "ext" and r["of"] == d["name"]:
                        a += f", extends({spell(rng, r['name'])})"
                out += [f"  type{a} :: {n}", f"    integer :: c{d['ent']}"]
                binds = [r for r in m["refs"] if r["k"] == "bind" and r["of"] == d["name"]]
                if binds:
                    out.append("  contains")
                    out += [f"    procedure, nopass :: b{r['id']} => {spell(rng, r['name'])}" for r in binds]
                out.append(f"  end type {n}")
            elif d["k"] == "g":
                h = f"zz_{d['name']}_{m['name']}"
                helpers.append((h, d["name"] in TY, d["name"]))
                out += [f"  interface {n}", f"    module procedure {h}", "  end interface"]
            elif d["k"] == "a":
                out += ["  abstract interface", f"    subroutine {n}()", "    end subroutine", "  end interface"]
        for r in m["refs"]:
            if r["k"] == "ty":
                out.append(f"  type({spell(rng, r['name'])}), pointer :: v{r['id']}")
            elif r["k"] == "pa":
                out.append(f"  procedure({spell(rng, r['name'])}), pointer :: v{r['id']}")
        emit(late)
        out.append("contains")
        for d in m["decls"]:
            if d["k"] == "p":
                n = spell(rng, d["name"])
                out += [f"  subroutine {n}()", f"  end subroutine {n}"]
        for h, is_ctor, tn in helpers:
            if is_ctor and any(d["k"] == "t" and d["name"] == tn for d in m["decls"]):
                out += [f"  function {h}(i) result(r)", "    integer, intent(in) :: i", f"    type({tn}) :: r",
                        "  end function"]
            else:
                out += [f"  function {h}(i) result(r)", "    integer, intent(in) :: i", "    integer :: r", "    r = i",
                        "  end function"]
        out.append(f"end module {m['name']}")
    return {"a.f90": "\n".join(out) + "\n"}


# --------------------------------------------------------------------------- wire format

def tokens(P):
    t = []
    for m in P["modules"]:
        t += ["M", m["name"], "v" if m["dflt"] == "private" else "p", str(len(m["stmts"]))]
        for kw, n in m["stmts"]:
            t += ["v" if kw == "private" else "p", n]
        for u in m["uses"]:
            t += ["U", u["mod"], "o" if u["only"] else "a", str(len(u["items"]))]
            for l, r in u["items"]:
                t += [l, r]
        for d in m["decls"]:
            t += ["D", d["k"], d["name"], str(d["ent"]), {None: "-", "private": "v", "public": "p"}[d["attr"]]]
        for r in m["refs"]:
            t += ["X", str(r["id"]), {"ty": "ty", "pa": "pa", "ctor": "pr", "ext": "ty", "bind": "pr"}[r["k"]], r["name"]]
        t.append(")")
    return t


def parse_answer(fields):
    if not fields or fields[0] != "ok":
        raise common.Infra(f"model (c07.access) answered {fields[:2]}")
    slots, tables = {}, {}
    for f in fields[1:]:
        k, v = f.split("=")
        if k.startswith("e"):
            tag, name = k.split(":")
            tables.setdefault((int(tag[1:-1]), tag[-1]), {})[name] = int(v)
        else:
            slots[int(k)] = None if v == "-" else int(v)
    return slots, tables


# --------------------------------------------------------------------------- oracle (Fortran's rules)

def acc_of(m, n):
    """accessibility of the identifier n in module m: the access statement naming it, else the
    access attribute on the declaration of the derived type n, else the module's default"""
    for kw, x in m["stmts"]:
        if x.lower() == n:
            return kw
    for d in m["decls"]:
        if d["k"] == "t" and d["name"].lower() == n and d["attr"]:
            return d["attr"]
    return m["dflt"]


def frames(P):
    """per module: local = {(class, name): {ent}}, imported = {(class, name): {ent}}; class "t" =
    derived types, "p" = procedure-like names (procedures, generic interfaces, abstract interfaces)"""
    by = {}
    out = []
    for m in P["modules"]:
        local, imp = {}, {}
        for d in m["decls"]:
            local.setdefault(("t" if d["k"] == "t" else "p", d["name"].lower()), set()).add(d["ent"])
        for u in m["uses"]:
            pub = by[u["mod"].lower()]
            renamed = {r.lower() for l, r in u["items"] if l.lower() != r.lower()}
            for (c, n), es in pub.items():
                locs = [l.lower() for l, r in u["items"] if r.lower() == n]
                if not u["only"] and n not in renamed and not locs:
                    locs = [n]
                for l in locs:
                    imp.setdefault((c, l), set()).update(es)
        vis = {}
        for k, es in list(local.items()) + list(imp.items()):
            vis.setdefault(k, set()).update(es)
        # an identifier that is declared locally although it is use-associated makes the module invalid
        # Fortran: whatever is referred to by that name downstream is not judged ("clash" poisons the set)
        clash = {n for _, n in local} & {n for _, n in imp}
        pub = {k: es for k, es in vis.items() if acc_of(m, k[1]) == "public" and k[1] not in clash}
        for k, es in vis.items():
            if k[1] in clash:
                pub[k] = set(es) | {"clash"}
        by[m["name"].lower()] = pub
        out.append((local, imp, by[m["name"].lower()]))
    return out


def oracle(P):
    """slot id -> entity | None | SKIP (the name is declared locally and use-associated, or
    use-associated from two sources: not Fortran)"""
    exp = {}
    kinds = {}
    for m, (local, imp, _) in zip(P["modules"], frames(P)):
        local_names = {n for _, n in local}
        imp_names = {n for _, n in imp}
        gen_ents = {d["ent"] for mm in P["modules"] for d in mm["decls"] if d["k"] == "g"}
        proc_ents = {d["ent"] for mm in P["modules"] for d in mm["decls"] if d["k"] == "p"}
        for r in m["refs"]:
            n = r["name"].lower()
            c = "t" if r["k"] in ("ty", "ext") else "p"
            es = set(local.get((c, n), set())) | set(imp.get((c, n), set()))
            if n in local_names and n in imp_names:
                exp[r["id"]] = SKIP
            elif len(es) > 1 or "clash" in es:
                exp[r["id"]] = SKIP
            elif not es:
                exp[r["id"]] = None
            else:
                e = next(iter(es))
                if r["k"] == "ctor" and e not in gen_ents:
                    exp[r["id"]] = SKIP
                elif r["k"] == "bind" and e not in proc_ents:
                    exp[r["id"]] = SKIP  # (a binding's target is a procedure, not a generic or abstract interface)
                else:
                    exp[r["id"]] = e
            kinds[r["id"]] = (m, r)
    return exp, kinds


# --------------------------------------------------------------------------- observation of FORD

def observe(ford, C, d, P, files):
    """returns (slots: id -> ent | None | ("other", text), tables: (module index, p|a|t) -> {name: ent | text})"""
    project = C.build_ford(ford, d, files)
    ent_of = {}
    mods = {m.name.lower(): m for m in project.modules}
    for am in P["modules"]:
        fm = mods[am["name"].lower()]
        for dcl in am["decls"]:
            n = dcl["name"].lower()
            if dcl["k"] == "t":
                o = C.byname(fm.types, n)
            elif dcl["k"] == "p":
                o = C.byname(fm.subroutines, n)
            elif dcl["k"] == "g":
                o = C.byname(fm.interfaces, n)
            else:
                o = C.byname(fm.absinterfaces, n)
            ent_of[id(o)] = dcl["ent"]
    keep = list(ent_of)  # (ids stay valid: the project holds the objects)
    with common.quiet():
        project.correlate()

    def ent(o):
        if o is None:
            return None
        if isinstance(o, str):
            return None
        return ent_of.get(id(o), ("other", f"{type(o).__name__} {getattr(o, 'name', '?')}"))

    slots, tables = {}, {}
    for k, am in enumerate(P["modules"]):
        fm = mods[am["name"].lower()]
        for r in am["refs"]:
            if r["k"] == "ctor":
                slots[r["id"]] = ent(getattr(C.byname(fm.types, r["name"]), "constructor", None))
            elif r["k"] == "ext":
                slots[r["id"]] = ent(C.byname(fm.types, r["of"]).extends)
            elif r["k"] == "bind":
                slots[r["id"]] = ent(C.byname(C.byname(fm.types, r["of"]).boundprocs, f"b{r['id']}").bindings[0])
            else:
                v = C.byname(fm.variables, f"v{r['id']}")
                slots[r["id"]] = ent(v.proto[0] if v.proto else None)
        for tag, attr in (("p", "pub_procs"), ("a", "pub_absints"), ("t", "pub_types")):
            tb = {}
            for name, o in getattr(fm, attr).items():
                # the helper functions of the generic interfaces and the procedure-pointer variables of
                # the module (FortranModule._cleanup files them in all_procs) are no entities of the
                # abstract project; their names meet no reference
                if name.startswith("zz_") or (name[0] == "v" and name[1:].isdigit()):
                    continue
                tb[name] = ent(o)
            tables[(k, tag)] = tb
    return slots, tables


def describe(P, e):
    if e is None:
        return "text (unresolved)"
    if e == SKIP:
        return "not Fortran"
    if isinstance(e, tuple):
        return e[1]
    for m in P["modules"]:
        for d in m["decls"]:
            if d["ent"] == e:
                kind = {"t": "type", "p": "subroutine", "g": "generic interface", "a": "abstract interface"}[d["k"]]
                return f"{kind} {d['name']} declared in module {m['name']} (accessibility of {d['name']} there: {acc_of(m, d['name'].lower())})"
    return f"entity {e}"


# --------------------------------------------------------------------------- the stream

# hand-written projects that are always run first (regression inputs of the mechanism)
FIXED = [
    # a private type with a user-defined constructor; two clients declare a type of that name
    {"modules": [
        {"name": "m0", "dflt": "public", "stmts": [], "uses": [],
         "decls": [{"k": "t", "name": "ta", "attr": "private", "ent": 1}, {"k": "g", "name": "ta", "attr": None, "ent": 2}],
         "refs": [{"k": "ctor", "name": "ta", "id": 0}]},
        {"name": "m1", "dflt": "public", "stmts": [], "uses": [{"mod": "m0", "only": False, "items": []}],
         "decls": [{"k": "t", "name": "ta", "attr": None, "ent": 3}],
         "refs": [{"k": "ctor", "name": "ta", "id": 1}, {"k": "ty", "name": "ta", "id": 2}]},
        {"name": "m2", "dflt": "public", "stmts": [], "uses": [{"mod": "m0", "only": False, "items": []}],
         "decls": [{"k": "t", "name": "ta", "attr": None, "ent": 4}, {"k": "g", "name": "ta", "attr": None, "ent": 5}],
         "refs": [{"k": "ctor", "name": "ta", "id": 3}, {"k": "pa", "name": "ta", "id": 4}]}]},
    # default-private module: `type, public :: tb` with constructor, access statements, re-export by PUBLIC statement
    {"modules": [
        {"name": "m0", "dflt": "private", "stmts": [("public", "pa")], "uses": [],
         "decls": [{"k": "t", "name": "tb", "attr": "public", "ent": 1}, {"k": "g", "name": "tb", "attr": None, "ent": 2},
                   {"k": "p", "name": "pa", "attr": None, "ent": 3}, {"k": "p", "name": "pb", "attr": None, "ent": 4},
                   {"k": "t", "name": "ta", "attr": None, "ent": 5}],
         "refs": []},
        {"name": "m1", "dflt": "private", "stmts": [("public", "tb")], "uses": [{"mod": "m0", "only": False, "items": []}],
         "decls": [], "refs": [{"k": "ty", "name": "tb", "id": 0}, {"k": "pa", "name": "tb", "id": 1}]},
        {"name": "m2", "dflt": "public", "stmts": [], "uses": [{"mod": "m1", "only": False, "items": []}],
         "decls": [],
         "refs": [{"k": "ty", "name": "tb", "id": 2}, {"k": "pa", "name": "tb", "id": 3}, {"k": "pa", "name": "pa", "id": 4},
                  {"k": "pa", "name": "pb", "id": 5}, {"k": "ty", "name": "ta", "id": 6}]}]},
]


def run_stream(rep, ford, drv, C, rng, tier, replay_cases):
    n = 500 if tier == "quick" else 5000
    cases = [(P, render(P, rng)) for P in FIXED]
    for c in replay_cases:
        cases.append((c["project"], c["files"]))
    n_fixed = len(cases)
    for _ in range(n):
        P = gen_project(rng)
        cases.append((P, render(P, rng)))
    obs = []
    with common.scratch_dir() as d:
        for P, files in cases:
            try:
                obs.append(observe(ford, C, d, P, files))
            except Exception as e:  # a generated project is valid Fortran: no exception is predicted
                obs.append(("crash", f"{type(e).__name__}: {e}"))
    answers = drv.batch([["c07.access", "1"] + tokens(P) for P, _ in cases])
    spec_answers = drv.batch([["c07.access", "s"] + tokens(P) for P, _ in cases])
    spec_diff = 0
    h = {"cases": 0, "slots": 0, "slots_resolved": 0, "slots_text": 0, "oracle_checked": 0, "oracle_skipped_not_fortran": 0,
         "oracle_fail": 0, "public_table_entries": 0, "crash": 0,
         "modules_default_private": 0, "types_with_access_attribute": 0, "constructor_idiom": 0,
         "constructor_idiom_type_attribute_differs_from_default": 0, "access_statements": 0,
         "public_statement_names_imported": 0, "hidden_name_declared_by_user_module": 0,
         "reference_to_hidden_name_expect_text": 0, "reference_to_hidden_name_expect_own_entity": 0,
         "reference_through_reexport": 0, "constructor_slots": 0, "constructor_slots_expect_none": 0}
    mism = 0
    first = None
    distinct = set()
    samples = []
    for k, ((P, files), o) in enumerate(zip(cases, obs)):
        h["cases"] += 1
        mslots, mtabs = parse_answer(answers[k])
        exp, kinds = oracle(P)
        fr = frames(P)
        # the Lean specification (specProjectA) and the python oracle, both independent of the mechanism
        sslots, _ = parse_answer(spec_answers[k])
        for i, e in exp.items():
            if e != SKIP and sslots.get(i, "missing") != e:
                spec_diff += 1
                if spec_diff <= 3:
                    rep.tie_broken(f"oracle cross-check (access): Lean specProjectA {sslots.get(i)} vs harness oracle {e} on slot {i}",
                                   {"stream": "access", "project": P, "files": files, "why": "Lean specification and harness oracle differ"})
        for m in P["modules"]:
            h["modules_default_private"] += m["dflt"] == "private"
            h["access_statements"] += len(m["stmts"])
            local = {d["name"] for d in m["decls"]}
            h["public_statement_names_imported"] += sum(1 for kw, x in m["stmts"] if kw == "public" and x not in local)
            for dcl in m["decls"]:
                if dcl["k"] == "t" and dcl["attr"]:
                    h["types_with_access_attribute"] += 1
                if dcl["k"] == "g" and any(x["k"] == "t" and x["name"] == dcl["name"] for x in m["decls"]):
                    h["constructor_idiom"] += 1
                    t = next(x for x in m["decls"] if x["k"] == "t" and x["name"] == dcl["name"])
                    if t["attr"] and t["attr"] != m["dflt"]:
                        h["constructor_idiom_type_attribute_differs_from_default"] += 1
        # names a used module declares but hides
        for mi, m in enumerate(P["modules"]):
            hidden = set()
            for u in m["uses"]:
                um = next(x for x in P["modules"] if x["name"] == u["mod"])
                ui = P["modules"].index(um)
                vis = set(fr[ui][0]) | set(fr[ui][1])
                hidden |= {kn for kn in vis if kn not in fr[ui][2]}
            local_names = {nm for _, nm in fr[mi][0]}
            h["hidden_name_declared_by_user_module"] += len({nm for _, nm in hidden} & local_names)
            for r in m["refs"]:
                c = "t" if r["k"] in ("ty", "ext") else "p"
                if (c, r["name"].lower()) in hidden and exp[r["id"]] != SKIP:
                    if exp[r["id"]] is None:
                        h["reference_to_hidden_name_expect_text"] += 1
                    elif (c, r["name"].lower()) in fr[mi][0]:
                        h["reference_to_hidden_name_expect_own_entity"] += 1
                if exp[r["id"]] not in (None, SKIP) and (c, r["name"].lower()) in fr[mi][1]:
                    own = {dd["ent"] for u in m["uses"] for x in P["modules"] if x["name"] == u["mod"] for dd in x["decls"]}
                    if exp[r["id"]] not in own:
                        h["reference_through_reexport"] += 1
        if isinstance(o, tuple) and o and o[0] == "crash":
            h["crash"] += 1
            mism += 1
            first = first or {"stream": "access", "project": P, "files": files, "why": f"parse / correlate failed: {o[1]}"}
            continue
        oslots, otabs = o
        # (a) correspondence
        bad = None
        for key in sorted(set(otabs) | set(mtabs)):
            a, b = otabs.get(key, {}), mtabs.get(key, {})
            h["public_table_entries"] += len(a)
            if a != b and bad is None:
                tabname = {"p": "pub_procs", "a": "pub_absints", "t": "pub_types"}[key[1]]
                bad = (f"{tabname} of module {P['modules'][key[0]]['name']}: model "
                       f"{ {x: describe(P, e) for x, e in sorted(b.items())} }, FORD { {x: describe(P, e) for x, e in sorted(a.items())} }")
        for i in sorted(exp):
            if mslots.get(i, "missing") != oslots.get(i, "unobserved") and bad is None:
                m, r = kinds[i]
                bad = (f"slot {i} ({r['k']} {r['name']} in module {m['name']}): model {describe(P, mslots.get(i))}, "
                       f"FORD {describe(P, oslots.get(i))}")
        if bad:
            mism += 1
            first = first or {"stream": "access", "project": P, "files": files, "why": "model (ScopeAccess) vs FORD: " + bad}
        # (b) property oracle
        for i, e in sorted(exp.items()):
            m, r = kinds[i]
            h["slots"] += 1
            ob = oslots.get(i)
            h["slots_text" if ob is None else "slots_resolved"] += 1
            h["slot_kind_" + r["k"]] = h.get("slot_kind_" + r["k"], 0) + 1
            if r["k"] == "ctor":
                h["constructor_slots"] += 1
                h["constructor_slots_expect_none"] += e is None
            if e == SKIP:
                h["oracle_skipped_not_fortran"] += 1
                continue
            h["oracle_checked"] += 1
            if ob != e:
                h["oracle_fail"] += 1
                what = {"ty": "type(%s) of variable v%d", "pa": "procedure(%s) of variable v%d",
                        "ctor": "constructor of the derived type %s (slot %d)",
                        "ext": f"parent type %s of the derived type {r.get('of')} (slot %d)",
                        "bind": f"target %s of the binding b%d of the derived type {r.get('of')}"}[r["k"]] % (r["name"], i)
                rep.failing_input({"stream": "access", "project": P, "files": files,
                                   "slot": f"module {m['name']}: {what}",
                                   "expected": describe(P, e), "observed": describe(P, ob),
                                   "why": "the slot does not hold the entity Fortran scoping designates: a USE statement makes "
                                          "accessible exactly the PUBLIC identifiers of the module"}, None)
        if sum(len(m["refs"]) for m in P["modules"]) >= 3:
            distinct.add(common.digest(tokens(P)))
        if len(samples) < 1 and k >= n_fixed:
            samples.append({"files": files, "slots": [
                {"module": kinds[i][0]["name"], "kind": kinds[i][1]["k"], "name": kinds[i][1]["name"],
                 "ford": describe(P, oslots.get(i)), "expected": describe(P, e)} for i, e in sorted(exp.items())][:10]})
    if mism:
        rep.tie_broken(f"correspondence access: the accessibility model (ScopeAccess.corrProjectA / exportsProjectA) "
                       f"disagrees with the implementation on {mism} of {len(cases)} projects", first)
    need = ["constructor_idiom_type_attribute_differs_from_default", "reference_to_hidden_name_expect_text",
            "reference_to_hidden_name_expect_own_entity", "reference_through_reexport", "public_statement_names_imported"]
    if not replay_cases:
        for key in need:
            if h[key] == 0:
                rep.tie_broken(f"stream access: no generated project exercises `{key}`")
    return {"cases": len(cases), "fixed_cases": n_fixed, "disagreeing_cases": mism, "oracle_crosscheck_differences": spec_diff, "histogram": h,
            "distinct_nontrivial": len(distinct), "samples": samples}
