"""C04 - the visibility words on the generated module page (second observation point of the property).

`Renderer` renders the real `mod_page.html` for a parsed + correlated unit in-process (`ford.output.ModulePage`, the
project's own Jinja environment and templates; no files are written).  `page_words` reads the page the way a reader
does: for every place where a visibility word can stand - rows of the *Variables* table, headings of interfaces,
procedures listed under an interface, headings of derived types, rows of their *Components* and *Type-Bound
Procedures* tables, headings of functions / subroutines / module procedures - the kind of place, the object it is
listed under, the entity's name and the word in front of it (or "-").  Written from the page's layout, not from the
model; used by the harness (page stream) and by the translator (token probe).
"""
from __future__ import annotations

import re

WORD = r"(?:public|private|protected|c04tok\d+)"
PROC_RE = re.compile(rf"^(?:({WORD})\s+)?(?:.*?\s)?(subroutine|function)\s+([A-Za-z]\w*)\s*\(", re.I)
IFACE_RE = re.compile(rf"^(?:({WORD})\s+)?interface\b\s*(.*)$", re.I)
TYPE_RE = re.compile(rf"^type\b(?:\s*,\s*({WORD})\b)?.*?::\s*(\w+)", re.I)
BOUND_RE = re.compile(rf"^(?:procedure(?:\s*\([^)]*\))?|generic|final)\s*(?:,\s*({WORD})\b)?", re.I)


def norm(t):
    return re.sub(r"\s+", " ", t.replace("\xa0", " ")).strip()


def canon(n):
    n = n.strip().lower()
    return "".join(n.split()) if "(" in n else n


class Renderer:
    def __init__(self, settings, project):
        import jinja2
        import ford.output as fo
        from dataclasses import asdict

        self.fo = fo
        self.project = project
        fo.env.globals["projectData"] = asdict(settings)
        fo.env.loader = jinja2.FileSystemLoader(settings.html_template_dir + [fo.loc / "templates"])
        self.data = {k: v for k, v in asdict(settings).items() if v is not None}
        self.data["pages"] = None
        self.data.pop("project_url", None)

    def module_page(self, unit) -> str:
        return self.fo.ModulePage(self.data, self.project, unit).html


def _proc_line(h3):
    """(word or '-', name) of a heading written by the macro proc_line, or None"""
    small = h3.find("small")
    text = norm((small if small is not None and "module procedure" in norm(h3.get_text(" ")).lower()[:20] else h3).get_text(" "))
    m = PROC_RE.match(text)
    if not m:
        return None
    return (m.group(1) or "-").lower(), m.group(3).lower()


def _var_rows(table, kind, owner, out):
    heads = [norm(th.get_text(" ")) for th in table.find("thead").find_all("th")] if table.find("thead") else []
    vis = heads.index("Visibility") if "Visibility" in heads else None
    body = table.find("tbody")
    for tr in (body.find_all("tr", recursive=False) if body else []):
        tds = tr.find_all("td", recursive=False)
        strong = tr.find("strong")
        if strong is None or not tds:
            continue
        word = "-"
        if vis is not None and vis < len(tds):
            m = re.match(rf"^({WORD})\b", norm(tds[vis].get_text(" ")), re.I)
            word = m.group(1).lower() if m else "-"
        out.append((kind, owner, norm(strong.get_text(" ")).lower(), word))


def page_words(html: str):
    """sorted list of (kind, owner, name, word): kind in var type comp bind generic member wrapper absiface func sub
    mproc (`member`: every procedure listed under a generic interface, declared there or referenced)"""
    from bs4 import BeautifulSoup

    soup = BeautifulSoup(html, "html.parser")
    out = []
    for sec in soup.find_all("section"):
        h2 = sec.find("h2")
        title = norm(h2.get_text(" ")) if h2 is not None else ""
        if title == "Variables":
            for table in sec.find_all("table", class_="varlist"):
                _var_rows(table, "var", "", out)
        elif title in ("Interfaces", "Abstract Interfaces"):
            for card in sec.find_all("div", class_="card", recursive=False):
                head = card.find("div", class_="card-header")
                h3 = head.find("h3") if head is not None else None
                gname = None
                if h3 is not None and title == "Interfaces":
                    m = IFACE_RE.match(norm(h3.get_text(" ")))
                    if m and m.group(2).strip():
                        gname = canon(m.group(2))
                        out.append(("generic", "", gname, (m.group(1) or "-").lower()))
                ul = card.find("ul", class_="list-group")
                for li in (ul.find_all("li", recursive=False) if ul is not None else []):
                    ph = li.find("h3")
                    pl = _proc_line(ph) if ph is not None else None
                    if pl is None:
                        continue
                    if title == "Abstract Interfaces":
                        out.append(("absiface", "", pl[1], pl[0]))
                    elif gname is not None:
                        out.append(("member", gname, pl[1], pl[0]))
                    else:
                        out.append(("wrapper", "", pl[1], pl[0]))
        elif title == "Derived Types":
            for card in sec.find_all("div", class_="card", recursive=False):
                head = card.find("div", class_="card-header")
                h3 = head.find("h3") if head is not None else None
                m = TYPE_RE.match(norm(h3.get_text(" "))) if h3 is not None else None
                if not m:
                    continue
                tname = m.group(2).lower()
                out.append(("type", "", tname, (m.group(1) or "-").lower()))
                body = card.find("div", class_="card-body")
                for h4 in (body.find_all("h4") if body is not None else []):
                    what = norm(h4.get_text(" "))
                    table = h4.find_next_sibling("table")
                    if table is None:
                        continue
                    if what == "Components":
                        _var_rows(table, "comp", tname, out)
                    elif what == "Type-Bound Procedures":
                        for tr in table.find_all("tr"):
                            td = tr.find("td")
                            strong = td.find("strong") if td is not None else None
                            m2 = BOUND_RE.match(norm(td.get_text(" "))) if td is not None else None
                            if strong is None or not m2:
                                continue
                            out.append(("bind", tname, canon(norm(strong.get_text(" "))), (m2.group(1) or "-").lower()))
        elif title in ("Functions", "Subroutines", "Module Procedures", "Module Functions", "Module Subroutines"):
            kind = {"Functions": "func", "Subroutines": "sub", "Module Procedures": "mproc",
                    "Module Functions": "func", "Module Subroutines": "sub"}[title]
            for card in sec.find_all("div", class_="card", recursive=False):
                head = card.find("div", class_="card-header")
                h3 = head.find("h3") if head is not None else None
                pl = _proc_line(h3) if h3 is not None else None
                if pl is not None:
                    out.append((kind, "", pl[1], pl[0]))
    return sorted(out)
