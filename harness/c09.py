"""C09 - every internal link in the output resolves, and the output is relocatable.

Streams
  micro : os.path.normpath / os.path.relpath / urljoin-style resolution / urllib.parse.quote
          against their Lean mirrors on random paths (exact comparison).
  site  : generated projects (shape x options x static pages x how the project / output directory is
          reached: directly, through symbolic links, through `..` x doc comments of one / several
          paragraphs, with `summary:` metadata, list-only x user icon of any image type, MathJax configuration,
          project-wide / per-page `copy_subdir` directories, plain files and relative links in static pages x directory / page
          names that repeat at different depths of the page tree or equal FORD's own output directories x footnotes in doc
          comments, static pages and the front page text; harness/c09_gen.py) -> real
          `ford` run in-process ->
          (a) correspondence: for every entity object of the project, `get_dir()` / `get_url()`
              equal the model's on the same (class, obj, ident, parent chain); the list pages
              written equal the model's `listPages` for the project's shape; the navigation
              links of index.html / an entity page / a nested static page equal the model's
              `navLinks` (label, target); the brand link sits at the model's `projectUrl`;
              (micro stream) `current_path` of the real MetaMarkdown.convert + the relpath of
              convert_link equal `docLinkPath`; `str(entity)` prints the <a href> form exactly when
              the model's `strEmitsLink` says so and the `visible` attribute of directly constructed
              objects (source files) equals the regenerated rule's value; the members of the
              project lists have the classes the theorem about them assumes; (round 3) for every entity the
              decision of FortranBase.markdown to append the "Read more" link and its href, observed by a hook
              on the real method, equal the model's `readMore`/`readMoreHref` on the real strings; (micro
              stream) `normalise_path` and `relative_url` on a real directory tree with symbolic links equal
              `normalisePath`/`relurl` with the tree's realpath handed over; (round 4) the <link>/<script>/<form> URLs
              of the sampled pages and the asset files in the output equal what the asset model (`emitted` / `written` over
              the tables regenerated from all templates and Documentation.writeout) gives for the run's real settings
              dictionary; every file below page/ equals what the model of PagetreePage.writeout (`pageWrites`, regenerated
              loop guards) writes for the real PageNode objects (location, stem, copy_subdir, files) and the page directory
              on disk; the alias values handed to the real Markdown object equal the regenerated alias table; (round 5) the
              footnotes listed below / referred to in every converted doc comment and `summary:` (hook on FortranBase.markdown)
              equal the model's converter (`Footnotes.convertAll` with the probed reset sites) fed with the same sequence of texts;
              (micro stream) sequences of calls of the registered `relurl` filter, one text, pages whose directories share names,
              equal the model's filter behind a cache with the probed reuse key (`Memo.runCached`);
          (b) property oracle (harness/c09_links.py, defined from the statement only): every
              href/src/xlink:href/action and search-index url is external or relative, its file
              exists under the output directory, its fragment is an id of that file; then the
              output tree is moved and everything is resolved again.
  witness : the Lean witness of the known navigation finding is replayed on the real code.
"""
from __future__ import annotations

import html as _html
import os
import random
import re
import shutil
import textwrap
import time
import traceback
from concurrent.futures import ProcessPoolExecutor
import pathlib
from pathlib import Path
from urllib.parse import quote as _quote, unquote as _unquote

from . import c09_gen, c09_links, common, e2e
from .common import Driver, Report, lean_prove

PROP = "C09"
COUNT_LISTS = ["files", "extra_files", "modules", "submodules", "programs", "blockdata", "procedures", "types",
               "absinterfaces", "namelists", "submodprocedures"]

# ------------------------------------------------------------------ micro stream

SEGS = ["a", "b", "doc", "proc", "module", "lists", "page", "sub", "x.html", "non-existent dir", "..", ".", "", "a b", "m~2", "..."]


def rand_path(rng, normal=False):
    n = rng.randint(0, 6)
    pool = [s for s in SEGS if s not in ("..", ".", "")] if normal else SEGS
    return "/" + "/".join(rng.choice(pool) for _ in range(n))


def micro_stream(drv, rng, n, rep):
    reqs, exp = [], []
    for k in range(n):
        p = rand_path(rng)
        if p.startswith("//") and not p.startswith("///"):
            p = "/x" + p  # POSIX keeps exactly two leading slashes; not modelled, never produced by FORD
        reqs.append(["c09.norm", p])
        exp.append([os.path.normpath(p)])
        t, s = rand_path(rng, k % 3 != 0), rand_path(rng, k % 3 != 0)
        if t.startswith("//"):
            t = "/x" + t
        if s.startswith("//"):
            s = "/x" + s
        reqs.append(["c09.relpath", t, s])
        exp.append([os.path.relpath(t, s)])
        rel = os.path.relpath(t, s)
        reqs.append(["c09.resolve", os.path.normpath(s), rel])
        exp.append([os.path.normpath(os.path.join(os.path.normpath(s), rel))])
        q = "".join(rng.choice("abz09_.-~/()<>=+* %#?&'\"") for _ in range(rng.randint(0, 8)))
        reqs.append(["c09.quote", q])
        exp.append([_quote(q)])
    # `current_path` as the real MetaMarkdown.convert computes it for an entity context, then the
    # href as FordLinkProcessor.convert_link computes it (relpath(base_url / item_url, current_path))
    from ford._markdown import MetaMarkdown

    class _Ctx:
        def __init__(self, url):
            self.url = url
            self.parent = None
            self.filename = "x.f90"
            self.name = "x"

        def get_url(self):
            return self.url

    dirs = ["proc", "module", "type", "interface", "program", "sourcefile", "blockdata", "namelist"]
    for k in range(max(40, n // 10)):
        base = rand_path(rng, True) or "/o"
        if base == "/":
            base = "/out"
        md = MetaMarkdown(base_url=base)
        cd, cs, td, ts = rng.choice(dirs), rng.choice(["a", "b~2", "op(+)"]), rng.choice(dirs), rng.choice(["x", "y~3"])
        md.convert("text", context=_Ctx(f"{cd}/{cs}.html#variable-v" if k % 2 else f"{cd}/{cs}.html"))
        want = os.path.relpath(md.base_url / f"{td}/{ts}.html", md.current_path)
        reqs.append(["c09.doclink", base, cd, cs, td, ts])
        exp.append([want])
        page = rng.choice(["index.html", "lists/files.html", f"{cd}/{cs}.html", "page/sub/deeper/last.html", "page/index.html"])
        reqs.append(["c09.projecturl", base, page])
        exp.append([os.path.relpath(base, os.path.dirname(os.path.join(base, page)))])
    # `normalise_path` and `relative_url` of the real code on a real file system with symbolic links, against the
    # model with the file system's `realpath` handed over at the points asked for
    import tempfile
    import ford.output as _fo
    from ford.utils import normalise_path

    relative_url = _fo.env.filters["relurl"]   # the callable the templates use, whatever its name in the module

    tmp = Path(os.path.realpath(tempfile.mkdtemp(prefix="ford-c09-fs-")))
    try:
        (tmp / "real" / "doc" / "lists").mkdir(parents=True)
        (tmp / "real" / "doc" / "page" / "sub").mkdir(parents=True)
        (tmp / "real" / "doc" / "proc").mkdir()
        (tmp / "store").mkdir()
        os.symlink(tmp / "real", tmp / "work", target_is_directory=True)
        os.symlink(tmp / "store", tmp / "real" / "outlink", target_is_directory=True)
        base_dirs = [tmp / "real", tmp / "work", tmp / "work" / ".." / "work", tmp / "real" / "doc" / ".."]
        rels = ["./doc", "doc", "doc/../doc", "../work/doc", "outlink/doc", "./outlink/../doc", "src/./x", "../real/./doc/"]
        for bd in base_dirs:
            for rel in rels:
                joined = str(bd / rel)
                reqs.append(["c09.normalise", joined, os.path.realpath(joined)])
                exp.append([str(normalise_path(bd, rel))])
        roots = [tmp / "real" / "doc", tmp / "work" / "doc", tmp / "real" / "outlink" / "doc", tmp / "store" / "doc"]
        pages = ["index.html", "lists/files.html", "proc/p~2.html", "page/sub/last.html"]
        tgts = ["proc/x.html", "module/m~2.html", "lists/files.html", "index.html", "page/sub/index.html"]
        for root in roots:
            for pg in pages:
                for tg in tgts:
                    href = f"{root}/{tg}"
                    # the page's location is the (resolved) output directory, as BasePage gets it
                    page_url = Path(os.path.realpath(root)) / pg
                    res = str(relative_url(f"<a href='{href}'>x</a>", page_url))
                    m = re.fullmatch(r"<a href='([^']*)'>x</a>", res)
                    reqs.append(["c09.relurl", href, os.path.realpath(href), str(page_url.parent)])
                    exp.append(["unchanged" if m and m.group(1) == href else (m.group(1) if m else res)])
        # sequences of calls of the registered filter, same text, pages whose directories / files share a name at different
        # places of the tree - against the model's filter behind a cache with the regenerated key (`c09.memo`)
        import ford.output as fo
        filt = fo.env.filters.get("relurl", relative_url)
        root = tmp / "real" / "doc"
        names = ["examples", "dev", "module", "page", "doc", "sub"]
        for q in range(max(12, n // 100)):
            tgt = f"{rng.choice(['proc', 'page/' + rng.choice(names), 'module'])}/t{q}x{rng.randrange(10 ** 6)}.html"
            href = f"{root}/{tgt}"
            seq = []
            for _ in range(rng.randint(2, 5)):
                depth = rng.randint(0, 3)
                d = "/".join(["page"] * (depth > 0) + [rng.choice(names) for _ in range(max(0, depth - 1))])
                seq.append((d + "/" if d else "") + rng.choice(["index.html", "first.html"]))
            req, impl = ["c09.memo"], []
            for pg in seq:
                res = str(filt(f"<a href='{href}'>x</a>", root / pg))
                m = re.fullmatch(r"<a href='([^']*)'>x</a>", res)
                impl.append("unchanged" if m and m.group(1) == href else (m.group(1) if m else res))
                req += [href, str(root / pg)]
            reqs.append(req)
            exp.append(["ok"] + impl)
    finally:
        shutil.rmtree(tmp, ignore_errors=True)
    pagename_requests(rng, max(120, n // 4), reqs, exp)
    graphnode_requests(rng, max(150, n // 4), reqs, exp)
    got = drv.batch(reqs)
    bad = 0
    for r, e, g in zip(reqs, exp, got):
        if e != g:
            bad += 1
            rep.tie_broken(f"correspondence micro/{r[0]}: model {g} vs implementation {e} on {r[1:]!r}",
                           {"stream": "micro", "request": r, "impl": e, "model": g})
    return len(reqs), bad


def pagename_requests(rng, n, reqs, exp):
    """Round 6: what a static page is called.  (a) `PurePath(name).with_suffix(".html")` of the real pathlib vs the model's
    `withSuffixHtml` on random names over an alphabet rich in dots; (b) the real `PageNode.path` / `PageNode.url` properties,
    a real `PagetreePage` (`outfile`, `loc`) and the real registered `relurl` filter applied to the URL of the page from a
    page in another directory vs `c09.pagename` (regenerated namings) on random (location, stem, linking directory)."""
    from types import SimpleNamespace
    import ford.output as fo
    from ford.pagetree import PageNode
    from ford.settings import EntitySettings

    def stem_of():
        if rng.random() < 0.3:
            return rng.choice(c09_gen.PAGE_DOTTED_LEAF_NAMES + c09_gen.PAGE_LEAF_NAMES + ["index"])
        return "".join(rng.choice("ab.-1. ") for _ in range(rng.randint(1, 7)))

    for _ in range(n):
        nm = stem_of()
        if nm in (".", "") or "/" in nm:
            continue
        try:
            want = str(pathlib.PurePosixPath(nm).with_suffix(".html"))
        except ValueError:
            continue
        reqs.append(["c09.withsuffix", nm])
        exp.append([want])

    class _Node:
        path = PageNode.path
        url = PageNode.url

        def __init__(self, loc, stem, base):
            self.location, self.filename, self.base_url = Path(loc), Path(stem), Path(base)
            self.copy_subdir, self.files, self.meta, self.obj, self.name = [], [], EntitySettings(), "page", stem

    dirs = ["sub", "v1.0", "page", "deeper", "rel.2", "a b"]
    relurl = fo.env.filters["relurl"]
    out = Path("/o")
    for _ in range(max(30, n // 3)):
        stem = stem_of()
        if stem.startswith(".") or stem.strip() != stem or stem in ("", ".", ".."):
            continue
        loc = "/".join(rng.choice(dirs) for _ in range(rng.randint(0, 3))) or "."
        frm = rng.choice(["", "proc", "lists", "page", "page/" + "/".join(rng.choice(dirs) for _ in range(rng.randint(1, 3)))])
        node = _Node(loc, stem, out)
        pg = fo.PagetreePage({"output_dir": out, "page_dir": Path("/src/pages"), "relative": True},
                             SimpleNamespace(settings=SimpleNamespace(project_url=out)), node)
        link = relurl(str(node.url), out / frm / "x.html")
        reqs.append(["c09.pagename", loc, stem, frm or "."])
        exp.append([os.path.relpath(node.url, out), os.path.relpath(pg.outfile, out), str(pg.loc), link])


def graphnode_requests(rng, n, reqs, exp):
    """Round 6: the real `BaseNode.__init__` on fake entities - every combination of (made from text, has `external_url`,
    URL / no URL / empty URL, visible, is a binding, its type visible) - vs `c09.graphnode` (regenerated prefix and gates)."""
    from types import SimpleNamespace
    import ford.graphs as fg
    from ford.sourceform import FortranBoundProcedure

    urls = ["module/m.html", "proc/p~2.html", "type/t.html#boundprocedure-b", "interface/operator(+).html", None, ""]
    for _ in range(n):
        fromstr, ext, bound = rng.random() < 0.2, rng.random() < 0.2, rng.random() < 0.3
        vis, pvis, u = rng.random() < 0.7, rng.random() < 0.6, rng.choice(urls)
        if fromstr:
            href = rng.choice(["https://example.org/doc/module/m.html", "../elsewhere/x.html"])
            obj = rng.choice([f"<a href='{href}'>name</a>", f'<a href="{href}">name</a>', "plainname"])
            node = fg.BaseNode(obj, SimpleNamespace(parent_dir="../"))
            reqs.append(["c09.graphnode", "1", "0", "-" if obj == "plainname" else href, "1", "0", "1"])
            exp.append([str(node.attribs.get("URL", "-"))])
            continue
        d = dict(ident="x", name="x", visible=vis)
        if ext:
            d["external_url"] = "https://example.org/doc"
        if bound:
            o = FortranBoundProcedure.__new__(FortranBoundProcedure)
            o.__dict__.update(d)
            o.parent = SimpleNamespace(visible=pvis)
        else:
            o = SimpleNamespace(**d)
        o.get_dir = lambda: "module"
        o.get_url = lambda u=u: u
        node = fg.BaseNode(o, SimpleNamespace(parent_dir="../"))
        reqs.append(["c09.graphnode", "0", "1" if ext else "0", "-" if u is None else u, "1" if vis else "0", "1" if bound else "0",
                     "1" if pvis else "0"])
        exp.append([str(node.attribs.get("URL", "-"))])


# ------------------------------------------------------------------ one site (runs in a worker process)

def layout(location: str, case_dir: Path):
    """Where the project is written and through which path FORD is given its project file.
    Returns (directory to write into, directory to address it by, extra options)."""
    case_dir.mkdir(parents=True, exist_ok=True)
    if location == "symlink-root":
        # the project directory itself is a symbolic link
        real = case_dir / "real"
        real.mkdir()
        os.symlink(real, case_dir / "work", target_is_directory=True)
        return real, case_dir / "work", {}
    if location == "symlink-ancestor":
        # an ancestor of the project directory is a symbolic link (symlinked home / checkout directory)
        (case_dir / "store" / "proj").mkdir(parents=True)
        os.symlink(case_dir / "store", case_dir / "via", target_is_directory=True)
        return case_dir / "store" / "proj", case_dir / "via" / "proj", {}
    if location == "dotdot":
        (case_dir / "a" / "b").mkdir(parents=True)
        (case_dir / "proj").mkdir()
        return case_dir / "proj", case_dir / "a" / "b" / ".." / ".." / "proj", {}
    if location == "symlink-output":
        # the path of the output directory crosses a symbolic link
        (case_dir / "proj").mkdir()
        (case_dir / "elsewhere").mkdir()
        os.symlink(case_dir / "elsewhere", case_dir / "proj" / "outlink", target_is_directory=True)
        return case_dir / "proj", case_dir / "proj", {"output_dir": "./outlink/doc"}
    (case_dir / "proj").mkdir()
    return case_dir / "proj", case_dir / "proj", {}


def build_project(P, case_dir: Path):
    R = c09_gen.render(P)
    files = dict(R["files"])
    files.update(R["extra"])
    root, via, extra_opts = layout(P.get("location", "plain"), case_dir)
    R["options"].update(extra_opts)
    pf = e2e.write_project(root, files, R["options"], text=R["text"], pages=R["pages"])
    pf = via / pf.name
    if R["media"]:
        (root / "media").mkdir(exist_ok=True)
        (root / "media" / "pic.png").write_bytes(b"\x89PNG\r\n")
    if R["css"]:
        (root / "user.css").write_text("body {}\n")
    for rel, body in (R.get("root_files") or {}).items():
        (root / rel).parent.mkdir(parents=True, exist_ok=True)
        (root / rel).write_bytes(body)
    return pf, R


def hidden_names(P):
    """Lower-cased names of entities the display options hide (generator's view), with their children."""
    o = P["opts"]
    disp = set(o["display"])
    hide_undoc = o["hide_undoc"]
    out = set()

    def hide_proc(p):
        out.add(p["name"].lower())
        for a in p["args"]:
            out.add(a["name"].lower())
        for v in p["locals"]:
            out.add(v["name"].lower())
        for q in p["internal"]:
            hide_proc(q)

    for f in P["files"]:
        for u in f["units"]:
            if u["kind"] == "module":
                dflt = u["default"] or "public"
                for v in u["vars"]:
                    if (v["perm"] or dflt) not in disp or (hide_undoc and not v["doc"]):
                        out.add(v["name"].lower())
                for t in u["types"]:
                    tp = t["perm"] or dflt
                    thid = tp not in disp or (hide_undoc and not t["doc"])
                    if thid:
                        out.add(t["name"].lower())
                    for c in t["comps"]:
                        cp = c["perm"] or ("private" if t["privcomps"] else "public")
                        if thid or cp not in disp or (hide_undoc and not c["doc"]):
                            out.add(c["name"].lower())
                    for b in t["bound"]:
                        if thid or (b["perm"] or "public") not in disp or (hide_undoc and not b["doc"]):
                            out.add(b["name"].lower())
                    if t["generic"] and (thid or (hide_undoc and not t["generic"]["doc"])):
                        out.add(t["generic"]["name"].lower())
                for p in u["procs"]:
                    if (p["perm"] or dflt) not in disp or (hide_undoc and not p["doc"]):
                        hide_proc(p)
                    elif not o["proc_internals"]:
                        for v in p["locals"]:
                            out.add(v["name"].lower())
                        for q in p["internal"]:
                            hide_proc(q)
                for g in u["generics"]:
                    if (g["perm"] or dflt) not in disp or (hide_undoc and not g["doc"]):
                        out.add(g["name"].lower())
                for i in u["ifaces"]:
                    ihid = dflt not in disp or (hide_undoc and not i["doc"])
                    if i["name"] and ihid:
                        out.add(i["name"].lower())
                    for b in i["bodies"]:
                        if dflt not in disp or (hide_undoc and not b["doc"]) or (i["name"] and ihid):
                            hide_proc(b)
                for a in u["absints"]:
                    if dflt not in disp or (hide_undoc and not a["doc"]):
                        hide_proc(a)
                for b in u["modprocs"]:
                    if dflt not in disp or (hide_undoc and not b["doc"]):
                        hide_proc(b)
            elif u["kind"] in ("subroutine", "function"):
                if not o["proc_internals"]:
                    for v in u["locals"]:
                        out.add(v["name"].lower())
                    for q in u["internal"]:
                        hide_proc(q)
                if hide_undoc and not u["doc"]:
                    hide_proc(u)
            elif u["kind"] == "blockdata":
                t = u.get("type")
                if t and ("public" not in disp or (hide_undoc and not t["doc"])):
                    out.add(t["name"].lower())
                    out.add(t["comp"].lower())
            elif u["kind"] == "program":
                for p in u["procs"]:
                    if hide_undoc and not p["doc"]:
                        hide_proc(p)
                for v in u["vars"]:
                    if hide_undoc and not v["doc"]:
                        out.add(v["name"].lower())
    return out


def hidden_interface_pages(P):
    """Lower-cased names of the procedures whose *interface* page `hide_undoc` removes although they are documented:
    every body of an unnamed interface block (and every separate-module-procedure interface) is wrapped in a
    FortranInterface object of its own that carries no doc comment, so `_should_display` drops it."""
    out = set()
    if not P["opts"]["hide_undoc"]:
        return out
    for f in P["files"]:
        for u in f["units"]:
            if u["kind"] == "module":
                for i in u["ifaces"]:
                    if not i["name"]:
                        out.update(b["name"].lower() for b in i["bodies"])
                out.update(b["name"].lower() for b in u["modprocs"])
    return out


def _has_iface_function_of_type(P):
    """Is there, anywhere in the generated project, a function dictionary with a derived-type `rtype` that is rendered as
    an interface body (it sits in a list that is not `procs` / `internal` of a program unit)?"""
    found = []

    def walk(x, key):
        if isinstance(x, dict):
            if x.get("kind") == "function" and x.get("rtype") not in (None, "integer") and key not in ("procs", "internal", "units"):
                found.append(x["name"])
            for k, v in x.items():
                walk(v, k)
        elif isinstance(x, list):
            for v in x:
                walk(v, key)

    walk(P["files"], "files")
    return bool(found)


def project_features(P):
    feat = {"module_namelist": False, "localtype": False, "bound": False, "generic_modproc": False, "constructor": False,
            # a function whose interface is given by an interface body (interface block, abstract interface, separate module
            # procedure interface, anywhere) and whose declared result type is a derived type
            "iface_function_of_type": _has_iface_function_of_type(P)}
    for f in P["files"]:
        for u in f["units"]:
            if u["kind"] == "module":
                if u["namelist"]:
                    feat["module_namelist"] = True
                if u["generics"] or any(t["constructor"] for t in u["types"]):
                    feat["generic_modproc"] = True
                if any(t["constructor"] for t in u["types"]):
                    feat["constructor"] = True
                for t in u["types"]:
                    if t["bound"]:
                        feat["bound"] = True
                procs = list(u["procs"])
            elif u["kind"] == "program":
                procs = list(u["procs"])
                for t in u["types"]:
                    if t["bound"]:
                        feat["bound"] = True
            elif u["kind"] == "submodule":
                procs = list(u["procs"])
            elif u["kind"] in ("subroutine", "function"):
                procs = [u]
            else:
                procs = []
            for p in procs:
                if p.get("localtype") or p.get("localiface"):
                    # entities without page and anchor (get_url() is None)
                    feat["localtype"] = True
    return feat


def function_names(P):
    out = set()

    def rec(p):
        if p["kind"] == "function":
            out.add(p["name"].lower())
        for q in p.get("internal", []):
            rec(q)

    for f in P["files"]:
        for u in f["units"]:
            if u["kind"] in ("subroutine", "function"):
                rec(u)
            for p in u.get("procs", []):
                rec(p)
            for p in u.get("absints", []) + u.get("modprocs", []) + u.get("impls", []):
                rec(p)
            for i in u.get("ifaces", []):
                for b in i["bodies"]:
                    rec(b)
    return out


NAME_IN_URL = re.compile(r"([A-Za-z_][A-Za-z0-9_]*)")


def classify(fail, ctx):
    """Known defect classes (known_findings/C09.json); None = not a known class.
    `ctx`: out (absolute output dir), cwd, opts, shape, feat, hidden, line text before the tag."""
    url, why, page = fail["url"].strip(), fail["why"], fail["page"]
    opts, feat = ctx["opts"], ctx["feat"]
    path = url.split("#", 1)[0]
    frag = url.split("#", 1)[1] if "#" in url else ""
    missing = why in ("target file does not exist", "target is a directory without index.html")
    if (page == "index.html" and missing and path.endswith("lists/files.html") and opts["incl_src"]
            and ctx["shape"]["files"] + ctx["shape"]["extra_files"] <= 1):
        return "C09-index-files-link-single-file"
    if why == "absolute path" and url.startswith(ctx["out"] + "/") and page.split("/")[0] in ("type", "module", "program", "proc"):
        if feat["bound"] and fail.get("after_arrow"):
            return "C09-entity-str-without-relurl"
        if feat["constructor"] and fail.get("in_constructor_row"):
            return "C09-entity-str-without-relurl"
    if why == "absolute path" and url.startswith(ctx["out"] + "/type/") and page.startswith("interface/") and fail.get("in_iface_retval") \
            and fail.get("q") == "'" and feat.get("iface_function_of_type"):
        # the derived type of the result of a function given by an interface body, in the "Return Value" heading of its page
        return "C09-interface-result-type-without-relurl"
    if missing and page.startswith("page/") and "/" in path and not path.startswith("../") \
            and path.split("/", 1)[0] in ctx.get("abs_copy_items", {}).get(page, []):
        # a relative link into a directory that the *project-wide* `copy_subdir` setting names, on a static page whose
        # PageNode.copy_subdir (observed on the real object) holds that name as an absolute path: nothing is copied
        return "C09-project-copy-subdir-never-copied"
    if fail.get("read_more_of") is not None and missing and path == "../None" and not frag:
        # the "Read more" link of the summary of an entity whose get_url() is None; the defect of the unchanged
        # code needs `summary:` metadata in the doc comment or a documentation without <p> paragraph
        rec = fail["read_more_of"]
        if not rec["has_url"] and (rec["explicit"] or not rec["has_para"]) and not ctx.get("link_needs_url"):
            return "C09-read-more-link-without-url"
        return None
    if "fragment" in why and not path and frag.startswith("fn:") and fail.get("fn_ref") and fail.get("q") == '"' \
            and frag[len("fn:"):] in ctx.get("fn_first", ()):
        # the reference of a footnote that sits in the first paragraph of a doc comment: the summary (first paragraph only)
        # is printed where the list of footnotes of the documentation is not
        return "C09-footnote-ref-in-summary"
    if fail.get("fn_leak_of") is not None and "fragment" in why and not path:
        site = fail["fn_leak_of"]["site"]
        unreset = [x for x in site.split("/") if x not in ctx.get("md_resets", [])]
        if unreset:
            return "C09-footnotes-leak-into-conversions-without-reset"
        return None
    if feat["localtype"] and page.startswith("proc/") and fail.get("in_localtype_doc"):
        if why == "absolute path" and url.startswith(ctx["out"] + "/"):
            return "C09-doc-link-in-entity-without-url"
        if missing or why == "leaves the output directory":
            cand = os.path.normpath(os.path.join(ctx["cwd"], path))
            if cand.startswith(ctx["out"] + "/"):
                return "C09-doc-link-in-entity-without-url"
    if not opts["incl_src"] and missing and re.fullmatch(r"(\.\./)*sourcefile/[^/]+\.html", path):
        # only the link the markdown processor makes for `[[<file>(file)]]` (Project.find searches allfiles):
        # an <a href=".."> as the markdown serialiser writes it, whose file is named by such a link in the
        # project's documentation.  A link printed by FortranBase.__str__ (<a href='..'>: "Location" cells,
        # breadcrumbs, ...) is NOT this defect: the `visible` flag of the file must keep it away.
        fname = re.sub(r"~\d+$", "", _unquote(os.path.basename(path))[:-5]).lower()
        if fail.get("tag") == "a" and fail.get("attr") == "href" and fail.get("q") == '"' and fname in ctx["file_link_targets"]:
            return "C09-file-link-with-sources-hidden"
    if feat["module_namelist"] and page.startswith("module/") and frag.startswith("namelist-") and "fragment" in why \
            and os.path.normpath(os.path.join(os.path.dirname(page), path)) == page:
        return "C09-module-namelist-anchor"
    if page.startswith("interface/") and frag.startswith("moduleprocedure-") and "fragment" in why and feat["generic_modproc"] \
            and os.path.normpath(os.path.join(os.path.dirname(page), path)) == page:
        return "C09-generic-interface-modproc-anchor"
    if (missing or "fragment" in why) and frag.startswith("variable-") \
            and re.sub(r"~\d+$", "", frag[len("variable-"):]).lower() in ctx["functions"]:
        return "C09-link-to-function-result-variable"
    if missing or "fragment" in why:
        stem = os.path.basename(path)[:-5] if path.endswith(".html") else ""
        stem = re.sub(r"~\d+$", "", stem)
        fname = re.sub(r"~\d+$", "", frag.split("-", 1)[1]) if "-" in frag else ""
        hid = ctx["hidden"]
        if (stem and stem.lower() in hid) or (fname and fname.lower() in hid):
            return "C09-link-to-entity-hidden-by-display"
        if missing and stem and re.fullmatch(r"(\.\./)*interface/[^/]+\.html", path) and stem.lower() in ctx["hidden_iface"]:
            return "C09-link-to-entity-hidden-by-display"
    return None


FILE_LINK_RE = re.compile(r"\[\[\s*([^\]\[():|]+?)\s*(?:\(file\))?\s*\]\]", re.I)


def file_link_targets(R):
    """Lower-cased base names of the source / extra files that some `[[name(file)]]` (or bare `[[name]]`)
    link in the project's texts (sources, extra files, static pages, front page) names."""
    names = {n.split("/")[-1].lower() for n in list(R["files"]) + list(R["extra"])}
    texts = [t for t in list(R["files"].values()) + list(R["extra"].values()) + list((R["pages"] or {}).values()) + [R["text"]]
             if isinstance(t, str)]
    found = set()
    for t in texts:
        for m in FILE_LINK_RE.finditer(t):
            if m.group(1).lower() in names:
                found.add(m.group(1).lower())
    return found


def walk_entities(project, limit=600):
    """Every FortranBase object reachable from the project's files through parent/child links."""
    import ford.sourceform as sf

    seen, order = set(), []
    stack = list(project.files) + list(project.extra_files)
    while stack and len(order) < limit:
        o = stack.pop()
        if id(o) in seen or not isinstance(o, sf.FortranBase):
            continue
        seen.add(id(o))
        order.append(o)
        for k, v in list(vars(o).items()):
            if k in ("parent", "hierarchy", "settings", "meta"):
                continue
            items = v if isinstance(v, (list, tuple)) else [v]
            for it in items:
                if isinstance(it, sf.FortranBase) and getattr(it, "parent", None) is o and id(it) not in seen:
                    stack.append(it)
    return order


def entity_record(o):
    chain = []
    cur = o
    n = 0
    while cur is not None and n < 12:
        try:
            ident = cur.ident
        except Exception as e:  # noqa
            return None
        chain.append([type(cur).__name__, str(getattr(cur, "obj", "")), ident,
                      "1" if getattr(cur, "name", "") else "0", "1" if getattr(cur, "generic", False) else "0"])
        cur = getattr(cur, "parent", None)
        n += 1
    try:
        d = o.get_dir()
        u = o.get_url()
    except Exception as e:  # noqa
        return {"chain": chain, "dir": f"EXC {type(e).__name__}", "url": f"EXC {type(e).__name__}"}
    # FortranBase.__str__: does it print the link form?
    vis = getattr(o, "visible", None)
    try:
        text = str(o)
        sl = "1" if re.search(r"<a\s[^>]*href", text) else "0"
    except Exception as e:  # noqa
        sl = f"EXC {type(e).__name__}"
    return {"chain": chain, "dir": d if d is not None else "none", "url": u if u is not None else "none",
            "vis": "none" if vis is None else ("1" if vis else "0"), "str_link": sl,
            "ext": hasattr(o, "external_url")}


class _Nav(c09_links.HTMLParser):
    """(label, href) of the <a> elements of a page, with a flag for the navigation bar."""

    def __init__(self):
        super().__init__(convert_charrefs=True)
        self.out = []
        self.cur = None
        self.in_nav = 0

    def handle_starttag(self, tag, attrs):
        a = dict(attrs)
        if tag == "ul" and "navbar-nav" in (a.get("class") or ""):
            self.in_nav = 1
        if tag == "a" and "href" in a:
            self.cur = [a["href"], "", bool(self.in_nav)]

    def handle_endtag(self, tag):
        if tag == "a" and self.cur is not None:
            self.out.append((re.sub(r"\s+", " ", self.cur[1]).strip(), self.cur[0], self.cur[2]))
            self.cur = None
        if tag == "ul" and self.in_nav:
            self.in_nav = 0

    def handle_data(self, data):
        if self.cur is not None:
            self.cur[1] += data


def page_links(path: Path):
    p = _Nav()
    p.feed(path.read_text(encoding="utf-8", errors="replace"))
    p.close()
    return p.out


def observe_pages(doc, out: Path, site):
    """For every PagetreePage of the run: location, stem, the real `copy_subdir` / `files` of its PageNode, and for each
    `copy_subdir` item that is a directory next to the page source and whose target lies below the output directory the
    files below it (that is what `copytree` has to reproduce).  Also: every file below <out>/page, and per page the
    names of `copy_subdir` items that are *absolute* paths (the project setting after normalise_paths)."""
    nodes, abs_items = [], {}
    if doc is None:
        return nodes, sorted(f for f in site.files if f.startswith("page/")), abs_items
    page_dir = doc.data.get("page_dir")
    out_dir = Path(doc.data["output_dir"])
    for pg in doc.pagetree:
        o = pg.obj
        loc = str(o.location).replace(os.sep, "/")
        loc = "" if loc == "." else loc
        items = []
        for it in o.copy_subdir:
            its = str(it)
            src = Path(page_dir) / o.location / it
            tgt = Path(os.path.normpath(out_dir / "page" / o.location / it))
            if os.path.isabs(its):
                abs_items.setdefault(os.path.relpath(pg.outfile, out_dir).replace(os.sep, "/"), []).append(os.path.basename(its))
            if out_dir not in tgt.parents or not src.is_dir() or os.path.isabs(its) or "/" in its.strip("/") or its in (".", ".."):
                continue
            items.append({"name": its, "files": sorted(str(f.relative_to(src)).replace(os.sep, "/") for f in src.rglob("*") if f.is_file())})
        nodes.append({"loc": loc, "stem": str(o.filename), "copy_subdir": [str(x) for x in o.copy_subdir],
                      "own": bool(getattr(o.meta, "copy_subdir", None)), "items": items, "files": [str(x) for x in o.files],
                      # round 6: what the three places really call the page (relative to base_url / the output directory)
                      "url": os.path.relpath(o.url, o.base_url).replace(os.sep, "/"),
                      "outfile": os.path.relpath(pg.outfile, out_dir).replace(os.sep, "/"), "search_loc": str(pg.loc).replace(os.sep, "/")})
    return nodes, sorted(f for f in site.files if f.startswith("page/")), abs_items


def observe_assets(doc):
    """The option values the asset conditions talk about, read from the settings dictionary of the real run."""
    if doc is None:
        return None
    d = doc.data
    env = {"o": {k: int(bool(d.get(k))) for k in ("css", "mathjax_config", "search", "incl_src", "favicon", "media_dir")}, "d": {}}
    if d.get("mathjax_config"):
        env["d"]["basename(mathjax_config)"] = os.path.basename(str(d["mathjax_config"]))
    return env


def run_site(args):
    """Worker: generate, run FORD, observe.  Returns a JSON-able dict."""
    seed, k, workdir, keep = args
    t0 = time.time()
    rng = random.Random(seed * 100003 + k)
    P = c09_gen.gen_project(rng)
    root = Path(workdir) / f"s{k}"
    shutil.rmtree(root, ignore_errors=True)
    res = {"k": k, "shape_kind": P["shape"], "opts": P["opts"], "has_pages": bool(P["pages"]), "P": P if keep else None,
           "location": P.get("location", "plain"), "doc_style": {x: P["links"].get(x) for x in ("para_rate", "summary_rate", "list_rate")}}
    _LAST["md"] = []
    _LAST["graph_nodes"] = set()
    _LAST.pop("md_exc", None)
    _LAST.pop("doc", None)
    _LAST.pop("aliases", None)
    try:
        pf, R = build_project(P, root)
        res["used"] = R["used"]
        cwd = os.getcwd()
        r = e2e.run_inprocess(pf)
        res["rc"] = r["rc"]
        if r["rc"] != 0:
            tr = r.get("trace", "") or ""
            res["abort"] = {"exc": (r["exc"] or "")[:300], "trace_tail": tr[-1500:],
                            "relurl_keyerror": ("relative_url" in tr and "KeyError: 'href'" in tr),
                            "link_child_error": any(m in (r["exc"] or "") or m in tr for m in ("Error when parsing link", "cannot have child"))}
            return res
        out = Path(r["out"])
        import ford.output  # noqa
        # ---------- observation of the objects (correspondence)
        # the project object is not returned by main(); rebuild the numbers from the output + settings
        res["out"] = str(out)
        site = c09_links.Site(out)
        res["n_links"] = len(site.links)
        res["n_internal"] = len(site.internal_links())
        res["n_files"] = len(site.files)
        kinds = {}
        for lk in site.links:
            pk = c09_links.page_kind(lk["page"])
            kinds[pk] = kinds.get(pk, 0) + 1
        res["links_by_page_kind"] = kinds
        res["list_pages"] = sorted(f[len("lists/"):] for f in site.files if f.startswith("lists/"))
        proj = _LAST.get("project")
        shape = {l: len(list(getattr(proj, l))) for l in COUNT_LISTS} if proj is not None else None
        res["shape"] = shape
        ents = []
        if proj is not None:
            for o in walk_entities(proj):
                rec = entity_record(o)
                if rec is not None:
                    ents.append(rec)
        res["entities"] = ents
        res["list_classes"] = {l: sorted({type(x).__name__ for x in getattr(proj, l)}) for l in COUNT_LISTS} if proj is not None else {}
        res["first"] = {}
        if proj is not None:
            for l in ("files", "blockdata", "programs"):
                lst = list(getattr(proj, l))
                if lst:
                    res["first"][l] = lst[0].get_url()
        # navigation as rendered
        nav = {}
        sample_pages = ["index.html"]
        ent_pages = sorted(f for f in site.files if f.endswith(".html") and f.split("/")[0] in
                           ("module", "proc", "program", "type", "interface", "sourcefile", "blockdata", "namelist", "lists"))
        if ent_pages:
            sample_pages.append(ent_pages[k % len(ent_pages)])
        deep = sorted((f for f in site.files if f.startswith("page/") and f.endswith(".html")), key=lambda f: -f.count("/"))
        if deep:
            sample_pages.append(deep[0])
        sample_pages.append("search.html")
        for sp in sample_pages:
            if sp in site.files:
                nav[sp] = page_links(out / sp)
        res["nav"] = nav
        # ---------- static pages: what PagetreePage.writeout had to copy (real PageNode attributes + the page directory on
        #            disk) and what lies below <out>/page; assets: the settings dictionary the templates saw
        doc = _LAST.get("doc")
        res["page_nodes"], res["page_tree_files"], res["abs_copy_items"] = observe_pages(doc, out, site)
        # ---------- graphs: the nodes BaseNode.__init__ made (distinct observations), and the pages that carry an inline graph
        res["graph_nodes"] = sorted(_LAST.get("graph_nodes", ()))
        res["graph_pages"] = sorted({lk["page"] for lk in site.links if lk["attr"] == "xlink:href" and lk["page"].endswith(".html")})
        res["asset_env"] = observe_assets(doc)
        res["aliases"] = _LAST.get("aliases")
        res["asset_files"] = sorted(f for f in site.files if "/" not in f or f.split("/", 1)[0] in ("css", "js", "webfonts", "search"))
        res["head_links"] = {sp: sorted({(lk["tag"], lk["attr"], resolve_rel(sp, lk["url"].strip())) for lk in site.links
                                         if lk["page"] == sp and lk["tag"] in ("link", "script", "form") and lk["url"] is not None
                                         and not c09_links.is_external(lk["url"].strip()) and not lk["url"].strip().startswith("/")})
                             for sp in nav}
        res["asset_hist"] = {"favicon " + (os.path.splitext(P["assets"]["favicon"])[1] if (P.get("assets") or {}).get("favicon") else "default"): 1,
                             "mathjax_config=" + str(bool((P.get("assets") or {}).get("mathjax"))): 1,
                             "pages with own copy_subdir": sum(1 for n in res["page_nodes"] if n["own"]),
                             "non-index pages with own copy_subdir": sum(1 for n in res["page_nodes"] if n["own"] and n["stem"] != "index"),
                             "pages under the project-wide copy_subdir": sum(1 for n in res["page_nodes"] if n["copy_subdir"] and not n["own"]),
                             "copy_subdir directories next to their page": sum(len(n["items"]) for n in res["page_nodes"]),
                             "plain files in page directories": sum(len(n["files"]) for n in res["page_nodes"])}
        pdirs = [os.path.dirname(f) for f in site.files if f.startswith("page/") and f.endswith(".html")]
        pnames = {}
        for dname in set(pdirs):
            pnames.setdefault(os.path.basename(dname), set()).add(dname)
        res["page_tree_hist"] = {"sites with two page directories of the same name": int(any(len(v) > 1 for v in pnames.values())),
                                 "sites with a page directory named like a directory of the output": int(any(
                                     x in pnames for x in ("module", "lists", "proc", "doc", "media", "src") ) or len(pnames.get("page", ())) > 1),
                                 "sites with static pages": int(bool(pdirs)),
                                 "sites with a dot in the stem of a page file": int(any("." in n["stem"] for n in res["page_nodes"])),
                                 "sites with a dot in the name of a page directory": int(any("." in n["loc"] for n in res["page_nodes"])),
                                 "page files with a dot in the stem": sum(1 for n in res["page_nodes"] if "." in n["stem"])}
        # ---------- property oracle
        fails = site.failures()
        ctx = {"out": str(out), "cwd": cwd, "opts": P["opts"], "shape": shape or c09_gen.shape_counts(P),
               "feat": project_features(P), "hidden": hidden_names(P), "functions": function_names(P),
               "file_link_targets": file_link_targets(R), "hidden_iface": hidden_interface_pages(P), "link_needs_url": _LAST.get("link_needs_url", False),
               "abs_copy_items": res["abs_copy_items"], "fn_first": set(R.get("fn_first", [])),
               "md_resets": _LAST.get("md_resets", [])}
        # ---------- what FortranBase.markdown did for every entity (summary rule, "Read more" link)
        md = _LAST.get("md", [])
        if _LAST.get("md_exc"):
            raise RuntimeError("markdown hook: " + _LAST["md_exc"][0])
        res["md_total"] = len(md)
        res["md_hist"] = {"read more link": sum(1 for m in md if m["emitted"]),
                          "entity without url": sum(1 for m in md if not m["has_url"]),
                          "entity without url, documented": sum(1 for m in md if not m["has_url"] and m["doc"].strip()),
                          "entity without url, several paragraphs": sum(1 for m in md if not m["has_url"] and m["doc"].count("<p>") > 1),
                          "summary metadata": sum(1 for m in md if m["explicit"]),
                          "documentation without paragraph": sum(1 for m in md if not m["has_para"] and m["doc"].strip())}
        # all the interesting ones, then a sample of the rest
        first = [m for m in md if not m["has_url"] or m["explicit"] or (not m["has_para"] and m["doc"].strip())]
        rest = [m for m in md if m["emitted"] and m not in first]
        res["md"] = [{x: m[x] for x in ("cls", "name", "has_url", "url", "explicit", "summary_body", "emitted", "href",
                                         "has_para", "para", "doc")} for m in (first[:80] + rest[:40])]
        # the conversions of the run in order, as far as footnotes go: the front page text, then per entity its doc comment
        # and (when it has `summary:` metadata) the summary - what each defines / refers to in the source, and the
        # footnotes listed / referred to in the converted text.  Only kept when a footnote occurs anywhere.
        res["fn_seq"] = None
        if any(m["fn_defs"] or m["fn_doc"] or m["fn_summary"] for m in md) or FN_DEF_RE.search(R["text"]):
            seq = [{"site": "projectDocs", "blank": not R["text"].strip(), "defs": FN_DEF_RE.findall(R["text"]), "refs": FN_REF_RE.findall(R["text"]), "notes": None, "ids": None, "who": "front page text"}]
            for m in md:
                seq.append({"site": "entityDoc", "blank": m["fn_blank"], "defs": m["fn_defs"], "refs": m["fn_refs"], "notes": m["fn_doc"], "ids": m["fn_doc_refs"],
                            "who": f"{m['cls']} {m['name']}"})
                if m["explicit"]:
                    seq.append({"site": "entitySummary", "blank": False, "defs": [], "refs": [], "notes": m["fn_summary"], "ids": [],
                                "who": f"summary of {m['cls']} {m['name']}"})
            res["fn_seq"] = seq
        res["fn_hist"] = {"doc comments with a footnote": sum(1 for m in md if m["fn_defs"]),
                          "doc comments with a footnote and summary metadata": sum(1 for m in md if m["fn_defs"] and m["explicit"]),
                          "footnote referred to in the first paragraph": len(R.get("fn_first", [])),
                          "converted texts that list a footnote they do not define": sum(1 for m in md if set(m["fn_doc"]) - set(m["fn_defs"]))
                          + sum(1 for m in md if m["explicit"] and m["fn_summary"])}
        nourl_links = [m for m in md if m["emitted"] and not m["has_url"]]
        texts = {}
        fulltext = {}
        for f in fails:
            pg = f["page"]
            if pg not in texts and (out / pg).is_file():
                texts[pg] = (out / pg).read_text(encoding="utf-8", errors="replace").split("\n")
            lines = texts.get(pg, [])
            ln = f["line"]
            f["before"] = " ".join(lines[max(0, ln - 3):ln])[-300:] if lines else ""
            # `=> <a href='..'>impl</a>[, <a ..>]*` : str(binding) joined without the relurl filter
            ctx3 = " ".join(lines[max(0, ln - 3):ln]) if lines else ""
            item = r"(?:<a href='[^']*'>[^<]*</a>|[\w~]+)"
            f["after_arrow"] = re.search(r"=(?:>|&gt;)\s*(?:" + item + r",\s*)*<a href='" + re.escape(f["url"]) + "'", ctx3) is not None
            # `<proctype> <strong>{{ proc }}</strong>` in the constructor table of a type summary
            f["in_constructor_row"] = re.search(r"(?:function|subroutine)\s*<strong><a href='" + re.escape(f["url"]) + "'", ctx3) is not None
            # `<h3>Return Value <span ..></span><small>type(<a href='..'>t</a>)` on the page of an interface body (nongenint_page.html)
            f["in_iface_retval"] = re.search(r"<h3>Return Value\s*<span class=\"anchor\" id=\"[^\"]*\"></span><small>\s*(?:type|class)\(<a href='"
                                             + re.escape(f["url"]) + "'", ctx3) is not None
            # is the link inside the documentation of a type local to a procedure?
            f["in_localtype_doc"] = any("local type" in x or "component" in x or "local interface" in x
                                        for x in lines[max(0, ln - 1):ln]) if lines else False
            # is it the "Read more" link that FortranBase.markdown appended to the summary of an entity without URL?
            # (the summary is printed verbatim: find it in the page and compare the line of its link)
            f["read_more_of"] = None
            if nourl_links and lines and f["tag"] == "a":
                if pg not in fulltext:
                    fulltext[pg] = "\n".join(lines)
                txt = fulltext[pg]
                for m in nourl_links:
                    i = txt.find(m["summary"])
                    while i >= 0 and f["read_more_of"] is None:
                        if txt.count("\n", 0, i + len(m["summary_body"])) + 1 == ln and m["href"] == f["url"]:
                            f["read_more_of"] = {x: m[x] for x in ("cls", "name", "has_url", "explicit", "has_para")}
                        i = txt.find(m["summary"], i + 1)
            # a footnote link: the reference `<a class="footnote-ref" href="#fn:L">` in a text, or the back-link
            # `<a class="footnote-backref" href="#fnref:L">` of the list of footnotes below a converted text
            f["fn_ref"] = re.search(r'<a class="footnote-ref" href="' + re.escape(f["url"]) + '"', ctx3) is not None
            f["fn_leak_of"] = None
            if f["url"].startswith("#fnref:") and f["tag"] == "a" and lines and \
                    re.search(r'<a class="footnote-backref" href="' + re.escape(f["url"]) + '"', ctx3):
                lab = f["url"][len("#fnref:"):]
                if pg not in fulltext:
                    fulltext[pg] = "\n".join(lines)
                txt = fulltext[pg]
                # (a) inside the verbatim summary of an entity whose doc comment has `summary:` metadata and defines L:
                #     the metadata is converted right after the documentation, by the same converter, without a reset
                for m in md:
                    if f["fn_leak_of"] is None and m["explicit"] and lab in m["fn_defs"] and lab in m["fn_summary"]:
                        i = txt.find(m["summary"])
                        while i >= 0 and f["fn_leak_of"] is None:
                            l0 = txt.count("\n", 0, i) + 1
                            if l0 <= ln <= l0 + m["summary"].count("\n"):
                                f["fn_leak_of"] = {"site": "entitySummary", "cls": m["cls"], "name": m["name"]}
                            i = txt.find(m["summary"], i + 1)
                # (b) on the front page, below the project summary / the author description, which `main` converts after
                #     all doc comments without a reset: the footnotes of the entity that was converted last
                if f["fn_leak_of"] is None and pg == "index.html" and md and lab in md[-1]["fn_defs"] \
                        and (P["opts"].get("summary") or P["opts"].get("author")):
                    f["fn_leak_of"] = {"site": "projectSummary/authorDescription", "cls": md[-1]["cls"], "name": md[-1]["name"]}
            f["class"] = classify(f, ctx)
        res["fails"] = fails[:60]
        res["n_fails"] = len(fails)
        # ---------- relocation: move the tree, resolve again
        moved = out.parent / (out.name + "_moved_elsewhere")
        shutil.rmtree(moved, ignore_errors=True)
        os.rename(out, moved)
        before = {(f["page"], f["url"]) for f in fails}
        after = site.failures(moved)
        res["reloc_new_fails"] = [f for f in after if (f["page"], f["url"]) not in before][:20]
        res["reloc_fixed"] = len(before) - len({(f["page"], f["url"]) for f in after if (f["page"], f["url"]) in before})
        res["abs_leaks"] = []
        os.rename(moved, out)
    except Exception as e:  # noqa
        res["harness_exc"] = f"{type(e).__name__}: {e}\n{traceback.format_exc()[-1200:]}"
    finally:
        if not keep:
            shutil.rmtree(root, ignore_errors=True)
    res["wall"] = round(time.time() - t0, 2)
    return res


_LAST: dict = {}


FN_DEF_RE = re.compile(r"^[ ]{0,3}\[\^([^\]\s]+)\]:", re.M)
FN_REF_RE = re.compile(r"\[\^([^\]\s]+)\](?!:)")
FN_REFID_RE = re.compile(r'<sup id="fnref:([^"]+)"')
FN_BACKREF_RE = re.compile(r'class="footnote-backref" href="#fnref:([^"]+)"')
READ_MORE_RE = re.compile(r'<a href="([^"]*)" class="pull-right"><emph>Read more&hellip;</emph></a>$')


def _install_hook():
    """Remember the Project object of the run in this process (main() does not return it), and what
    FortranBase.markdown saw and produced for every entity (summary / "Read more" link)."""
    import ford.fortran_project as fp
    import ford.sourceform as sf

    if getattr(fp.Project, "_c09_hooked", False):
        return
    orig_md = sf.FortranBase.markdown

    def markdown(self, md, *a, **kw):
        explicit = getattr(getattr(self, "meta", None), "summary", None) is not None
        try:
            src = textwrap.dedent("\n".join(getattr(self, "doc_list", None) or []))
            fn_defs, fn_refs, fn_blank = FN_DEF_RE.findall(src), FN_REF_RE.findall(src), not src.strip()
        except Exception:  # noqa
            fn_defs, fn_refs, fn_blank = [], [], True
        r = orig_md(self, md, *a, **kw)
        try:
            recs = _LAST.setdefault("md", [])
            summary = self.meta.summary
            if isinstance(summary, str) and isinstance(self.doc, str):
                m = READ_MORE_RE.search(summary)
                url = self.get_url()
                para = sf.PARA_CAPTURE_RE.search(self.doc)
                recs.append({"cls": type(self).__name__, "name": str(getattr(self, "name", "")), "has_url": url is not None,
                             "url": url if url is not None else "none", "explicit": explicit,
                             "summary_body": summary[:m.start()] if m else summary, "emitted": m is not None,
                             "href": m.group(1) if m else "", "has_para": para is not None,
                             "para": para.group() if para else "", "doc": self.doc, "summary": summary,
                             # footnotes: labels defined in the doc comment; labels listed below the converted
                             # documentation / the converted summary (each with a back-link `#fnref:<label>`)
                             "fn_defs": fn_defs, "fn_refs": fn_refs, "fn_blank": fn_blank, "fn_doc": FN_BACKREF_RE.findall(self.doc),
                             "fn_doc_refs": FN_REFID_RE.findall(self.doc), "fn_summary": FN_BACKREF_RE.findall(summary)})
        except Exception as e:  # noqa
            _LAST.setdefault("md_exc", []).append(f"{type(e).__name__}: {e}")
        return r

    sf.FortranBase.markdown = markdown
    orig = fp.Project.correlate

    def correlate(self, *a, **kw):
        _LAST["project"] = self
        return orig(self, *a, **kw)

    fp.Project.correlate = correlate
    import ford.output as fo
    orig_doc = fo.Documentation.__init__

    def doc_init(self, *a, **kw):
        _LAST["doc"] = self
        return orig_doc(self, *a, **kw)

    fo.Documentation.__init__ = doc_init
    import ford._markdown as fm
    orig_mm = fm.MetaMarkdown.__init__

    def mm_init(self, *a, **kw):
        al, base = kw.get("aliases"), kw.get("base_url")
        if al and base is not None and all(x in al for x in ("url", "media", "page")):
            _LAST["aliases"] = {x: os.path.relpath(str(al[x]), str(base)) for x in ("url", "media", "page")}
        return orig_mm(self, *a, **kw)

    fm.MetaMarkdown.__init__ = mm_init
    # round 6: every graph node the run makes: what BaseNode.__init__ looked at and the URL attribute it set
    import ford.graphs as fg
    orig_node = fg.BaseNode.__init__

    def node_init(self, obj, graph_data, *a, **kw):
        r = orig_node(self, obj, graph_data, *a, **kw)
        try:
            par = getattr(obj, "parent", None)
            _LAST.setdefault("graph_nodes", set()).add((
                "1" if getattr(self, "fromstr", False) else "0", "1" if hasattr(obj, "external_url") else "0",
                "-" if getattr(self, "url", None) is None else str(self.url),
                "1" if getattr(obj, "visible", True) else "0",
                "1" if isinstance(obj, sf.FortranBoundProcedure) else "0", "1" if getattr(par, "visible", True) else "0",
                str(self.attribs.get("URL", "-")), str(getattr(graph_data, "parent_dir", "?"))))
        except Exception as e:  # noqa
            _LAST.setdefault("md_exc", []).append(f"graph node hook: {type(e).__name__}: {e}")
        return r

    fg.BaseNode.__init__ = node_init
    fp.Project._c09_hooked = True


def _worker_init(md_resets=None):
    common.import_ford()
    _install_hook()
    _LAST["md_resets"] = list(md_resets or [])
    try:
        from translate import c09 as tr
        _LAST["link_needs_url"] = tr.extract_readmore(common.REPO)["link_needs_url"]
    except Exception:  # the translator failure is reported by lean_prove in the parent
        _LAST["link_needs_url"] = False


# ------------------------------------------------------------------ comparison with the model

def shape_fields(shape, opts):
    fs = [f"c:{l}={n}" for l, n in shape.items()]
    o = dict(opts)
    cnt = int(bool(o["incl_src"])) + int(shape["modules"] > 0) + int(shape["procedures"] > 0) + int(shape["types"] > 0)
    fs += [f"o:incl_src={int(bool(o['incl_src']))}", f"o:search={int(bool(o['search']))}",
           f"o:count={int(cnt > 0)}", f"o:max_length={int(int(o['max_frontpage_items']) > 0)}"]
    return fs


def resolve_rel(page, href):
    path = href.split("#", 1)[0]
    return os.path.normpath(os.path.join(os.path.dirname(page), path))


def compare_site(r, drv_answers, rep, stats):
    """drv_answers: dict name -> model answer lists for this site."""
    k = r["k"]
    # --- list pages
    model_pages = sorted(drv_answers["pages"][1:])
    if model_pages != r["list_pages"]:
        rep.tie_broken(f"correspondence site/pages: model {model_pages} vs written {r['list_pages']} (case {k})",
                       {"stream": "site", "case": k, "shape": r["shape"], "opts": r["opts"], "model": model_pages, "impl": r["list_pages"]})
        stats["bad"] += 1
    # --- get_dir / get_url
    for rec, ans in zip(r["entities"], drv_answers["geturl"]):
        stats["geturl"] += 1
        impl = [rec["dir"], rec["url"]]
        if ans != impl:
            stats["bad"] += 1
            rep.tie_broken(f"correspondence site/geturl: model {ans} vs implementation {impl} for {rec['chain'][0]} (case {k})",
                           {"stream": "site", "case": k, "chain": rec["chain"], "model": ans, "impl": impl})
    # --- FortranBase.__str__: link form printed <-> model (URL present and `visible`); for classes with a
    #     static rule the real object's `visible` attribute must equal the rule's value
    for rec, ans in zip(r["entities"], drv_answers.get("strlink", [])):
        if rec.get("ext"):
            continue
        if rec["str_link"].startswith("EXC"):
            stats["str_exc"] += 1
            continue
        stats["strlink"] += 1
        if ans[0] != rec["str_link"] or (ans[1] != "dyn" and ans[1] != (rec["vis"] if rec["vis"] != "none" else ans[1])):
            stats["bad"] += 1
            rep.tie_broken(f"correspondence site/strlink: model (link, visible) {ans} vs implementation "
                           f"{[rec['str_link'], rec['vis']]} for {rec['chain'][0]} (case {k})",
                           {"stream": "site", "case": k, "chain": rec["chain"], "model": ans,
                            "impl": [rec["str_link"], rec["vis"]], "opts": r["opts"]})
    # --- FortranBase.markdown: is the "Read more" link appended to the summary, and with which href <-> model
    #     (`readMore` on the real documentation / paragraph / converted `summary:` metadata strings)
    for m, ans in zip(r.get("md", []), drv_answers.get("readmore", [])):
        stats["readmore"] += 1
        impl = ["1" if m["emitted"] else "0", m["href"] if m["emitted"] else ""]
        model = [ans[0], ans[1] if ans[0] == "1" else ""]
        if impl != model:
            stats["bad"] += 1
            rep.tie_broken(f"correspondence site/readmore: model (link appended, href) {model} vs implementation {impl} for "
                           f"{m['cls']} {m['name']} (case {k})",
                           {"stream": "site", "case": k, "entity": [m["cls"], m["name"]], "model": model, "impl": impl,
                            "has_url": m["has_url"], "explicit_summary": m["explicit"], "doc": m["doc"][:300]})
    # --- footnotes: what every converted doc comment / summary lists below its text and refers to <-> the model's converter
    #     with the probed reset sites, fed with the same sequence of texts (labels defined / referred to in the source)
    if r.get("fn_seq") and "footnotes" in drv_answers:
        outs = drv_answers["footnotes"][1:]
        if len(outs) != len(r["fn_seq"]):
            stats["bad"] += 1
            rep.tie_broken(f"correspondence site/footnotes: the model answered {len(outs)} conversions for {len(r['fn_seq'])} (case {k})",
                           {"stream": "site", "case": k})
        else:
            for c, o in zip(r["fn_seq"], outs):
                if c["notes"] is None:
                    continue
                stats["footnotes"] += 1
                notes, ids = (x.split(",") if x else [] for x in o.split("|", 1))
                if notes != c["notes"] or sorted(ids) != sorted(c["ids"]):
                    stats["bad"] += 1
                    rep.tie_broken(f"correspondence site/footnotes: {c['who']} ({c['site']}): the model lists the footnotes {notes} and the "
                                   f"references {ids}, the converted text has {c['notes']} and {c['ids']} (case {k})",
                                   {"stream": "site", "case": k, "who": c["who"], "site": c["site"], "defs": c["defs"], "refs": c["refs"],
                                    "model": [notes, ids], "impl": [c["notes"], c["ids"]]})
                    break
    # --- static pages: the files below <out>/page are exactly what the model of PagetreePage.writeout writes for the real
    #     PageNode objects (HTML file of every page, the files below the page's own `copy_subdir` directories, the plain
    #     files of the page directory), under the regenerated guards of the two copy loops
    if r.get("page_nodes") or r.get("page_tree_files"):
        model_files = set()
        for ans in drv_answers.get("pagecopy", []):
            model_files.update(ans[1:])
        impl_files = set(r.get("page_tree_files", []))
        stats["page_copies"] += len(r["page_nodes"])
        stats["page_copy_files"] += len(impl_files)
        if model_files != impl_files:
            stats["bad"] += 1
            rep.tie_broken(f"correspondence site/pagecopy: below page/ the model expects {sorted(model_files - impl_files)[:6]} that are not written "
                           f"and does not expect {sorted(impl_files - model_files)[:6]} (case {k})",
                           {"stream": "site", "case": k, "seed": r.get("seed"), "model_only": sorted(model_files - impl_files)[:20],
                            "impl_only": sorted(impl_files - model_files)[:20],
                            "pages": [{x: n[x] for x in ("loc", "stem", "copy_subdir", "files")} for n in r["page_nodes"]][:12]})
    # --- round 6: the URL attribute of every graph node the run made vs the model's `nodeUrl` on what BaseNode.__init__ looked at;
    #     the pages that carry an inline graph lie where the model's host templates put them (one directory below the root)
    for g, ans in zip(r.get("graph_nodes", []), drv_answers.get("graphnode", [])):
        stats["graph_nodes"] += 1
        if g[6] != "-":
            stats["graph_nodes_with_url"] += 1
        if g[3] == "0" or (g[4] == "1" and g[5] == "0"):
            stats["graph_nodes_hidden"] += 1
        if list(ans) != [g[6]]:
            stats["bad"] += 1
            rep.tie_broken(f"correspondence site/graphnode: model URL {list(ans)} vs implementation {g[6]!r} for a node with (fromstr, external, url, "
                           f"visible, bound, parent visible) = {g[:6]} (case {k})",
                           {"stream": "site", "case": k, "seed": r.get("seed"), "node": list(g), "model": list(ans)})
    for gp in r.get("graph_pages", []):
        stats["graph_pages"] += 1
        if gp.count("/") != 1:
            stats["bad"] += 1
            rep.tie_broken(f"correspondence site/graphpage: {gp} carries an inline graph but does not lie one directory below the root "
                           f"(the model's host templates all do) (case {k})", {"stream": "site", "case": k, "seed": r.get("seed"), "page": gp})
    # --- round 6: what every real PageNode / PagetreePage of the run calls its page (link URL, file written, search index URL)
    #     vs the model's names under the regenerated namings
    for n, ans in zip(r.get("page_nodes", []), drv_answers.get("pagename", [])):
        stats["page_names"] += 1
        if "." in n["stem"]:
            stats["page_names_dotted"] += 1
        impl = [n.get("url"), n.get("outfile"), n.get("search_loc")]
        if list(ans[:3]) != impl:
            stats["bad"] += 1
            rep.tie_broken(f"correspondence site/pagename: static page {n['loc']}/{n['stem']}.md: model (url, outfile, search url) {list(ans[:3])} "
                           f"vs implementation {impl} (case {k})",
                           {"stream": "site", "case": k, "seed": r.get("seed"), "page": {x: n[x] for x in ("loc", "stem")}, "model": list(ans[:3]), "impl": impl})
    # --- assets: the <link>/<script>/<form> URLs of the sampled pages are the asset links the model emits for the real
    #     settings dictionary; the asset files in the output are the ones the model of Documentation.writeout writes
    if r.get("asset_env") is not None and "assetwritten" in drv_answers:
        for sp, got in r.get("head_links", {}).items():
            exp = set()
            for tpl in ["base.html"] + (["search.html"] if sp == "search.html" else []):
                for e in drv_answers["assets:" + tpl][1:]:
                    tag, attr, path = e.split("|", 2)
                    if tag in ("link", "script", "form"):
                        exp.add((tag, attr, path))
            stats["asset_pages"] += 1
            if exp != {tuple(x) for x in got}:
                stats["bad"] += 1
                rep.tie_broken(f"correspondence site/assets on {sp}: model {sorted(exp - {tuple(x) for x in got})} not rendered, "
                               f"rendered {sorted({tuple(x) for x in got} - exp)} not in the model (case {k})",
                               {"stream": "site", "case": k, "page": sp, "env": r["asset_env"], "model": sorted(exp), "impl": sorted(got)})
        want = {f for f in drv_answers["assetwritten"][1:] if "{" not in f}
        have = set(r.get("asset_files", []))
        if r["opts"].get("externalize"):
            have.discard("modules.json")   # `externalize: true`: ford.external_project.dump_modules, not part of the HTML output
        stats["asset_files"] += len(have)
        if want != have:
            stats["bad"] += 1
            rep.tie_broken(f"correspondence site/asset files: the model of Documentation.writeout writes {sorted(want - have)} that are not in the "
                           f"output; the output has {sorted(have - want)} that the model does not write (case {k})",
                           {"stream": "site", "case": k, "env": r["asset_env"], "model_only": sorted(want - have), "impl_only": sorted(have - want)})
    # --- the values of the built-in aliases handed to the real Markdown object, relative to project_url
    if r.get("aliases"):
        impl = {a: ("" if v == "." else v) for a, v in r["aliases"].items()}
        stats["aliases"] += 1
        if impl != drv_answers.get("aliases"):
            stats["bad"] += 1
            rep.tie_broken(f"correspondence site/aliases: model {drv_answers.get('aliases')} vs implementation {impl} (case {k})",
                           {"stream": "site", "case": k, "model": drv_answers.get("aliases"), "impl": impl})
    # --- members of the project lists versus the class the table names (annotation in Project.__init__; FORD's
    #     annotations are loose for lists such as `procedures`, so only what the theorem uses is compared):
    #     a list whose table class can be a parent, or has a static `visible` rule, holds exactly that class;
    #     no other list holds instances of a parent class
    mro, dir_parent = drv_answers["mro"], set(drv_answers["dir_parent"])

    def is_parent(cn):
        return any(c in dir_parent for c in mro.get(cn, [cn]))

    for l, want in drv_answers.get("list_class", {}).items():
        for cn in r.get("list_classes", {}).get(l, []):
            stats["list_members"] += 1
            strict = is_parent(want) or want in drv_answers["vis_classes"]
            if (strict and cn != want) or (not strict and is_parent(cn)):
                stats["bad"] += 1
                rep.tie_broken(f"correspondence site/list class: project.{l} holds a {cn}, the table says {want} (case {k})",
                               {"stream": "site", "case": k, "list": l, "impl": cn, "model": want})
    # --- navigation
    for tpl_page, links in r["nav"].items():
        tpls = ["base.html", "index.html"] if tpl_page == "index.html" else ["base.html"]
        exp = set()
        for tpl in tpls:
            for e in drv_answers["nav:" + tpl][1:]:
                label, tgt, _exists = e.rsplit("|", 2)
                label = re.sub(r"\s+", " ", _html.unescape(label)).strip()
                if tgt.startswith("list:"):
                    exp.add((label, "lists/" + tgt[5:]))
                else:
                    u = r["first"].get(tgt[6:])
                    exp.add((label, u if u is not None else "<no %s[0]>" % tgt[6:]))
        labels = drv_answers["labels"]
        got = set()
        for label, href, in_nav in links:
            if c09_links.is_external(href):
                continue
            if (in_nav and label in labels["base.html"]) or (tpl_page == "index.html" and label in labels["index.html"] and not in_nav):
                got.add((label, resolve_rel(tpl_page, href)))
        stats["nav_pages"] += 1
        if got != exp:
            stats["bad"] += 1
            rep.tie_broken(f"correspondence site/nav on {tpl_page}: model {sorted(exp)} vs rendered {sorted(got)} (case {k})",
                           {"stream": "site", "case": k, "page": tpl_page, "shape": r["shape"], "opts": r["opts"],
                            "model": sorted(exp), "impl": sorted(got)})
        # where the model says `{{ project_url }}/index.html` is (brand link)
        brand = [href for label, href, in_nav in links if href.endswith("index.html") and not in_nav][:1]
        want = drv_answers["purl:" + tpl_page][0] + "/index.html"
        if brand and brand[0] != want:
            stats["bad"] += 1
            rep.tie_broken(f"correspondence site/project_url on {tpl_page}: model {want!r} vs rendered {brand[0]!r} (case {k})",
                           {"stream": "site", "case": k, "page": tpl_page, "model": want, "impl": brand[0]})


# ------------------------------------------------------------------ witness replay

def witness_project():
    """The Lean witness `singleFileShape`: one source file, sources included."""
    files = {"only.f90": "program only\n  !! the only program\n  print *, 1\nend program only\n"}
    return files, {"incl_src": "true", "search": "false", "graph": "false", "quiet": "true", "warn": "false"}


def replay_witness(workdir: Path):
    files, opts = witness_project()
    root = workdir / "witness"
    shutil.rmtree(root, ignore_errors=True)
    pf = e2e.write_project(root, files, opts)
    r = e2e.run_inprocess(pf)
    if r["rc"] != 0:
        return None, f"ford failed on the witness project: {r['exc']}"
    site = c09_links.Site(r["out"])
    fails = [f for f in site.failures() if f["page"] == "index.html" and f["url"].endswith("lists/files.html")]
    return fails, None


# ------------------------------------------------------------------ main

def _tick(label, t0=[None]):
    """phase timing on stderr when C09_TIMING is set"""
    if os.environ.get("C09_TIMING"):
        import sys
        now = time.time()
        print(f"[c09 timing] {label}: +{now - (t0[0] or now):.1f}s", file=sys.stderr)
        t0[0] = now


def run(tier: str, seed: int, replay: str | None = None) -> int:
    from translate import c09 as tr

    _tick("start")
    rep = Report(PROP, tier, seed)
    lean = lean_prove(PROP, translate=tr.translate, thorough=(tier == "thorough"))
    for b in lean.broken():
        rep.tie_broken("proof: " + b)
    common.import_ford()
    _install_hook()
    rng = random.Random(seed * 7919 + 9)
    drv = Driver()
    n_micro = 1500 if tier == "quick" else 20000
    n_sites = 640 if tier == "quick" else 6400
    _tick("lean_prove + imports")
    ev_micro, bad_micro = micro_stream(drv, rng, n_micro, rep)
    _tick("micro stream")

    # ---- variant: which navigation entries does the regenerated table fail?
    navcheck = drv.call("c09.navcheck")[1:]
    failing_entries = [e.rsplit("|", 1)[0] for e in navcheck if e.endswith("|0")]
    known_entry = "index.html|list:files.html"
    variant = "repaired" if not failing_entries else ("asIs" if failing_entries == [known_entry] else "unknown")
    for e in failing_entries:
        if e != known_entry:
            rep.tie_broken(f"navigation entry {e}: its template condition does not imply the condition of its target page "
                           f"(entryOk = false on the regenerated table)")
    # ---- every project list whose members are printed as somebody's parent: visible => page written
    strcheck = [e.split("|") for e in drv.call("c09.strcheck")[1:]]
    failing_lists = [e[0] for e in strcheck if len(e) == 4 and e[2] == "1" and e[3] == "0"]
    for l in failing_lists:
        rep.tie_broken(f"project.{l}: a member's __str__ may print the link to its page (its `visible` rule holds) for project "
                       f"shapes for which entity_list_page_map makes no page for it (listOk = false on the regenerated tables)")
    # ---- the regenerated facts about path normalisation / relative_url, summary rule / link guard
    rc = drv.call("c09.relurlcheck")
    if rc[0] != "1":
        rep.tie_broken(f"normalise_path is `{rc[1]}` but relative_url searches for the resolved href: links below an output "
                       f"directory whose path crosses a symbolic link are not made relative (tablesOk = false on the regenerated facts)")
    table_variants = {"normalise_path": rc[1], "relative_url_resolves_href": rc[2] == "1", "summary_rule": rc[3],
                      "read_more_link_guarded_by_url": rc[4] == "1"}
    # ---- every `{{ project_url }}/<path>` URL of the templates names a file that Documentation.writeout writes
    failing_assets = []
    for e in drv.call("c09.assetcheck")[1:]:
        tpl, tag, attr, path, ok = e.rsplit("|", 4)
        if ok != "1":
            failing_assets.append(f"{tpl}: <{tag} {attr}=\"{{{{ project_url }}}}/{path}\">")
            rep.tie_broken(f"asset link {tpl}: <{tag} {attr}=\"{{{{ project_url }}}}/{path}\">: no copy / page write of Documentation.writeout "
                           f"creates that path under a condition the link's condition implies (linkOk = false on the regenerated tables)")
    # ---- the built-in aliases expand to the directories below which the user's trees are copied
    model_aliases = {}
    for e in drv.call("c09.aliases")[1:]:
        a, path, ok = e.rsplit("|", 2)
        model_aliases[a] = path
        if ok != "1":
            rep.tie_broken(f"alias |{a}| expands to `{{project_url}}/{path}`, which is not the destination of any copy of a user directory "
                           f"in Documentation.writeout / the page directory (aliasOk = false on the regenerated tables)")
    # ---- the copy loops of PagetreePage.writeout run for every page
    pc = drv.call("c09.pagecheck")
    if pc[2] != "1":
        rep.tie_broken(f"PagetreePage.writeout: the `copy_subdir` loop runs `{pc[0]}`, the `files` loop `{pc[1]}`: a page's own copy_subdir "
                       f"directories / the files of a page directory are not copied for every page that links them")
    gc = drv.call("c09.graphcheck")
    if gc[0] != "1":
        rep.tie_broken(f"graph node URLs: prefix `{gc[1]}/`, visible gate {gc[2]}, binding gate {gc[3]}, foreign URLs kept {gc[4]}, templates that "
                       f"print a graph with the depth of their pages {gc[5:]}: a node URL does not resolve from every page that prints a graph, "
                       f"or a hidden entity gets a clickable node (GraphUrl.tablesOk = false on the regenerated tables)")
    table_variants.update({"graph_parent_dir": gc[1], "graph_hosts": gc[5:]})
    pn = drv.call("c09.pagenamecheck")
    if pn[3] != "1":
        rep.tie_broken(f"static pages: PageNode.url names the page's file by `{pn[0]}`, PagetreePage.outfile by `{pn[1]}`, PagetreePage.loc "
                       f"(search index) by `{pn[2]}`: for a page file with a dot in its stem the links FORD writes and the file it writes "
                       f"disagree (PageName.tablesOk = false on the probed namings)")
    table_variants.update({"page_naming_url": pn[0], "page_naming_outfile": pn[1], "page_naming_search": pn[2]})
    table_variants.update({"copy_subdir_loop_guard": pc[0], "page_files_loop_guard": pc[1], "asset_links_failing_check": failing_assets})
    # ---- state that outlives one text / one page: the Markdown converter, a cache in front of the relurl filter
    mc = drv.call("c09.mdcheck")
    if mc[0] != "1":
        rep.tie_broken(f"only the conversions at {mc[1] or 'no site'} start from a reset Markdown converter: the front page text, a doc "
                       f"comment or a static page is converted by a converter that still holds the footnotes of the text before it "
                       f"(tablesOk = false on the probed sites)")
    if mc[2] != "1":
        rep.tie_broken(f"the relurl filter reuses an earlier result for pages that agree in `{mc[3]}` only: a page in another directory "
                       f"gets the relative links computed for the first one (faithful = false on the probed key)")
    table_variants.update({"markdown_sites_starting_from_reset": mc[1].split(",") if mc[1] else [], "relurl_filter_reuse_key": mc[3]})
    labels = {"base.html": set(), "index.html": set()}
    table_mro, table_list_class, table_dir_parent, table_vis_classes = {}, {}, [], []
    table_md_resets = []
    try:
        ext = tr.extract_cached()
        table_md_resets = list(ext["md_resets"])
        for tpl, label, tgt, c in ext["nav"]:
            labels[tpl].add(re.sub(r"\s+", " ", _html.unescape(label)).strip())
        table_mro = {n: ch for n, ch in ext["mro"]}
        table_list_class = dict(ext["list_class"])
        table_dir_parent = list(ext["dir_parent"])
        table_vis_classes = [c for c, _cond, _src in ext["vis_init"]]
    except Exception as e:  # the translator failure is already recorded by lean_prove
        pass

    replay_cases = None
    if replay:
        import json
        try:
            obj = json.loads(Path(replay).read_text())
            # (several failing links of one site share a case number: run each site once)
            replay_cases = list(dict.fromkeys((c.get("seed", seed), c["case"]) for c in obj.get("cases", []) if "case" in c))
        except Exception as e:  # noqa
            raise common.Infra(f"cannot read replay file {replay}: {e}")

    hist = {"shape_kind": {}, "files": {}, "modules": {}, "programs": {}, "blockdata": {}, "procedures": {}, "types": {},
            "absinterfaces": {}, "namelists": {}, "submodules": {}, "options": {}, "links_by_page_kind": {}, "doc_link_targets": {},
            "aborted_runs": {}, "location": {}, "doc_style": {}, "summaries": {}, "assets": {}, "footnotes": {},
            "page_tree": {}}
    stats = {"geturl": 0, "nav_pages": 0, "bad": 0, "strlink": 0, "str_exc": 0, "list_members": 0, "readmore": 0,
             "page_copies": 0, "page_copy_files": 0, "page_names": 0, "page_names_dotted": 0, "graph_nodes": 0, "graph_nodes_with_url": 0, "graph_nodes_hidden": 0, "graph_pages": 0, "asset_pages": 0, "asset_files": 0, "aliases": 0, "footnotes": 0}
    n_links = n_internal = 0
    distinct = set()
    samples = []
    oracle_fail_sites = 0
    class_counts: dict[str, int] = {}
    reloc_checked = 0

    def bump(h, key):
        hist[h][str(key)] = hist[h].get(str(key), 0) + 1

    with common.scratch_dir("ford-c09-") as d:
        jobs = [(s, k, str(d), False) for s, k in replay_cases] if replay_cases else [(seed, k, str(d), False) for k in range(n_sites)]
        results = []
        with ProcessPoolExecutor(max_workers=min(16, os.cpu_count() or 4), initializer=_worker_init,
                                 initargs=(table_md_resets,)) as ex:
            for r in ex.map(run_site, jobs, chunksize=2):
                results.append(r)
        _tick("site stream (ford runs)")
        # ---- model answers in one batch
        reqs, index = [], []
        for r in results:
            if r.get("harness_exc"):
                raise common.Infra(f"harness failure in site case {r['k']}: {r['harness_exc']}")
            if r.get("rc") != 0 or r.get("shape") is None:
                continue
            fs = shape_fields(r["shape"], r["opts"])
            index.append((r["k"], "pages", len(reqs), 1))
            reqs.append(["c09.pages"] + fs)
            for tpl in ("base.html", "index.html"):
                index.append((r["k"], "nav:" + tpl, len(reqs), 1))
                reqs.append(["c09.nav", tpl] + fs)
            for pg in r["nav"]:
                index.append((r["k"], "purl:" + pg, len(reqs), 1))
                reqs.append(["c09.projecturl", r["out"], pg])
            index.append((r["k"], "geturl", len(reqs), len(r["entities"])))
            for rec in r["entities"]:
                reqs.append(["c09.geturl"] + [x for node in rec["chain"] for x in node])
            index.append((r["k"], "strlink", len(reqs), len(r["entities"])))
            for rec in r["entities"]:
                reqs.append(["c09.strlink", rec["vis"], str(len(rec["chain"]))] + [x for node in rec["chain"] for x in node] + fs)
            if r.get("asset_env") is not None:
                afs = [f"o:{o}={v}" for o, v in r["asset_env"]["o"].items()] + [f"d:{k_}={v}" for k_, v in r["asset_env"]["d"].items()]
                for tpl in ("base.html", "search.html"):
                    index.append((r["k"], "assets:" + tpl, len(reqs), 1))
                    reqs.append(["c09.assets", tpl] + afs)
                index.append((r["k"], "assetwritten", len(reqs), 1))
                reqs.append(["c09.assetwritten"] + afs)
            index.append((r["k"], "pagecopy", len(reqs), len(r.get("page_nodes", []))))
            for n in r.get("page_nodes", []):
                q = ["c09.pagecopy", n["loc"] or ".", n["stem"], str(len(n["items"]))]
                for it in n["items"]:
                    q += [it["name"], str(len(it["files"]))] + it["files"]
                q += [str(len(n["files"]))] + n["files"]
                reqs.append(q)
            index.append((r["k"], "graphnode", len(reqs), len(r.get("graph_nodes", []))))
            for g in r.get("graph_nodes", []):
                reqs.append(["c09.graphnode"] + list(g[:6]))
            index.append((r["k"], "pagename", len(reqs), len(r.get("page_nodes", []))))
            for n in r.get("page_nodes", []):
                reqs.append(["c09.pagename", n["loc"] or ".", n["stem"], "."])
            if r.get("fn_seq"):
                index.append((r["k"], "footnotes", len(reqs), 1))
                q = ["c09.footnotes"]
                for c in r["fn_seq"]:
                    q += [c["site"], "1" if c["blank"] else "0", str(len(c["defs"]))] + c["defs"] + [str(len(c["refs"]))] + c["refs"]
                reqs.append(q)
            index.append((r["k"], "readmore", len(reqs), len(r.get("md", []))))
            for m in r.get("md", []):
                reqs.append(["c09.readmore", "1" if m["has_url"] else "0", m["url"], "1" if m["explicit"] else "0",
                             m["summary_body"] if m["explicit"] else "", "1" if m["has_para"] else "0", m["para"], m["doc"]])
        answers = drv.batch(reqs)
        _tick(f"model batch ({len(reqs)} requests)")
        by_site: dict[int, dict] = {}
        for k, name, start, n in index:
            by_site.setdefault(k, {})[name] = answers[start] if name not in ("geturl", "strlink", "readmore", "pagecopy", "pagename", "graphnode") else answers[start:start + n]
        # ---- evaluate
        for r in results:
            k = r["k"]
            bump("shape_kind", r["shape_kind"])
            for o in ("incl_src", "search", "graph", "proc_internals", "source", "hide_undoc"):
                bump("options", f"{o}={r['opts'][o]}")
            bump("options", "display=" + "+".join(r["opts"]["display"]))
            bump("options", "sort=" + r["opts"]["sort"])
            bump("options", f"page_dir={r['has_pages']}")
            bump("location", r.get("location", "plain"))
            for x, v in (r.get("doc_style") or {}).items():
                bump("doc_style", f"{x}={v}")
            for x, v in (r.get("md_hist") or {}).items():
                hist["summaries"][x] = hist["summaries"].get(x, 0) + v
            for x, v in (r.get("asset_hist") or {}).items():
                hist["assets"][x] = hist["assets"].get(x, 0) + v
            for x, v in (r.get("fn_hist") or {}).items():
                hist["footnotes"][x] = hist["footnotes"].get(x, 0) + v
            for x, v in (r.get("page_tree_hist") or {}).items():
                hist["page_tree"][x] = hist["page_tree"].get(x, 0) + v
            if r["opts"]["graph"]:
                bump("options", f"graph_maxnodes={r['opts'].get('graph_maxnodes')}")
            if r.get("rc") != 0:
                ab = r.get("abort", {})
                if ab.get("link_child_error"):
                    bump("aborted_runs", "doc link names a child that is not there (FORD aborts by design)")
                    continue
                if ab.get("relurl_keyerror"):
                    bump("aborted_runs", "relative_url KeyError 'href'")
                    rep.failing_input({"stream": "site", "seed": seed, "case": k, "why": "run aborted: relative_url raised KeyError 'href' "
                                       "on text that contains an <a> without href (unresolved [[link]])", "exception": ab.get("exc")},
                                      "C09-relurl-crash-on-unresolved-link")
                    class_counts["C09-relurl-crash-on-unresolved-link"] = class_counts.get("C09-relurl-crash-on-unresolved-link", 0) + 1
                    continue
                bump("aborted_runs", "other: " + (ab.get("exc") or "?")[:80])
                rep.failing_input({"stream": "site", "seed": seed, "case": k, "why": "ford aborted on a generated project",
                                   "exception": ab.get("exc"), "trace_tail": ab.get("trace_tail")}, None)
                continue
            sh = r["shape"]
            for l in ("files", "modules", "submodules", "programs", "blockdata", "procedures", "types", "absinterfaces", "namelists"):
                bump(l, min(sh[l], 3) if sh[l] < 3 else "3+")
            for pk, c in r["links_by_page_kind"].items():
                hist["links_by_page_kind"][pk] = hist["links_by_page_kind"].get(pk, 0) + c
            for cls, c in r.get("used", {}).items():
                hist["doc_link_targets"][cls] = hist["doc_link_targets"].get(cls, 0) + c
            n_links += r["n_links"]
            n_internal += r["n_internal"]
            key = common.digest([sh, {o: r["opts"][o] for o in ("incl_src", "search", "graph", "proc_internals", "display", "sort", "source", "hide_undoc")},
                                 r["has_pages"], r.get("location", "plain"), sorted(x for x, v in (r.get("asset_hist") or {}).items() if v)])
            distinct.add(key)
            if len(samples) < 3:
                samples.append({"case": k, "shape": sh, "options": r["opts"], "pages": r["has_pages"], "links": r["n_links"],
                                "list_pages": r["list_pages"], "failing_links": r["n_fails"]})
            if k in by_site:
                by_site[k]["labels"] = labels
                by_site[k]["mro"] = table_mro
                by_site[k]["list_class"] = table_list_class
                by_site[k]["dir_parent"] = table_dir_parent
                by_site[k]["vis_classes"] = table_vis_classes
                by_site[k]["aliases"] = model_aliases
                compare_site(r, by_site[k], rep, stats)
            # oracle
            if r["n_fails"]:
                oracle_fail_sites += 1
            for f in r["fails"]:
                cls = f.get("class")
                class_counts[str(cls)] = class_counts.get(str(cls), 0) + 1
                rep.failing_input({"stream": "site", "seed": seed, "case": k, "page": f["page"], "attr": f["attr"], "url": f["url"],
                                   "why": f["why"], "context": f.get("before", "")[-160:], "shape": sh, "options": r["opts"]}, cls)
            reloc_checked += 1
            for f in r.get("reloc_new_fails", []):
                rep.failing_input({"stream": "site", "seed": seed, "case": k, "page": f["page"], "url": f["url"],
                                   "why": "resolves before but not after moving the output tree: " + f["why"]}, None)
            for leak in r.get("abs_leaks", []):
                cls = "C09-doc-link-in-entity-without-url" if False else None
                rep.failing_input({"stream": "site", "seed": seed, "case": k, "page": leak,
                                   "why": "the absolute location of the output directory is written into this file"}, cls)
        _tick("comparison + oracle evaluation")
        # ---- witness of the navigation finding on the real code
        wfails, werr = replay_witness(Path(d))
        if werr:
            rep.tie_broken("witness replay: " + werr)
        elif variant == "asIs":
            if wfails:
                rep.failing_input({"stream": "witness", "theorem": "nav_index_files_witness", "page": "index.html",
                                   "url": wfails[0]["url"], "why": wfails[0]["why"],
                                   "project": "one source file, incl_src: true"}, "C09-index-files-link-single-file")
            else:
                rep.tie_broken("the regenerated index.html condition fails entryOk but the witness project has no dangling lists/files.html link")
        elif variant == "repaired" and wfails:
            rep.failing_input({"stream": "witness", "page": "index.html", "url": wfails[0]["url"], "why": wfails[0]["why"],
                               "note": "all navigation entries pass entryOk but the witness project still has the dangling link"}, None)
    drv.close()
    _tick("witness")
    n_ok = sum(1 for r in results if r.get("rc") == 0)
    rep.coverage.update(
        evaluations=ev_micro + len(results) + stats["geturl"] + stats["strlink"] + stats["nav_pages"] + stats["readmore"]
        + stats["page_copies"] + stats["asset_pages"] + stats["footnotes"] + stats["page_names"] + stats["graph_nodes"],
        distinct_nontrivial=len(distinct),
        rule="a site case = generated project (shape x options x static pages x doc links) run through ford end-to-end; "
             "distinct by digest of (entity counts as FORD sees them, option combination, page tree present, how the project directory "
             "is reached, icon type / MathJax configuration / kinds of files next to the static pages); all of them reach the mechanism",
        samples=samples,
        traces_validated_against_impl=ev_micro + stats["geturl"] + stats["strlink"] + stats["nav_pages"] + stats["readmore"] + n_ok
        + stats["page_copies"] + stats["asset_pages"] + stats["footnotes"] + stats["page_names"] + stats["graph_nodes"],
        graph_nodes_compared=stats["graph_nodes"], graph_nodes_with_url=stats["graph_nodes_with_url"],
        graph_nodes_of_hidden_entities=stats["graph_nodes_hidden"], pages_with_inline_graph_checked=stats["graph_pages"],
        static_pages_compared_names=stats["page_names"], static_pages_with_dotted_stem_compared=stats["page_names_dotted"],
        static_pages_compared_copies=stats["page_copies"], files_below_page_compared=stats["page_copy_files"],
        pages_compared_asset_links=stats["asset_pages"], asset_files_compared=stats["asset_files"],
        correspondence_disagreements=stats["bad"] + bad_micro,
        sites_generated=len(results), sites_built=n_ok,
        links_checked=n_links, internal_links_checked=n_internal, relocation_checks=reloc_checked,
        entities_compared_get_url=stats["geturl"], pages_compared_navigation=stats["nav_pages"],
        entities_compared_str_link=stats["strlink"], entities_str_raises=stats["str_exc"],
        entities_compared_read_more=stats["readmore"], regenerated_variants=table_variants,
        conversions_compared_footnotes=stats["footnotes"],
        list_member_classes_compared=stats["list_members"], project_lists_failing_str_check=failing_lists,
        sites_with_failing_links=oracle_fail_sites, failing_links_by_class=dict(sorted(class_counts.items())),
        variant=variant, navigation_entries_failing_check=failing_entries,
        input_distribution=hist,
    )
    rep.assumptions += [
        "project_url non-empty (absolute site URL) is outside the property's quantifier and not exercised",
        "which ids a template emits (anchors) is not modelled; the fragment oracle reads them from the written files",
        "CSS/JS assets shipped with FORD and verbatim source copies under src/ are not scanned for URLs",
        "a run that FORD aborts because a [[parent:child]] link names a missing child is counted, not judged (documented behaviour)",
        "relurl model: the `replace` of relative_url is modelled as 'rewritten iff the resolved href equals the href as written' "
        "(substring coincidences are not modelled); its plain-string branch (`pages.url | relurl`) is covered by the oracle only; "
        "theorem hypothesis: what FORD writes below a canonical output directory is not reached through a symbolic link",
        "asset model: the 'Source File' link of the info bar (`{{ base_url }}/src/{{ entity.filename }}`, a macro parameter, not "
        "`project_url`) and links into media/ are judged by the oracle only: the tables know that files / a tree are copied there, "
        "not the names of the user's files",
        "static-page copies: the containment test and the try/except around copytree (C19, C17) are outside the model; only "
        "copy_subdir items that are a directory next to the page source and whose target lies below the output directory are "
        "handed to it (absolute items = the project-wide setting after normalise_paths are the open finding "
        "C09-project-copy-subdir-never-copied)",
    ]
    return rep.finish(lean)
