"""C20, round 6 - the stages after `Project()`, INCLUDE in the valid files, enumerator values.

Streams (called from harness/c20.py)
  enumerators : random ENUM blocks (values from a token grammar: digits, underscores, kinds, signs, points,
                exponents, names, operators) in a module of a real source file -> the real constructor
                (`FortranEnum._cleanup` runs when END ENUM is read) == model `enumCleanup`
                (lean/FordModel/EnumValues.lean): raised / the values of the enumerators without `= value`.
  later       : valid generated files that *use INCLUDE* (a shared include file, a second one nested in it)
                + additional files that are malformed by construction - a non-integer enumerator value, an
                INCLUDE whose file includes itself / includes a missing file / holds a line the reader refuses /
                holds undecodable bytes, a truncated unit - placed first / middle / last, several of them in a
                row; the run goes on past `Project()` into `project.correlate()` as `ford.main` does.
                Oracle (real code only, from the property statement):
                  O1 every valid file is registered, its entity tree and what its entities refer to after
                     `correlate` are the same as without the additional files (when all of those were rejected),
                  O2 nothing escapes - neither `Project()` nor `correlate()` - and the run comes back,
                  O3 every rejected file is named in a warning,
                  O4 the additional file (malformed by construction) is not registered.
                Correspondence: registered / rejected + exception class of the additional file == the model
                (`c20.parseenums`: statement machine + `fileWithEnums`; an INCLUDE failure is a reader error).
"""
from __future__ import annotations

import contextlib
import io
import random
import tempfile
import shutil
from pathlib import Path

from . import common


# ---------------------------------------------------------------------------------------------------------
def later_details(ent, prefix=""):
    """what every entity below `ent` refers to after correlate: used modules, calls, variables (resolved to an
    object or left as a name)"""
    from .c20 import WALK

    def tag(x):
        if isinstance(x, str):
            return "name:" + x
        if isinstance(x, (list, tuple)):
            return "[" + ",".join(tag(y) for y in x[:2]) + "]"
        return type(x).__name__ + ":" + str(getattr(x, "name", "?"))

    out = []
    for attr in WALK:
        for c in getattr(ent, attr, None) or []:
            e = f"{attr}:{getattr(c, 'name', None)}"
            try:
                uses = [tag(u) for u in (getattr(c, "uses", None) or [])]
                calls = [tag(x) for x in (getattr(c, "calls", None) or [])]
                vs = [f"{getattr(v, 'name', v)}={getattr(v, 'initial', None)}" for v in (getattr(c, "variables", None) or [])]
                out.append(f"{prefix}{e}|uses={';'.join(uses)}|calls={';'.join(calls)}|vars={';'.join(vs)}")
            except Exception as exc:  # noqa
                out.append(f"{prefix}{e}|!{type(exc).__name__}")
            out += later_details(c, prefix + e + "/")
    return out


# ---------------------------------------------------------------------------------------------------------
# enumerator values
# ---------------------------------------------------------------------------------------------------------
KINDS = ["int8", "c_int", "k", "i4", "c_long_long", "K8", "Int32"]
BAD_ALWAYS = ["1.5", "2.0_dp", "'x'", ".true.", "1O", "1e3", "3.", "0x10", "1__0", "5_", "(/1/)", "2.5e0_wp"]


def gen_initial(rng) -> str | None:
    x = rng.random()
    if x < 0.3:
        return None
    digits = "".join(rng.choice("0123456789") for _ in range(rng.randint(1, 4)))
    if x < 0.5:
        return rng.choice(["", "", "-", "+"]) + digits
    if x < 0.62:
        return rng.choice(["", "-"]) + digits + "_" + rng.choice(KINDS)
    if x < 0.7:
        return digits + "_" + "".join(rng.choice("0123456789") for _ in range(rng.randint(1, 2)))
    if x < 0.78:
        return rng.choice(BAD_ALWAYS)
    if x < 0.86:
        return rng.choice(["offset", "base+1", "n", "huge(1)", "2*3", "b", "-n", "kind_k"])
    # token soup
    toks = ["1", "23", "_", "__", "k", "int8", "-", "+", ".", "e", "0", "9", "x", "_1", "1_"]
    return "".join(rng.choice(toks) for _ in range(rng.randint(1, 4)))


def gen_enumerators(rng, prefix="e"):
    return [(f"{prefix}{i}", gen_initial(rng)) for i in range(rng.randint(1, 5))]


def enum_fields(es):
    out = []
    for n, i in es:
        out += [n, "~" if i is None else "=" + i]
    return out


def enum_stream(rep, drv, rng, quick):
    from translate.c20late import observe_enum_parse

    n = 200 if quick else 2000
    blocks = [gen_enumerators(rng) for _ in range(n)]
    resp = drv.batch([["c20.enum"] + enum_fields(es) for es in blocks])
    bad = raised = 0
    for es, r in zip(blocks, resp):
        real = observe_enum_parse(es, one_line=rng.random() < 0.4)
        if r[0] != "ok":
            model = ("bad-request", None)
        elif r[1] == "raised":
            model = ("raised", None)
        else:
            vals = [int(x) for x in r[2].split(",") if x] if len(r) > 2 else []
            model = ("values", [v for v, (_, i) in zip(vals, es) if i is None])
        raised += real[0] == "raised"
        if real != model:
            bad += 1
            rep.tie_broken(f"correspondence enumerators: ENUM block {es}: the constructor of the real source file gives {real}, "
                           f"the model (enumCleanup) {model}", {"stream": "enumerators", "enumerators": es, "impl": real, "model": model})
    return {"enum_blocks_compared": n, "enum_blocks_on_which_the_constructor_raised": raised, "enum_disagreements": bad}


# ---------------------------------------------------------------------------------------------------------
# projects whose valid files use INCLUDE, followed into correlate
# ---------------------------------------------------------------------------------------------------------
def include_goods(rng, goods, gi):
    """the valid files of a set, each with an INCLUDE line after its first statement (the opener of its first
    unit); the include file declares variables and includes a second file"""
    shared = f"shared{gi}.inc"
    deep = f"inc/deep{gi}.fi"
    aux = [(shared, f"integer, parameter :: inc_nmax{gi} = 10\n  !! largest size\ninclude '{deep}'\n"),
           (deep, f"integer :: inc_deep{gi}\n")]
    out = []
    for name, text in goods:
        lines = text.splitlines()
        q = rng.choice(['"', "'"])
        inc = rng.choice(["include ", "INCLUDE ", "  include "]) + q + shared + q
        out.append((name, "\n".join(lines[:1] + [inc] + lines[1:]) + "\n"))
    return out, aux


def additional_files(rng, gi):
    """(how, text, aux files, model statements, model enums | None (= reader error))"""
    m = f"b{gi}late"
    out = []
    for v in rng.sample(BAD_ALWAYS, 3):
        es = [(f"{m}_a", rng.choice([None, "1", "4_int8"])), (f"{m}_b", v), (f"{m}_c", None)]
        rng.shuffle(es)
        body = [f"    enumerator :: {n}" + ("" if i is None else f" = {i}") for n, i in es]
        text = "\n".join([f"module {m}_e", "  integer :: before_the_enum", "  enum, bind(c)"] + body +
                         ["  end enum", "contains", f"  subroutine {m}_s()", f"  end subroutine {m}_s", f"end module {m}_e", ""])
        stmts = ["module", f"{m}_e", "variable", "before_the_enum", "enum", ""]
        for n, _ in es:
            stmts += ["variable", n]
        stmts += ["endUnit", "", "contains", "", "subroutine", f"{m}_s", "endUnit", "", "endUnit", ""]
        out.append((f"enumerator-value:{v}", text, [], stmts, [es]))
    ext = rng.choice([".inc", ".fi", ".incl"])
    wrap = lambda inc: f"module {m}_i\n  integer :: before_the_include\n  include '{inc}'\nend module {m}_i\n"  # noqa: E731
    out.append(("include-cycle:self", wrap(f"{m}_self{ext}"), [(f"{m}_self{ext}", f"integer :: again\ninclude '{m}_self{ext}'\n")], None, None))
    out.append(("include-cycle:two", wrap(f"{m}_ping{ext}"), [(f"{m}_ping{ext}", f"integer :: ping\ninclude 'inc/{m}_pong{ext}'\n"),
                                                             (f"inc/{m}_pong{ext}", f"include '../{m}_ping{ext}'\n")], None, None))
    out.append(("include-missing-nested", wrap(f"{m}_via{ext}"), [(f"{m}_via{ext}", f"integer :: via\ninclude '{m}_nowhere{ext}'\n")], None, None))
    line = rng.choice(["& x = 1", "integer :: y !> doc beside code", "x = 2 !| doc beside code"])
    out.append(("include-reader-error", wrap(f"{m}_rd{ext}"), [(f"{m}_rd{ext}", f"integer :: fine\n  {line}\n")], None, None))
    out.append(("include-undecodable", wrap(f"{m}_by{ext}"), [(f"{m}_by{ext}", b"integer :: caf\xe9 \xff\xfe\n")], None, None))
    out.append(("truncated", f"module {m}_t\n  integer :: x\ncontains\n  subroutine {m}_ts()\n", [],
                ["module", f"{m}_t", "variable", "x", "contains", "", "subroutine", f"{m}_ts"], []))
    return out


def norm_obs(obs):
    """the observation of one run in a form that survives a process boundary"""
    return {"hang": obs["hang"], "escaped": None if obs["escaped"] is None else repr(obs["escaped"]),
            "files": obs.get("files"), "paths": obs.get("paths"), "warns": obs.get("warns"), "excs": obs.get("excs"),
            "reports": obs.get("reports"),
            "later_escaped": None if obs.get("later_escaped") is None else repr(obs["later_escaped"]),
            "later_tb": obs.get("later_tb"), "later_details": obs.get("later_details")}


def fresh_run(files, disk):
    """the same run in a process of its own - as a user's run is: nothing that earlier runs of this check
    left in the classes and modules of FORD is there"""
    import json
    import subprocess
    import sys

    job = {"files": [[n, t if isinstance(t, str) else {"bytes": list(t)}] for n, t in files], "disk": disk}
    with tempfile.NamedTemporaryFile("w", suffix=".json", delete=False) as f:
        json.dump(job, f)
    try:
        p = subprocess.run([sys.executable, "-m", "harness.c20late", f.name], capture_output=True, text=True, timeout=120,
                           cwd=str(Path(__file__).resolve().parent.parent))
        line = next((l for l in p.stdout.splitlines() if l.startswith("OBS ")), None)
        if line is None:
            raise common.Infra(f"c20late worker gave no observation: rc={p.returncode} {p.stderr[-400:]}")
        return json.loads(line[4:])
    finally:
        Path(f.name).unlink(missing_ok=True)


def worker_main(path):
    import json
    from .c20 import Real

    job = json.loads(Path(path).read_text())
    ford = common.import_ford()
    files = [(n, t if isinstance(t, str) else bytes(t["bytes"])) for n, t in job["files"]]
    with common.scratch_dir() as root:
        obs = Real(ford, root).run(files, disk=job["disk"], later=True, watchdog=30)
    print("OBS " + json.dumps(norm_obs(obs)))


def judge(obs, base, gnames, badnames, hows):
    """the oracle, from the property statement, on the observation of one run (`base`: the valid files alone)"""
    why = []
    if obs["hang"]:
        why.append("O2: the run (Project(settings), then project.correlate()) did not come back before the watchdog expired")
    elif obs["escaped"] is not None:
        why.append(f"O2: the run aborted in Project(): {obs['escaped']}")
    else:
        for g in gnames:
            if g not in obs["files"]:
                why.append(f"O1: valid file {g} is no longer registered: {[w for w in obs['warns'] if g in w][:1]}")
            elif obs["paths"][g] != base["paths"].get(g):
                why.append(f"O1: entity tree of {g} changed")
        rejected = [n for n in badnames if n not in obs["files"]]
        for n in rejected:
            if not any(n in w for w in obs["warns"]):
                why.append(f"O3: {n} was rejected but no warning names it")
        for n, h in zip(badnames, hows):
            if n in obs["files"]:
                why.append(f"O4: {n} is malformed by construction ({h}) and is registered" +
                           ("" if obs["reports"].get(n) else "; nothing was reported for it"))
        if obs.get("later_escaped") is not None:
            why.append(f"O2: the run aborted after Project() had returned, in project.correlate(), which no handler surrounds: "
                       f"{obs['later_escaped']} at {obs.get('later_tb')}; without the additional file(s) correlate() completes")
        elif len(rejected) == len(badnames):
            for g in gnames:
                if g in obs["files"] and (obs.get("later_details") or {}).get(g) != (base.get("later_details") or {}).get(g):
                    a_, b_ = obs["later_details"].get(g) or [], base["later_details"].get(g) or []
                    diff = [f"{x} (without: {y})" for x, y in zip(a_, b_) if x != y][:3]
                    why.append(f"O1: what the entities of {g} refer to after correlate() changed although every additional file was rejected: {diff}")
    return why


def later_stream(rep, drv, real, rng, quick, cases, baselines):
    n_sets = 7 if quick else 40
    n_fresh_max = 4 if quick else 12
    gis = sorted({c["gi"] for c in cases if (c["gi"], True, False) in baselines})
    rng.shuffle(gis)
    runs = fails = ties = sets_done = late_base_fail = n_fresh = unsuitable = 0
    polluted_sets = 0
    hist: dict[str, int] = {}
    hangs_at_start = real.hangs
    fresh_hangs = 0
    for gi in gis:
        if sets_done >= n_sets:
            break
        if real.hangs >= max(4, hangs_at_start + 2) or fresh_hangs >= 2 or (hangs_at_start >= 4 and sets_done >= 1):
            break         # (the run has failed already and every further hang costs a watchdog period)
        texts, _ = baselines[(gi, True, False)]
        goods, aux = include_goods(rng, list(texts.items()), gi)
        gnames = [n for n, _ in goods]
        disk0 = {n: f"g{2 * j + 1}_{n}" for j, n in enumerate(gnames)}
        base_files = goods + aux
        base_disk = {**disk0, **{a: a for a, _ in aux}}
        base = norm_obs(real.run(base_files, disk=base_disk, later=True))
        polluted = False
        if base["hang"] or base["escaped"] is not None or base.get("files") != gnames:
            # the valid files alone are not all registered *in this process*.  In a process of their own?
            if n_fresh >= n_fresh_max:
                continue
            n_fresh += 1
            if base["hang"] and hangs_at_start >= 4:
                continue      # (Project() hangs on valid files since the earlier streams: reported there)
            fbase = fresh_run(base_files, base_disk)
            fresh_hangs += bool(fbase["hang"])
            if fbase["hang"] or fbase["escaped"] is not None or fbase.get("files") != gnames:
                unsuitable += 1   # (an INCLUDE line after the opener does not suit this set, e.g. an interface body)
                continue
            # registered in a fresh process, rejected here: earlier runs of this check (rejected files among
            # them) have left something behind in FORD's classes / modules.  The runs of this set are made in
            # fresh processes: what one run does to its own valid files is the failing input.
            polluted = True
            polluted_sets += 1
            if polluted_sets == 1:
                ties += 1
                rep.tie_broken("later: valid files that are all registered in a process of their own are rejected in the process of "
                               f"this check, after the runs of the earlier streams: {base['warns'][:2]} - state outside the project object "
                               "outlives the runs (the model has none besides the NameSelector)",
                               {"stream": "later", "files": [{"name": n, "text": t if isinstance(t, str) else repr(t)} for n, t in base_files]})
            base = fbase
        if base.get("later_escaped") is not None:
            late_base_fail += 1      # the valid files alone do not get through correlate (e.g. a submodule without its parent)
            continue
        sets_done += 1
        adds = additional_files(rng, gi)
        reqs = [["c20.parseenums", "1", "0", "0"] + a[3] + [x for es in a[4] for x in ["|"] + enum_fields(es)]
                for a in adds if a[3] is not None]
        mresp = iter(drv.batch(reqs))
        models = [(next(mresp) if a[3] is not None else ["ok", "skipped", "reader", ""]) for a in adds]
        plans = []
        for ai, a in enumerate(adds):       # every additional file alone, at a random place
            plans.append(([ai], rng.randint(0, len(gnames)), False))
        plans.append((list(range(len(adds))), 0, sets_done <= (1 if quick else 4)))     # all of them, read before every valid file
        plans.append((rng.sample(range(len(adds)), 3), rng.randint(0, len(gnames)), False))
        if polluted:
            plans = [(w, 0 if len(w) == 1 else k, True) for w, k, _ in plans if len(w) > 1 or adds[w[0]][0].startswith("include")]
            plans = plans[-2:] + plans[:3]
        for which, k, fresh in plans:
            order = gnames[:k] + [f"bad{j}.f90" for j in range(len(which))] + gnames[k:]
            disk, files = {}, []
            ngood = 0
            for n in order:
                if n.startswith("bad"):
                    disk[n] = f"g{2 * ngood}{chr(97 + int(n[3:-4]))}_{n}"
                    files.append((n, adds[which[int(n[3:-4])]][1]))
                else:
                    disk[n] = disk0[n]
                    ngood += 1
                    files.append((n, dict(goods)[n]))
            extra_aux = list(aux)
            for j in which:
                extra_aux += adds[j][2]
            for an, at in extra_aux:
                disk[an] = an
                files.append((an, at))
            if fresh:
                n_fresh += 1
                obs = fresh_run(files, disk)
                fresh_hangs += bool(obs["hang"])
            else:
                obs = norm_obs(real.run(files, disk=disk, later=True, watchdog=20))
            runs += 1
            hows = [adds[j][0] for j in which]
            if not fresh and any(h.startswith("include-cycle") for h in hows):
                import gc
                gc.collect()          # (the open files of the nested readers, see real_include)
            for h in hows:
                hist[h.split(":")[0]] = hist.get(h.split(":")[0], 0) + 1
            case = {"stream": "later", "how": hows, "reading_order": order, "names_on_disk": disk,
                    "in_a_process_of_its_own": fresh,
                    "files": [{"name": n, "text": t if isinstance(t, str) else repr(t)} for n, t in files]}
            badnames = [n for n in order if n.startswith("bad")]
            if not obs["hang"] and obs["escaped"] is None:
                # correspondence: each additional file's fate
                for j, n in zip(which, badnames):
                    mo = models[j]
                    m_status = mo[1] if mo[0] == "ok" else "bad-request"
                    r_status = "registered" if n in obs["files"] else "skipped"
                    m_err = mo[2] if len(mo) > 2 else ""
                    r_err = obs["excs"].get(n)
                    if m_status != r_status or (r_status == "skipped" and adds[j][3] is not None and m_err != r_err):
                        ties += 1
                        rep.tie_broken(f"correspondence later: {n} ({adds[j][0]}): implementation {r_status} {r_err}, model {m_status} {m_err}",
                                       dict(case, file=n))
            why = judge(obs, base, gnames, badnames, hows)
            if why:
                fails += 1
                rep.failing_input(dict(case, why=why, observed_files=obs.get("files"), warns=obs.get("warns")), None)
            if real.hangs >= max(4, hangs_at_start + 2) or fresh_hangs >= 2:
                break
    return {"later_runs": runs, "later_sets": sets_done, "later_failing": fails, "later_correspondence_disagreements": ties,
            "later_runs_in_a_process_of_their_own": n_fresh,
            "later_sets_rejected_in_this_process_but_not_in_a_fresh_one": polluted_sets,
            "later_sets_an_include_line_does_not_suit": unsuitable,
            "later_sets_whose_valid_files_fail_in_correlate_by_themselves": late_base_fail, "later_additional_file_histogram": dict(sorted(hist.items()))}


# ---------------------------------------------------------------------------------------------------------
# INCLUDE: nested readers over a directory tree (model lean/FordModel/IncludeNest.lean)
# ---------------------------------------------------------------------------------------------------------
INC_DIRS = ["", "inc/", "sub/", "inc/deep/"]
REFUSED_LINE = "integer :: y !| doc beside code"      # (the reader's message for this one names the file it is reading)


def gen_fs(rng):
    """-> (top, inc_dirs, files): files = {relative path: ("I", items) | ("R", items before the refused line) | ("U",)}"""
    n = rng.randint(1, 5)
    names = []
    for i in range(n):
        base = rng.choice([f"c{i}", f"c{i}", "same"]) + rng.choice([".inc", ".fi", ".incl"])
        names.append(rng.choice(INC_DIRS) + base)
    names = sorted(set(names))
    top = rng.choice(["", "sub/"]) + "a_top.f90"
    every = [top] + names
    files = {}
    k = [0]

    def stmt():
        k[0] += 1
        return rng.choice([f"x{k[0]} = 1", f"integer :: v{k[0]}", f"call p{k[0]}(1)", f"real :: r{k[0]}(3)"])

    def rel(frm, to):
        """`to` as seen from the directory of `frm`, in one of several ways (not all of them resolve)"""
        fd = frm.rsplit("/", 1)[0] + "/" if "/" in frm else ""
        x = rng.random()
        if x < 0.7:
            import os
            return os.path.relpath("/r/" + to, "/r/" + fd)
        if x < 0.85:
            return to                       # relative to the root: found from the root, or through inc_dirs
        return to.rsplit("/", 1)[-1]        # the bare name: found beside the includer, or through inc_dirs

    def inc_line(frm):
        x = rng.random()
        later_ones = [n_ for n_ in names if n_ > frm or frm == top]
        if x < 0.62 and later_ones:
            name = rel(frm, rng.choice(later_ones))     # (towards later names: no cycle)
        elif x < 0.8 and names:
            name = rel(frm, rng.choice(names))
        elif x < 0.84:
            name = rel(frm, frm)            # itself
        elif x < 0.89:
            name = rng.choice(["nowhere.inc", "inc/nowhere.fi", "../up.inc"])
        elif x < 0.96:
            name = rng.choice(["config.h", "inc/defs.h"])      # (no `.h` file exists anywhere)
        else:
            name = rel(frm, top)
        q = rng.choice(["'", '"'])
        sp = rng.choice(["include ", "INCLUDE ", "Include  ", "include", "include\t"])
        return sp + q + name + q + (rng.choice(["", "", "", " extra"]) if rng.random() < 0.1 else "")

    for f in every:
        x = rng.random()
        items = []
        for _ in range(rng.randint(0, 4)):
            items.append(inc_line(f) if rng.random() < 0.45 else stmt())
        if f != top and x < 0.08:
            files[f] = ("U",)
        elif x < 0.16:
            files[f] = ("R", items)
        else:
            files[f] = ("I", items)
    inc_dirs = rng.choice([[], [], ["inc"], ["inc", ""], ["sub", "inc/deep"]])
    return top, inc_dirs, files


def real_include(ford, root, top, inc_dirs, files):
    import ford.reader as rd

    if root.exists():
        shutil.rmtree(root)
    root.mkdir(parents=True)
    for f, body in files.items():
        p = root / f
        p.parent.mkdir(parents=True, exist_ok=True)
        if body[0] == "U":
            p.write_bytes(b"integer :: caf\xe9 \xff\xfe\n")
        else:
            p.write_text("".join(l + "\n" for l in body[1]) + (REFUSED_LINE + "\ninteger :: after\n" if body[0] == "R" else ""))
    buf = io.StringIO()
    try:
        with contextlib.redirect_stdout(buf), contextlib.redirect_stderr(buf):
            items = list(rd.FortranReader(str(root / top), "!", ">", "*", "|", inc_dirs=[str(root / d) for d in inc_dirs]))
        return ["items"] + items
    except RecursionError:
        # (every nested reader holds an open file, and the traceback holds the readers: collect now, a few
        #  hundred descriptors per case would otherwise wait for the next collection)
        import gc
        gc.collect()
        return ["error", "recursion"]
    except FileNotFoundError as e:
        m = str(e)
        return ["error", "missing", m[m.index('"') + 1:m.rindex('"')] if m.count('"') >= 2 else m]
    except UnicodeDecodeError:
        return ["error", "undecodable"]
    except (ValueError, RuntimeError) as e:
        m = str(e)
        named = m.split("\n")[0][len("In file "):] if m.startswith("In file ") else "?"
        return ["error", "refused", "/r/" + str(Path(named).relative_to(root)) if named.startswith(str(root)) else named]
    except Exception as e:  # noqa
        return ["error", "other:" + type(e).__name__, str(e)[:80]]


def include_stream(rep, drv, real, rng, quick):
    n = 120 if quick else 1500
    root = real.root / "incfs"
    cases = [gen_fs(rng) for _ in range(n)]
    reqs = []
    for top, inc_dirs, files in cases:
        r = ["c20.include", "64", "/r/" + top, ",".join("/r/" + d for d in inc_dirs)]
        for f, body in files.items():
            r += ["|", "/r/" + f, body[0]] + (list(body[1]) if len(body) > 1 else [])
        reqs.append(r)
    resp = drv.batch(reqs)
    bad = 0
    hist: dict[str, int] = {}
    nested = other_file = 0
    for (top, inc_dirs, files), r in zip(cases, resp):
        got = real_include(real, root, top, inc_dirs, files)
        want = list(r[1:]) if r[0] == "ok" else ["bad-request"]
        key = want[0] if want[0] == "items" else ":".join(want[:2])
        hist[key] = hist.get(key, 0) + 1
        if want[:2] == ["error", "undecodable"]:
            want = want[:2]                    # (the exception does not say which file)
        if want[:2] == ["error", "refused"] and want[2:] != ["/r/" + top]:
            other_file += 1
        if want[0] == "items" and want[1:] != list(files[top][1] if len(files[top]) > 1 else []):
            nested += 1
        if got != want:
            bad += 1
            rep.tie_broken(f"correspondence includes: list(FortranReader({top!r}, inc_dirs={inc_dirs})) gives {got[:8]}, the model (IncludeNest.readFile) {want[:8]}",
                           {"stream": "includes", "top": top, "inc_dirs": inc_dirs, "files": {k: list(v) for k, v in files.items()},
                            "impl": got, "model": want})
    return {"include_trees_compared": n, "include_disagreements": bad, "include_outcome_histogram": dict(sorted(hist.items())),
            "include_trees_whose_error_names_another_file_than_the_one_read": other_file,
            "include_trees_with_items_from_included_files": nested}


def run_stream(rep, drv, real, rng, quick, cases, baselines):
    cov = enum_stream(rep, drv, rng, quick)
    cov.update(include_stream(rep, drv, real, rng, quick))
    cov.update(later_stream(rep, drv, real, rng, quick, cases, baselines))
    return cov


if __name__ == "__main__":
    import sys

    worker_main(sys.argv[1])
