"""C14 - fixed-form sources document the same as their free-form equivalent.

Streams
  junk    : random fixed-form-looking and junk lines (both limit settings):
            `FortranLine` attributes and `list(convertToFree(lines, lim))` against the
            Lean `analyse` / `convertToFree` (exact comparison).
  layout  : generated token-sequence statements rendered as a fixed-form file (random
            continuation breaks and continuation characters, labels, comment-line
            styles, sequence field, blank/short lines, docs inline / own-line) and as the
            equivalent free-form file.
            (a) correspondence: converter output == model, reader-after-converter items ==
                model `readAll . convertToFree`;
            (b) property oracle on the real code: items(FortranReader(.f, fixed=True)) ==
                items(FortranReader(.f90)) == the token sequences (blanks outside literals
                squeezed, docs verbatim).
  entity  : generated modules/procedures rendered both ways, parsed by the real
            `FortranSourceFile`; oracle: equal entity trees (names, kinds, arguments,
            variables, types, calls, uses, doc lines).

  include : main file + include files, all random fixed-form layouts, as a fixed-form tree and as the
            equivalent free-form tree; correspondence: real reader == Lean `readFixedTree` (C02's include
            queue with the converter in front of every reader); oracle: items(fixed tree) ==
            items(free tree) == token sequences with each include statement replaced by its file's items.
  project : (a) form probe: stub files of every extension through the real `Project`; parsed? in which
            form? against the Lean `sourceForm`; (b) generated modules as the only file of a project with
            a fixed-form extension vs a free-form one; oracle: one source file each, equal entity trees.

Documentation marks are an input dimension (`MARK_SETS`): every case draws (docmark, predocmark,
docmark_alt, predocmark_alt); doc lines of all four kinds are written with a comment character in
column 1, an indented `!` in columns 2-5 or a `!` from column 7 on.  Exceptions of the code under
test are outcomes (correspondence disagreement / failing input), never a crash of the harness.

Variant.  The Lean model has three run-time flags (`Ford.Fixed.Variant`: blankShort,
col7Comment, spacedExcess) = the three edits of fixes/C14-comment-lines-and-overflow-mark.diff.
`probe_variant()` decides them by running the real `FortranLine` on three probe lines;
`translate/c14.py` derives them (and every other table) by probing too; both must agree.  A finding class
whose defect the probed variant no longer has is not a class any more: its layouts are then
generated in every case (also the `risky=False` ones) and a failure is a VIOLATION.
"""
from __future__ import annotations

import itertools
import json
import random
from pathlib import Path

from . import common
from .common import Driver, Report, lean_prove

PROP = "C14"
MARKS = ("!", ">", "*", "|")
# (docmark, predocmark, docmark_alt, predocmark_alt) of a case: mostly the usual four, sometimes a
# customised set (other characters, a two-character docmark, no alternative marks at all)
MARK_SETS = [MARKS, MARKS, MARKS, MARKS, MARKS, ("<", "^", "+", "~"), ("!<", ">", "*", "|"), ("!", ">", "", ""),
             ("~", "", "*", "")]

F_INLINE = "C14-comment-on-continued-line"
F_BETWEEN = "C14-col7-comment-or-blank-line-between-continuation"
F_SEQBANG = "C14-sequence-field-starting-with-bang"
F_DOC72 = "C14-doc-comment-text-beyond-col72-kept"


class Variant:
    """Which of the three edits of the candidate repair the code under test has."""

    def __init__(self, blank_short=False, col7_comment=False, spaced_excess=False):
        self.blank_short = bool(blank_short)
        self.col7_comment = bool(col7_comment)
        self.spaced_excess = bool(spaced_excess)

    @property
    def code(self) -> str:
        return "".join("1" if b else "0" for b in (self.blank_short, self.col7_comment, self.spaced_excess))

    def __eq__(self, other):
        return isinstance(other, Variant) and self.code == other.code

    def __repr__(self):
        return (f"Variant(blankShort={self.blank_short}, col7Comment={self.col7_comment}, "
                f"spacedExcess={self.spaced_excess})")


AS_IS = Variant()


def probe_variant() -> Variant:
    """Decide the variant by running the real `FortranLine` on three probe lines."""
    from ford.fixed2free2 import FortranLine

    blank = FortranLine(" " * 10 + "\n", True)
    bang7 = FortranLine(" " * 8 + "! note\n", True)
    seq = FortranLine("      x = 1".ljust(72) + "SEQ00010\n", True)
    return Variant(blank_short=not blank.is_regular,
                   col7_comment=not bang7.is_regular,
                   spaced_excess=seq.excess_line.startswith("! "))

# --------------------------------------------------------------------------
# token-level statements (same vocabulary as C02, no ';' / '&' / '!' outside literals)
# --------------------------------------------------------------------------
CODE = ["x", "=", "y1", "+", "call f", "(", ")", ",", "print *,", "1.0e0", "if (a) b", "end do",
        "//", "z%w", ":", "then", "foo_bar(i,j)", "**", ".and.", "do i = 1, n"]
LITBODY = ["a", " ", "!", ";", "&", "OTHER", "DOUBLED", "!!", "!>", "call g()", "", "  ", "b c", " &"]


def lit(q, pieces):
    other = '"' if q == "'" else "'"
    body = "".join(other if p == "OTHER" else q + q if p == "DOUBLED" else p for p in pieces)
    return ("lit", q + body + q)


def gen_stmt(rng, maxtok=6):
    n = rng.randint(1, maxtok)
    toks = []
    for _ in range(n):
        if rng.random() < 0.3:
            q = rng.choice("'\"")
            toks.append(lit(q, [rng.choice(LITBODY) for _ in range(rng.randint(0, 4))]))
        else:
            toks.append(("code", rng.choice(CODE)))
    if toks[0][0] == "lit":
        toks.insert(0, ("code", "x ="))
    return toks


COMMENT_TEXT = [" note", " it's", "note & more", ' "q', "", " a ! b", " x = 1", " end &"]
DOC_TEXT = [" doc", " it's a doc; with & and 'q", "d2", ' see "x', " doc &"]
SEQ_TEXT = ["00010", "ABC 123", "SEQ0001'", "X", "        7"]
CONT_CHARS = "&1+$*.xXcC!23456789-#>|\"'"

# column-structured comment lines: what stands in columns 2-5 (sentinel look-alikes, RCS keywords,
# label-like digits, a `!` from column 3 on), any character in column 6, and a rest that may look
# like a statement, a continuation line or go beyond column 72.  Column 2 is never a documentation
# mark (that would be a doc line, generated separately) and columns 2-5 are never exactly `$omp`
# (that is the OpenMP sentinel, generated separately).
COMMENT_F4 = ["$", "$$$", "$$$$", "$Rev", "$Id:", "$om", "$ om", " $om", "$0mp", "$omq", "$mp", "$OM", "$  p",
              "$&", "$ !", "$1", "    ", "  12", "x", "omp", " !$o", "#if", "$opm", "$OMQ"]
COMMENT_F4_ALPHABET = "$oOmMpP !0123x&#'"
COMMENT_REST = ["", " old,", "     old,", " x = 1", " call f(a,", "ision: 1.4 $", "$$$$$$ sep", " private(i)",
                " parallel do", " end &", " a ! b", " it's", ' "q']


def starts_with_mark(t: str, marks) -> bool:
    return any(m and t.startswith(m) for m in marks)


def gen_comment_rest(rng, marks=MARKS):
    """Text of a comment line from column 2 on (no newline) and the feature names it has."""
    feats = set()
    while True:
        f4 = rng.choice(COMMENT_F4) if rng.random() < 0.7 else "".join(
            rng.choice(COMMENT_F4_ALPHABET) for _ in range(4))
        f4 = f4.ljust(4)
        if f4[0] in MARKS or starts_with_mark(f4, marks) or f4.lower() == "$omp":
            continue
        break
    c6 = rng.choice(CONT_CHARS + "  0")
    rest = rng.choice(COMMENT_REST)
    t = f4 + c6 + rest
    if rng.random() < 0.12:
        t = t.ljust(rng.randint(60, 75)) + rng.choice(["tail", "!tail", "& more", "SEQ00010"])
        if len(t) + 1 > 72:
            feats.add("comment-line-beyond-col72")
    if f4[0] == "$":
        feats.add("comment-line-dollar-col2")
    if not (c6 == " " or c6 == "0"):
        feats.add("comment-line-col6-mark")
    if rng.random() < 0.3:
        t = t.rstrip()
    return t, feats


def squeeze(s: str) -> str:
    """Remove blanks outside character literals."""
    out = []
    q = None
    for c in s:
        if q is None:
            if c in "'\"":
                q = c
                out.append(c)
            elif c in " \t":
                continue
            else:
                out.append(c)
        else:
            out.append(c)
            if c == q:
                q = None
    return "".join(out)


class Layout:
    """Accumulates the two renderings and the decidable finding classes of one case.

    Documentation semantics that the expected item list follows (the reader's, the same for both
    forms): a line `!<docmark>t` is a doc item; `!<predocmark>t` / `!<predocmark_alt>t` are doc
    items that come out *after* the statement that follows them; after a `!<docmark_alt>t` line
    every whole-line comment is a doc item until a blank line, a statement line or another doc
    line (`docmode == "alt"`), after a `!<predocmark_alt>t` line likewise but blank lines do not
    end the block (`docmode == "prealt"`)."""

    def __init__(self, rng, lim, risky=True, var: Variant = AS_IS, marks=MARKS, pp_safe=False):
        self.pp_safe = pp_safe  # True: the file goes through the real preprocessor - directives it accepts only
        self.rng = rng
        self.lim = lim
        self.var = var      # variant of the code under test: decides which layouts are finding classes
        self.risky = risky  # False: stay outside every known finding class by construction
        self.marks = marks
        self.doc2 = "!" + marks[0]
        self.docmode = None
        self.fixed: list[str] = []
        self.free: list[str] = []
        self.expected: list[tuple[str, str]] = []
        self.feat: set[str] = set()
        self.classes: set[str] = set()

    # ---- bookkeeping of the documentation state
    def _doc(self, t, kind=0):
        """a doc line with mark number `kind` (0 doc, 1 predoc, 2 alt, 3 predoc_alt) and text t"""
        self.expected.append(("doc", self.doc2 + t))
        self.docmode = {2: "alt", 3: "prealt"}.get(kind)

    def _comment(self, t):
        """a whole-line comment `!t`"""
        if self.docmode:
            self.expected.append(("doc", self.doc2 + t))
            self.feat.add("comment-line-inside-" + self.docmode + "-block")

    def _blank(self):
        if self.docmode == "alt":
            self.docmode = None

    def comment_text(self):
        rng = self.rng
        while True:
            if rng.random() < 0.5:
                t, fs = rng.choice(COMMENT_TEXT), set()
            else:
                t, fs = gen_comment_rest(rng, self.marks)
            if not starts_with_mark(t, self.marks):
                return t, fs

    def doc_line(self, kind, style, between_cont=False):
        """One own-line documentation comment: mark number `kind`, written with a comment
        character in column 1 (`col1`), an indented `!` in columns 2-5 (`col2-5`) or a `!` in
        column 7 or later (`col7`)."""
        rng = self.rng
        mark = self.marks[kind]
        t = rng.choice(DOC_TEXT)
        name = ("doc", "predoc", "altdoc", "predocalt")[kind]
        if style == "col1":
            x = rng.choice("cC*!")
            self.fixed.append(x + mark + t)
            self.free.append("!" + mark + t)
            self.feat.add("doc-line-col1")
            self.feat.add(f"{name}-line-col1-" + {"c": "c", "C": "C", "*": "star", "!": "bang"}[x])
        else:
            ind = " " * (rng.randint(1, 4) if style == "col2-5" else rng.randint(6, 12))
            self.fixed.append(ind + "!" + mark + t)
            self.free.append(ind + "!" + mark + t)
            self.feat.add("doc-line-" + style)
            self.feat.add(f"{name}-line-{style}")
        if mark != "!":
            self.feat.add("doc-mark-not-bang")
        self._doc(t, kind)

    def doc_kinds(self, pre_ok):
        """mark numbers that may be used here (the preceding marks only where the caller knows
        where the doc goes: inside a continued statement, or directly before a statement)"""
        return [k for k in (0, 0, 1, 2, 2, 3) if self.marks[k] and (pre_ok or k in (0, 2))]

    def block_tail(self, kind):
        """the usual shape of an alternative-mark block: plain comment lines follow the first one"""
        rng = self.rng
        if kind in (2, 3) and rng.random() < 0.6:
            for _ in range(rng.randint(1, 2)):
                x = rng.choice("cC*!")
                t = rng.choice(["  more text", " more & more", "   it's", ""])
                self.fixed.append(x + t)
                self.free.append("!" + t)
                self._comment(t)

    # ---- filler lines (comment lines, blank lines, ...) between two physical lines
    def filler(self, between_cont: bool, allow_doc=True):
        rng = self.rng
        k = rng.choice([0, 0, 0, 1, 1, 2])
        for _ in range(k):
            r = rng.random()
            if r < 0.30:
                x = rng.choice("cC*!")
                t, fs = self.comment_text()
                self.feat |= fs
                if between_cont:
                    self.feat |= {f + "-between-continuation" for f in fs}
                self.fixed.append(x + t)
                self.free.append("!" + t)
                self._comment(t)
                self.feat.add("comment-line-" + {"c": "c", "C": "C", "*": "star", "!": "bang"}[x])
            elif r < 0.40:
                ind = " " * rng.randint(1, 4)
                t = rng.choice(COMMENT_TEXT)
                self.fixed.append(ind + "!" + t)
                self.free.append(ind + "!" + t)
                self._comment(t)
                self.feat.add("comment-line-bang-col2-5")
            elif r < 0.55:
                b = " " * rng.randint(0, 5)
                self.fixed.append(b)
                self.free.append("")
                self._blank()
                self.feat.add("short-blank-line")
            elif r < 0.70 and allow_doc:
                # documentation comment with a comment character in column 1 (or an indented `!` in
                # columns 2-5) and any of the configured marks behind it
                kind = rng.choice(self.doc_kinds(between_cont))
                self.doc_line(kind, "col1" if rng.random() < 0.8 else "col2-5", between_cont)
                self.block_tail(kind)
            elif r < 0.80 and allow_doc:
                # own-line doc / comment starting in the statement field (column 7+)
                held = self.var.col7_comment   # the code under test holds such a line back
                if between_cont and not held and (not self.risky or rng.random() < 0.6):
                    continue
                if rng.random() < 0.6:
                    kind = rng.choice(self.doc_kinds(between_cont))
                    self.doc_line(kind, "col7", between_cont)
                else:
                    ind = " " * rng.randint(6, 12)
                    t = rng.choice(COMMENT_TEXT)
                    self.fixed.append(ind + "!" + t)
                    self.free.append(ind + "!" + t)
                    self._comment(t)
                    self.feat.add("comment-line-col7")
                if between_cont:
                    self.feat.add("col7-line-between-continuation")
                    if not held:
                        self.classes.add(F_BETWEEN)
            elif r < 0.88:
                held = self.var.blank_short
                if between_cont and not held and (not self.risky or rng.random() < 0.6):
                    continue
                self.fixed.append(" " * rng.choice([6, 7, 8, 12, 20, 72, 73, 80]))
                self.free.append("")
                self._blank()
                self.feat.add("long-blank-line")
                if between_cont:
                    self.feat.add("long-blank-line-between-continuation")
                    if not held:
                        self.classes.add(F_BETWEEN)
            elif r < 0.93:
                # preprocessor line: held back by the converter, skipped by the reader (also inside a
                # continued statement); any column-6 character
                if self.pp_safe == "nocpp":
                    continue
                if self.pp_safe:
                    # directives that are complete on their own line and define nothing the statements use
                    t = rng.choice(["#define CPPA 1", "#undef CPPA", "#", "#  define CPPB(q) q", "#define CPPC"])
                else:
                    t = rng.choice(["#define A 1", "#ifdef X", "#endif", "#  if 1", "#", "#if 1 ! c", "#x   &", "#else"])
                self.fixed.append(t)
                self.free.append(t)
                self.feat.add("cpp-line")
                if between_cont:
                    self.feat.add("cpp-line-between-continuation")
            elif not between_cont and not self.docmode:
                # (inside an alternative-mark block the sentinel line would be a doc line whose text
                # is laid out differently by the converter - not taken a side on)
                x = rng.choice("cC*!")
                self.fixed.append(x + rng.choice(["$omp", "$OMP", "$Omp"]) + " parallel do")
                self.free.append("!$omp parallel do")
                self.feat.add("omp-line")
                if rng.random() < 0.5:
                    self.fixed.append(x + "$omp" + rng.choice("&+1") + " private(i)")
                    self.free.append("!$omp private(i)")
                    self.feat.add("omp-continuation")

    def predoc_block(self):
        """Preceding documentation directly in front of a statement: lines `!<predocmark>t`, or one
        line `!<predocmark_alt>t` followed by plain comment lines.  Returns the doc items (they are
        due after the statement)."""
        rng = self.rng
        kinds = [k for k in (1, 1, 3) if self.marks[k]]
        if not kinds:
            return []
        kind = rng.choice(kinds)
        n0 = len(self.expected)
        for _ in range(rng.randint(1, 3) if kind == 1 else 1):
            self.doc_line(kind, rng.choice(["col1", "col1", "col1", "col2-5", "col7"]))
        self.block_tail(kind)
        self.feat.add("predoc-block-before-statement")
        docs = [t for _, t in self.expected[n0:]]
        del self.expected[n0:]
        return docs

    def include_statement(self, name, subs):
        """`include 'name'` alone on its logical line; in the expected items the statement is
        replaced by the items of the named file (`subs[name]`, rendered in the same form)."""
        rng = self.rng
        kw = rng.choice(["include", "include", "INCLUDE", "Include"])
        q = rng.choice("'\"")
        n0 = len(self.expected)
        self.statement([("code", kw + " " + q + name + q)], None, predoc=rng.random() < 0.5)
        assert self.expected[n0][0] == "stmt"
        self.expected[n0:n0 + 1] = subs[name].expected
        self.feat.add("include")
        if "include" in subs[name].feat:
            self.feat.add("include-nested")

    # ---- one statement
    def statement(self, toks, label=None, fill_inside=True, predoc=True):
        rng, lim = self.rng, self.lim
        width = 66 if lim else rng.choice([66, 66, 40, 110])
        pbreak = rng.choice([0.0, 0.15, 0.4])
        pieces = []
        cur = rng.choice(["", " ", "   ", "      "])
        for ti, (kind, t) in enumerate(toks):
            gap = rng.choice(["", " ", "  "]) if ti > 0 else ""
            if ti > 0 and (len(cur) + len(gap) + len(t) > width or rng.random() < pbreak):
                pieces.append(cur)
                cur = rng.choice(["", " ", "   "]) + t
                self.feat.add("break")
                if toks[ti - 1][1] in ("(", ",") or t in (")", ","):
                    self.feat.add("break-in-arglist")
                else:
                    self.feat.add("break-in-expression")
            else:
                cur += gap + t
        pieces.append(cur)
        n = len(pieces)
        text = "".join(t if kind == "lit" else t.replace(" ", "") for kind, t in toks)
        lab = ""
        if label is not None:
            lab = str(label)
            self.feat.add("label")
        # preceding documentation directly in front of the statement comes out after it
        docs_after = self.predoc_block() if (predoc and rng.random() < 0.2) else []
        self.expected.append(("stmt", lab + text))
        for i, code in enumerate(pieces):
            last = i == n - 1
            self.docmode = None     # a statement line ends every alternative-mark block
            if i == 0:
                if lab:
                    pad = 5 - len(lab)
                    left = rng.randint(0, pad)
                    lab5 = " " * left + lab + " " * (pad - left)
                else:
                    lab5 = "     "
                c6 = rng.choice(" 0") if rng.random() < 0.3 else " "
                if c6 == "0":
                    self.feat.add("col6-zero")
            else:
                lab5 = "     "
                c6 = rng.choice(CONT_CHARS)
                self.feat.add("cont-char-" + ("amp" if c6 == "&" else "digit" if c6.isdigit() else "other"))
            line = lab5 + c6 + code
            # inline comment / doc
            inline = None
            p_inline = 0.35 if last else (0.15 if self.risky else 0.0)
            if rng.random() < p_inline and len(line) < 64:
                isdoc = rng.random() < 0.5
                t = (self.doc2 + rng.choice(DOC_TEXT)) if isdoc else ("!" + rng.choice(COMMENT_TEXT))
                if rng.random() < 0.08 and (self.risky or not isdoc or not lim):
                    t += " long" * 12
                gap = rng.choice(["", " ", "   "])
                inline = (len(line) + len(gap), isdoc)
                line += gap + t
                self.feat.add("inline-doc" if isdoc else "inline-comment")
                if not last:
                    self.classes.add(F_INLINE)
                    self.feat.add("inline-on-continued-line")
            # sequence field (columns 73+), only meaningful when the limit is on
            if (lim and len(line) <= 72 and rng.random() < 0.2
                    and (self.risky or inline is None or not inline[1])):
                plain = rng.random() < 0.85 if (self.risky or self.var.spaced_excess) else True
                seq = rng.choice(SEQ_TEXT) if plain else rng.choice(["!SEQ", "!! x", "!> y", "!", self.doc2 + " x"])
                line = line.ljust(72) + seq
                self.feat.add("sequence-field")
                if seq.startswith("!"):
                    self.feat.add("sequence-field-bang")
                    if inline is None and not self.var.spaced_excess:
                        self.classes.add(F_SEQBANG)
            if len(line) > 72:
                self.feat.add("beyond-col72-limit-" + ("on" if lim else "off"))
                if lim and inline is not None and inline[1]:
                    self.classes.add(F_DOC72)
            visible = line[:72] if lim else line
            body = visible[6:]
            if inline is not None:
                at = inline[0] - 6
                fcode, fcom = body[:at], body[at:]
            else:
                fcode, fcom = body, ""
            if inline is not None and inline[1]:
                docs_after.append(fcom.rstrip())
            free = (lab + " " if (lab and i == 0) else "") + fcode
            if not last:
                free = free.rstrip() + " &"
            free += (" " + fcom) if fcom else ""
            self.fixed.append(line)
            self.free.append(free)
            if not last and fill_inside:
                n0 = len(self.expected)
                self.filler(True)
                # docs met inside a statement are emitted after it
                docs_after += [t for _, t in self.expected[n0:]]
                del self.expected[n0:]
        for d in docs_after:
            self.expected.append(("doc", d))


def gen_layout_case(rng, lim, risky=True, var: Variant = AS_IS, marks=None):
    L = Layout(rng, lim, risky, var, marks or rng.choice(MARK_SETS))
    if rng.random() < 0.3:
        L.filler(False, allow_doc=False)
    nst = rng.randint(1, 4)
    for _ in range(nst):
        toks = gen_stmt(rng, rng.choice([3, 6, 6, 12, 25]))
        label = rng.choice([None, None, None, rng.randint(1, 99999), rng.randint(1, 99)])
        L.statement(toks, label)
        L.filler(False)
    return L


# --------------------------------------------------------------------------
# implementation side
# --------------------------------------------------------------------------

def impl_conv(lines, lim):
    from ford.fixed2free2 import convertToFree

    return list(convertToFree(iter(lines), lim))


def impl_conv_safe(lines, lim):
    """`["ok", line*]`, or `["exc", what]` when the converter raises"""
    try:
        return ["ok", *impl_conv(lines, lim)]
    except Exception as e:   # noqa: BLE001
        return ["exc", exc_name(e)]


def impl_read(path: Path, fixed: bool, lim: bool, marks=MARKS):
    """list(FortranReader(path)) with errors mapped to the model's enum."""
    from ford.reader import FortranReader

    try:
        with common.quiet():
            return ("ok", list(FortranReader(str(path), *marks, fixed=fixed, length_limit=lim)))
    except ValueError as e:
        msg = str(e)
        if "Preceding documentation lines" in msg:
            return ("err", ["predoc-inline"])
        if "Alternate documentation" in msg:
            return ("err", ["alt-inline"])
        if "Can not start a new line" in msg:
            return ("err", ["amp-start"])
        return ("err", ["ValueError:" + msg[:60]])
    except RuntimeError as e:
        if "Preceding alternate documentation" in str(e):
            return ("err", ["predoc-alt-inline"])
        return ("err", ["RuntimeError:" + str(e)[:60]])
    except Exception as e:
        return ("err", [type(e).__name__ + ":" + str(e)[:60]])


def canon_items(items):
    return [i.rstrip() if i.startswith("!") else squeeze(i) for i in items]


def layout_oracle(expected, it_fixed, it_free, marks=MARKS):
    """None when the .f rendering yields the same statements and docs as the .f90
    rendering, and both are the token sequences the case was generated from."""
    blank_doc = "!" + marks[0]
    if it_fixed[0] != "ok":
        return f"fixed-form reader raised {it_fixed[1]}"
    if it_free[0] != "ok":
        return f"free-form reader raised {it_free[1]} (harness defect?)"
    a, b = canon_items(it_fixed[1]), canon_items(it_free[1])
    if a != b:
        for k, (x, y) in enumerate(itertools.zip_longest(b, a)):
            if x != y:
                return f"item {k}: free-form {x!r} fixed-form {y!r}"
    exp = [squeeze(t) if kind == "stmt" else t.rstrip() for kind, t in expected]
    exp = [i for i in exp if i != blank_doc]
    got = [i for i in a if i != blank_doc]
    if got != exp:
        for k, (x, y) in enumerate(itertools.zip_longest(exp, got)):
            if x != y:
                return f"item {k}: expected {x!r} got {y!r}"
    return None


# --------------------------------------------------------------------------
# junk stream
# --------------------------------------------------------------------------
COL1 = "cC*!# 1d\tx$0D"
COL25 = " 0123!$oOmMpP x\t9"
COL6 = " 0&1+.$x\t!*c"
BODY = "ab =+'\"!&;(), \t"


def gen_junk_line(rng):
    r = rng.random()
    if r < 0.06:
        # blank-only line of any length (blanks / tabs), around the thresholds 6 and 72/73
        n = rng.choice([0, 1, 5, 6, 7, 8, 20, 71, 72, 73, 74, 80])
        s = "".join(rng.choice("    \t") if rng.random() < 0.1 else " " for _ in range(n))
    elif r < 0.14:
        # first non-blank character is a `!` (or not quite) somewhere around column 6/7
        s = " " * rng.choice([0, 1, 4, 5, 6, 7, 9, 30, 70, 71, 72, 75]) + rng.choice(["!", "!!", "!", "x!", "0!", "\t!"])
        s += "".join(rng.choice(BODY) for _ in range(rng.choice([0, 3, 10, 70])))
    elif r < 0.20:
        # comment-character line with a sentinel look-alike in columns 2-5
        s = rng.choice("cC*!") + rng.choice(COMMENT_F4 + ["$omp", "$OMP", "$oMp"]).ljust(rng.choice([0, 4]))
        s += rng.choice(COL6) + "".join(rng.choice(BODY) for _ in range(rng.choice([0, 2, 12, 70])))
    elif r < 0.40:
        n = rng.randint(0, 8)
        s = "".join(rng.choice(COL1 + COL25) for _ in range(n))
    else:
        s = rng.choice(COL1)
        if rng.random() < 0.15:
            s += rng.choice(["$omp", "$OMP", "$oMp", "$om"])
        else:
            s += "".join(rng.choice(COL25) for _ in range(4)) if rng.random() < 0.6 else "    "
        s += rng.choice(COL6)
        blen = rng.choice([0, 1, 2, 5, 12, 30, 60, 64, 65, 66, 67, 68, 70, 80])
        if rng.random() < 0.5:
            s += "".join(rng.choice(BODY) for _ in range(blen))
        else:
            w = "".join(rng.choice(BODY) for _ in range(min(blen, rng.randint(0, 12))))
            s += w.ljust(blen) if rng.random() < 0.7 else w
    if rng.random() < 0.93:
        s += "\n"
    return s


def exc_name(e: BaseException) -> str:
    return f"{type(e).__name__}: {str(e)[:80]}"


def junk_stream(drv, rng, n, rep, hist, var: Variant = AS_IS):
    """The model never fails; an exception of the implementation is an observed outcome
    (`["exc", ...]`), i.e. a disagreement with the model - never a crash of the harness."""
    from ford.fixed2free2 import FortranLine

    reqs, exp, kinds = [], [], []
    for _ in range(n):
        lim = rng.random() < 0.6
        if rng.random() < 0.4:
            line = gen_junk_line(rng)
            reqs.append(["c14.analyse", var.code, "1" if lim else "0", line])
            try:
                fl = FortranLine(line, lim)
                long_reg = bool(fl.isLong and fl.is_regular)
                exp.append(["ok", str(fl), "1" if fl.is_regular else "0", "1" if fl.isContinuation else "0",
                            "1" if long_reg else "0", fl.excess_line])
                k = ("comment" if fl.isComment else "newcomment" if fl.isNewComment else "cpp" if fl.isCppLine
                     else "omp" if fl.isOMP else "short" if fl.isShort else
                     ("cont" if fl.isContinuation else "init") + ("-long" if long_reg else ""))
            except Exception as e:   # noqa: BLE001 - whatever the code under test raises
                exp.append(["exc", exc_name(e)])
                k = "raised"
            hist["junk-line-" + k] = hist.get("junk-line-" + k, 0) + 1
        else:
            lines = [gen_junk_line(rng) for _ in range(rng.randint(0, 7))]
            reqs.append(["c14.conv", var.code, "1" if lim else "0", *lines])
            try:
                exp.append(["ok", *impl_conv(lines, lim)])
            except Exception as e:   # noqa: BLE001
                exp.append(["exc", exc_name(e)])
            hist["junk-file"] = hist.get("junk-file", 0) + 1
    got = drv.batch(reqs)
    bad = 0
    for r, e, g in zip(reqs, exp, got):
        if e != g:
            bad += 1
            rep.tie_broken(f"correspondence junk/{r[0]}: model {g} vs implementation {e} on {r[1:]!r}",
                           {"stream": "junk", "request": r, "impl": e, "model": g})
    return len(reqs), bad


# --------------------------------------------------------------------------
# entity stream: whole program units through FortranSourceFile
# --------------------------------------------------------------------------

def T(*toks):
    return [("code", t) for t in toks]


def gen_program(rng, k):
    """A list of (token list, label or None, doc or None) statements of one module file."""
    out = []
    names = [f"s{k}_{i}" for i in range(rng.randint(1, 3))]
    fn = f"f{k}"

    def st(toks, label=None):
        out.append((toks, label))

    st(T(f"module m{k}"))
    st(T("implicit none"))
    for v in range(rng.randint(0, 2)):
        ty = rng.choice(["integer", "real(8)", "character(len=10)", "logical"])
        toks = T(ty, ",", "parameter" if False else "save", "::", f"mv{v}")
        if ty.startswith("char") and rng.random() < 0.7:
            toks += T("=") + [("lit", rng.choice(["'a!b'", '"it''s &"', "'x ; y'"]))]
        st(toks)
    if rng.random() < 0.5:
        st(T(f"type t{k}"))
        st(T("integer", "::", "comp1", ",", "comp2"))
        st(T(f"end type t{k}"))
    st(T("contains"))
    for s in names:
        args = [f"a{i}" for i in range(rng.randint(0, 4))]
        head = T(f"subroutine {s}", "(")
        for i, a in enumerate(args):
            head += T(a) + (T(",") if i < len(args) - 1 else [])
        head += T(")")
        st(head)
        for a in args:
            st(T(rng.choice(["integer", "real"]), ",", rng.choice(["intent(in)", "intent(inout)"]), "::", a))
        st(T("integer", "::", "i", ",", "loc1"))
        for _ in range(rng.randint(0, 3)):
            r = rng.random()
            callee = rng.choice(names + [fn])
            if r < 0.4 and callee != fn:
                st(T(f"call {callee}", "(", "i", ",", "loc1", "+", "1", ")"), rng.choice([None, None, rng.randint(1, 999)]))
            elif r < 0.7:
                st(T("loc1", "=", f"{fn}", "(", "i", ")", "+", "loc1", "*", "2"), rng.choice([None, rng.randint(1, 99999)]))
            else:
                st(T("print *,") + [("lit", "'a ! b'")] + T(",", "loc1"))
        st(T("continue"), rng.choice([None, rng.randint(1, 99999)]))
        st(T(f"end subroutine {s}"))
    st(T(f"function {fn}", "(", "x", ")", "result", "(", "r", ")"))
    st(T("integer", ",", "intent(in)", "::", "x"))
    st(T("integer", "::", "r"))
    st(T("r", "=", "x", "+", "1"))
    st(T(f"end function {fn}"))
    st(T(f"end module m{k}"))
    return out


def render_program(rng, prog, lim, risky=True, var: Variant = AS_IS, marks=MARKS, pp_safe=False):
    L = Layout(rng, lim, risky, var, marks, pp_safe)
    for toks, label in prog:
        L.statement(toks, label)
        L.filler(False)
    return L


LISTS = ("modules", "submodules", "subroutines", "functions", "programs", "blockdata", "types",
         "interfaces", "absinterfaces", "variables", "boundprocs", "enums", "common", "namelists")


def entity_obs(e, depth=0):
    if depth > 8:
        return "..."
    o = {"class": type(e).__name__, "name": getattr(e, "name", None)}
    for a in ("doc_list", "permission", "vartype", "kind", "strlen", "proto", "attribs", "intent",
              "optional", "dimension", "initial", "parameter", "points", "retvar_name", "proctype", "line_number"):
        if a == "line_number":
            continue
        if hasattr(e, a):
            v = getattr(e, a)
            if isinstance(v, (str, int, bool, type(None))):
                o[a] = squeeze(v) if isinstance(v, str) and a != "doc_list" else v
            elif isinstance(v, (list, tuple)) and all(isinstance(x, str) for x in v):
                o[a] = [x.rstrip() for x in v] if a == "doc_list" else [squeeze(x) for x in v]
    if hasattr(e, "args"):
        o["args"] = [getattr(a, "name", str(a)) for a in e.args]
    if hasattr(e, "calls"):
        o["calls"] = [c if isinstance(c, str) else [str(x) for x in c] for c in e.calls]
    if hasattr(e, "uses"):
        try:
            o["uses"] = sorted(str(u[0]) for u in e.uses)
        except Exception:
            o["uses"] = str(e.uses)
    rv = getattr(e, "retvar", None)
    if rv is not None and not isinstance(rv, str):
        o["retvar"] = entity_obs(rv, depth + 1)
    for l in LISTS:
        v = getattr(e, l, None)
        if isinstance(v, list) and v:
            o[l] = [entity_obs(x, depth + 1) if hasattr(x, "name") else str(x) for x in v]
    return o


def make_settings(lim: bool, marks=MARKS, **kw):
    from ford.settings import ProjectSettings

    return ProjectSettings(fixed_length_limit=lim, docmark=marks[0], predocmark=marks[1], docmark_alt=marks[2],
                           predocmark_alt=marks[3], **kw)


def parse_file(path: Path, fixed: bool, lim: bool, marks=MARKS):
    import ford.sourceform as sf

    sf.namelist = sf.NameSelector()
    try:
        settings = make_settings(lim, marks)
        with common.quiet():
            f = sf.FortranSourceFile(str(path), settings, None, fixed, incl_src=False)
        o = entity_obs(f)
        o["name"] = "FILE"
        return ("ok", o)
    except Exception as e:
        return ("err", f"{type(e).__name__}: {str(e)[:100]}")


def entity_oracle(a, b):
    """None when the fixed-form parse `a` and the free-form parse `b` give the same entity tree"""
    if a[0] != "ok" or b[0] != "ok":
        return f"parse failed: fixed {a if a[0] != 'ok' else 'ok'} free {b if b[0] != 'ok' else 'ok'}"
    why = first_diff(b[1], a[1])
    return ("entity trees differ (free vs fixed) at " + why) if why else None


def first_diff(a, b, path=""):
    if type(a) is not type(b):
        return f"{path}: {a!r} vs {b!r}"
    if isinstance(a, dict):
        for k in sorted(set(a) | set(b)):
            if k not in a or k not in b:
                return f"{path}/{k}: {a.get(k)!r} vs {b.get(k)!r}"
            d = first_diff(a[k], b[k], f"{path}/{k}")
            if d:
                return d
        return None
    if isinstance(a, list):
        if len(a) != len(b):
            return f"{path}: lengths {len(a)} vs {len(b)}: {a!r} vs {b!r}"[:400]
        for i, (x, y) in enumerate(zip(a, b)):
            d = first_diff(x, y, f"{path}[{i}]")
            if d:
                return d
        return None
    return None if a == b else f"{path}: {a!r} vs {b!r}"


def classify(classes):
    """Finding class of a failing input (decided on the generated layout, not on the
    outcome); None when the layout is in no known class."""
    for c in (F_INLINE, F_BETWEEN, F_SEQBANG, F_DOC72):
        if c in classes:
            return c
    return None


# --------------------------------------------------------------------------
# include stream: a fixed-form file that pulls in other fixed-form files
# --------------------------------------------------------------------------
INC_NAMES = ["blk%d.inc", "decl%d.f", "c%d.h", "Part%d.INC", "p%d.for"]


def gen_include_case(rng, lim, k, var: Variant = AS_IS):
    """Main file + 1-3 include files, every one a random fixed-form layout of random statements
    (all outside the known finding classes); an include statement stands alone on its logical
    line; files only include files later in the list.  Returns (marks, [(name, Layout)], main Layout)."""
    marks = rng.choice(MARK_SETS)
    n = rng.randint(1, 3)
    names = [rng.choice(INC_NAMES) % (10 * k + j) for j in range(n)]
    subs: dict[str, Layout] = {}

    def body(L, later, must_include):
        nst = rng.randint(1, 3)
        slots = [False] * nst
        if later and (must_include or rng.random() < 0.35):
            slots[rng.randrange(nst)] = True
        for inc in slots:
            if inc:
                L.include_statement(rng.choice(later), subs)
            else:
                L.statement(gen_stmt(rng, rng.choice([3, 6, 12, 25])),
                            rng.choice([None, None, rng.randint(1, 99999)]))
            L.filler(False)

    for j in reversed(range(n)):
        L = Layout(rng, lim, False, var, marks)
        if rng.random() < 0.2:
            L.filler(False, allow_doc=False)
        body(L, names[j + 1:], False)
        subs[names[j]] = L
    main = Layout(rng, lim, False, var, marks)
    body(main, names, True)
    for nm in names:
        main.feat |= {"included:" + f for f in subs[nm].feat if f.startswith(("beyond-col72", "sequence-field", "break"))}
        main.classes |= subs[nm].classes
    if n > 1 and any("include-nested" in subs[nm].feat for nm in names):
        main.feat.add("include-nested")
    return marks, [(nm, subs[nm]) for nm in names], main


def eval_include_case(drv, d: Path, case: dict, var: Variant):
    """case: lim, marks, files [[name, fixed lines, free lines]], fixed / free (main file), expected.
    Returns (why or None, model-vs-implementation disagreement or None, observed)."""
    lim, marks = bool(case["lim"]), tuple(case["marks"])
    dx, dr = d / "incfx", d / "incfr"
    for dd in (dx, dr):
        if dd.exists():
            for f in dd.iterdir():
                f.unlink()
        dd.mkdir(exist_ok=True)
    for name, fx, fr in case["files"]:
        (dx / name).write_text("".join(l + "\n" for l in fx))
        (dr / name).write_text("".join(l + "\n" for l in fr))
    (dx / "main.f").write_text("".join(l + "\n" for l in case["fixed"]))
    (dr / "main.f90").write_text("".join(l + "\n" for l in case["free"]))
    it_fixed = impl_read(dx / "main.f", True, lim, marks)
    it_free = impl_read(dr / "main.f90", False, lim, marks)
    req = ["c14.readtree", var.code, *marks, "1", "1" if lim else "0", str(len(case["files"]))]
    for name, fx, _ in case["files"]:
        req += [name, str(len(fx)), *[l + "\n" for l in fx]]
    req += [l + "\n" for l in case["fixed"]]
    model = drv.batch([req])[0]
    tie = None
    if [it_fixed[0], *it_fixed[1]] != model:
        tie = {"stream": "include", "lim": lim, "marks": list(marks), "files": case["files"],
               "fixed": case["fixed"], "impl": it_fixed, "model": model}
    why = layout_oracle([tuple(x) for x in case["expected"]], it_fixed, it_free, marks)
    return why, tie, {"observed_fixed": it_fixed, "observed_free": it_free}


# --------------------------------------------------------------------------
# project stream: the form of a file is chosen by `Project` from its extension
# --------------------------------------------------------------------------
EXT_POOL = ["f", "for", "F", "FOR", "f77", "F77", "ftn", "fpp", "f90", "F90", "f95", "f03", "F03", "fh", "inc", "txt"]


def gen_extension_lists(rng):
    """(extensions, fixed_extensions, fpp_extensions) for `ProjectSettings`: None = the defaults;
    else random lists (fixed and free disjoint, as `__post_init__` demands; the preprocessed ones
    may overlap either, which puts them into the effective free-form list as well)."""
    if rng.random() < 0.5:
        return None
    pool = EXT_POOL[:]
    rng.shuffle(pool)
    nf = rng.randint(1, 4)
    fixed = pool[:nf]
    free = pool[nf:nf + rng.randint(1, 4)]
    fpp = rng.sample(pool[:nf + len(free) + 2], rng.randint(0, 3))
    return free, fixed, fpp


def project_settings(src: Path, lim: bool, marks, lists, preprocess=False):
    kw = {}
    if lists is not None:
        kw = dict(extensions=list(lists[0]), fixed_extensions=list(lists[1]), fpp_extensions=list(lists[2]))
    st = make_settings(lim, marks, src_dir=[src], **kw)
    if not preprocess:
        # as `ford.main` does for `preprocess: false`, *after* the settings object was built (the
        # effective `extensions` keep the preprocessed extensions): no external preprocessor
        st.preprocess = False
        st.fpp_extensions = []
    # else: the default - files with a preprocessed extension go through `settings.preprocessor` (pcpp, in-process)
    return st


def run_project(src: Path, lim: bool, marks, lists, preprocess=False):
    """[(file name, parsed in fixed form?, entity tree)] of `Project(settings)` over the directory"""
    import ford.sourceform as sf
    from ford.fortran_project import Project

    sf.namelist = sf.NameSelector()
    try:
        with common.quiet():
            pr = Project(project_settings(src, lim, marks, lists, preprocess))
        out = []
        for f in pr.files:
            o = entity_obs(f)
            o["name"] = "FILE"
            out.append((Path(f.path).name, bool(f.fixed), o))
        return ("ok", sorted(out, key=lambda x: x[0]))
    except Exception as e:   # noqa: BLE001
        return ("err", exc_name(e))


def effective_lists(lists):
    """the two lists `Project` looks at (after `ProjectSettings.__post_init__`)"""
    st = project_settings(Path("."), True, MARKS, lists)
    return list(st.extensions), list(st.fixed_extensions)


def clear_dir(dd: Path):
    if dd.exists():
        for f in dd.iterdir():
            f.unlink()
    dd.mkdir(exist_ok=True)


def form_probe(drv, d: Path, rng, rep, hist, n_sets):
    """Correspondence of the form selection: a directory with one comment-only stub file per
    extension goes through the real `Project`; which files were parsed and in which form
    (`FortranSourceFile.fixed`) against the model `sourceForm` on the same two lists."""
    n = bad = 0
    for i in range(n_sets):
        lists = None if i == 0 else gen_extension_lists(rng)
        exts, fixed_exts = effective_lists(lists)
        probe = sorted(set(EXT_POOL) | set(exts) | set(fixed_exts))
        dd = d / "probe"
        clear_dir(dd)
        for e in probe:
            (dd / f"stub_{e}.{e}").write_text("! nothing but a comment\n")
        res = run_project(dd, True, MARKS, lists)
        seen = {}
        if res[0] == "ok":
            seen = {name.rsplit(".", 1)[1]: ("fixed" if fx else "free") for name, fx, _ in res[1]}
        got = drv.batch([["c14.form", e, str(len(exts)), *exts, *fixed_exts] for e in probe])
        for e, g in zip(probe, got):
            n += 1
            impl = ["ok", seen.get(e, "none")] if res[0] == "ok" else ["exc", res[1]]
            hist["form-probe-" + (impl[1] if impl[0] == "ok" else "raised")] = hist.get(
                "form-probe-" + (impl[1] if impl[0] == "ok" else "raised"), 0) + 1
            if impl != g:
                bad += 1
                rep.tie_broken(f"correspondence project/form selection: extension {e!r} with extensions={exts} "
                               f"fixed_extensions={fixed_exts}: model {g} vs implementation {impl}",
                               {"stream": "form-probe", "extension": e, "extensions": exts,
                                "fixed_extensions": fixed_exts, "impl": impl, "model": g})
    return n, bad


def eval_project_case(d: Path, case: dict):
    """case: lim, marks, lists, ext / free_ext, fixed / free lines.  The same program unit as the only
    file of a project, once with a fixed-form extension, once with a free-form one."""
    lim, marks = bool(case["lim"]), tuple(case["marks"])
    lists = case.get("lists")
    dx, dr = d / "prjfx", d / "prjfr"
    clear_dir(dx)
    clear_dir(dr)
    (dx / f"unit.{case['ext']}").write_text("".join(l + "\n" for l in case["fixed"]))
    (dr / f"unit.{case['free_ext']}").write_text("".join(l + "\n" for l in case["free"]))
    pre = bool(case.get("preprocess", False))
    a, b = run_project(dx, lim, marks, lists, pre), run_project(dr, lim, marks, lists, pre)
    if b[0] != "ok" or len(b[1]) != 1 or b[1][0][1]:
        return f"free-form project not read as expected: {str(b)[:300]} (harness defect?)"
    if a[0] != "ok":
        return f"project with the fixed-form file unit.{case['ext']} failed: {a[1]}"
    if len(a[1]) != 1:
        return f"project with the fixed-form file unit.{case['ext']} has {len(a[1])} source files"
    why = first_diff(b[1][0][2], a[1][0][2])
    if why:
        return (f"entity trees differ (unit.{case['free_ext']} vs unit.{case['ext']}, the latter parsed "
                f"{'in fixed' if a[1][0][1] else 'in FREE'} form) at " + why)
    return None



# --------------------------------------------------------------------------
# config probe (round 6): with which (fixed, length_limit, preprocessor) the readers of a project's
# files and of their INCLUDEd files are constructed, and what that does to text beyond column 72
# --------------------------------------------------------------------------
CFG_INC_NAME = "cfgprobe.incl"    # an extension no extension list ever holds
CFG_SEQ = [",{}off", " ,{}off", ",  {}off"]


def gen_cfg_stub(rng, tag):
    """(main lines, include lines, statement-field variables, all variables): one declaration in the main
    file and one in the INCLUDEd file, each with a second variable in columns 73+.  Valid in both forms."""
    k = rng.randint(0, 3)
    seq_m, seq_i = rng.choice(CFG_SEQ).format("main"), rng.choice(CFG_SEQ).format("inc")
    main = [f"      subroutine stub{tag}", "      integer :: mainv".ljust(72) + seq_m]
    if k & 1:
        main.append("#define CFGPROBE 1")
    if k & 2:
        main.append("C a comment line".ljust(rng.choice([20, 72, 80])))
    main += [f"      include '{CFG_INC_NAME}'", f"      end subroutine stub{tag}"]
    inc = ["      integer :: incv".ljust(72) + seq_i]
    return main, inc


def cfg_expected_vars(fixed: bool, lim: bool):
    """from the property statement: in a fixed-form file - and in the files it INCLUDEs - text beyond
    column 72 is ignored when the limit is on and kept when it is off; a free-form file keeps it"""
    return ["mainv", "incv"] if (fixed and lim) else ["mainv", "mainoff", "incv", "incoff"]


def cfg_observed_vars(tree):
    subs = tree.get("subroutines") or []
    if len(subs) != 1:
        return f"{len(subs)} subroutines"
    return [v.get("name") for v in subs[0].get("variables", [])]


def eval_config_case(d: Path, case: dict):
    """case: lim, lists, preprocess, ext, main, inc.  One stub file as the only source file of a project."""
    dd = d / "cfg1"
    clear_dir(dd)
    (dd / CFG_INC_NAME).write_text("".join(l + "\n" for l in case["inc"]))
    (dd / f"stub.{case['ext']}").write_text("".join(l + "\n" for l in case["main"]))
    res = run_project(dd, bool(case["lim"]), MARKS, case.get("lists"), bool(case.get("preprocess")))
    if res[0] != "ok":
        return f"project failed: {res[1]}"
    if len(res[1]) != 1:
        return f"project has {len(res[1])} source files"
    _, fx, tree = res[1][0]
    want_fixed = bool(case["want_fixed"])
    if fx != want_fixed:
        return f"stub.{case['ext']} parsed in {'fixed' if fx else 'free'} form"
    got, exp = cfg_observed_vars(tree), cfg_expected_vars(want_fixed, bool(case["lim"]))
    if got != exp:
        return (f"stub.{case['ext']} (fixed-form extension: {want_fixed}, fixed_length_limit: {bool(case['lim'])}, "
                f"preprocessed: {bool(case.get('pp'))}) declares {got}, expected {exp}")
    return None


def config_probe(drv, d: Path, rng, rep, hist, n_sets, var):
    """One stub per extension through the real `Project` with the real preprocessor where the lists ask for
    it.  (a) correspondence: constructor arguments of every real `FortranReader` (main file and INCLUDEd file)
    vs the model `fileCfg` / `includeCfg`; the reader's items under that configuration vs `readProjectFile`;
    (b) oracle from the property statement: which variables each stub declares."""
    from translate.c14 import spy_readers
    from ford.reader import FortranReader

    n = bad = fails = 0
    for i in range(n_sets):
        lists = None if i < 4 else gen_extension_lists(rng)
        preprocess = (i % 2 == 0) if i < 4 else rng.random() < 0.7
        lim = (i // 2 % 2 == 0) if i < 4 else rng.random() < 0.5
        st = project_settings(Path("."), lim, MARKS, lists, True)
        exts, fixed_exts, fpp_exts = list(st.extensions), list(st.fixed_extensions), list(st.fpp_extensions)
        cmd = st.preprocessor.split()
        probe = sorted(set(EXT_POOL) | set(exts) | set(fixed_exts))
        dd = d / "cfgprobe"
        clear_dir(dd)
        main, inc = gen_cfg_stub(rng, i)
        (dd / CFG_INC_NAME).write_text("".join(l + "\n" for l in inc))
        for e in probe:
            (dd / f"stub_{e}.{e}").write_text("".join(l + "\n" for l in main))
        rec: list = []
        with spy_readers(rec):
            res = run_project(dd, lim, MARKS, lists, preprocess)
        seen, cur = {}, None
        for name, fx, lm, pp in rec:
            if name == CFG_INC_NAME:
                if cur is not None:
                    seen[cur].append((fx, lm, pp))
            else:
                cur = name.rsplit(".", 1)[1]
                seen[cur] = [(fx, lm, pp)]
        trees = {name.rsplit(".", 1)[1]: (fx, tree) for name, fx, tree in res[1]} if res[0] == "ok" else {}
        got = drv.batch([["c14.cfg", e, "1" if preprocess else "0", "1" if lim else "0", str(len(exts)), *exts,
                          str(len(fixed_exts)), *fixed_exts, *fpp_exts] for e in probe])
        reads, read_exp = [], []
        for e, g in zip(probe, got):
            n += 1
            if res[0] != "ok":
                impl = ["exc", res[1]]
            elif e not in seen:
                impl = ["ok", "none"]
            else:
                impl = ["ok", *["1" if b else "0" for c in seen[e] for b in c]]
            key = "config-" + ("raised" if impl[0] != "ok" else "none" if impl[1] == "none" else
                               ("fixed" if impl[1] == "1" else "free") + ("-limit-on" if impl[2] == "1" else "-limit-off")
                               + ("-preprocessed" if impl[3] == "1" else ""))
            hist[key] = hist.get(key, 0) + 1
            if impl != g:
                bad += 1
                rep.tie_broken(f"correspondence project/reader configuration: extension {e!r} (preprocess={preprocess}, "
                               f"fixed_length_limit={lim}, extensions={exts}, fixed_extensions={fixed_exts}, "
                               f"fpp_extensions={fpp_exts}): model {g} vs implementation {impl}",
                               {"stream": "config-probe", "extension": e, "impl": impl, "model": g})
            if impl[0] == "ok" and impl[1] != "none" and len(impl) == 7:
                # the reader's items under the recorded configuration, against `readProjectFile`
                fx, lm, pp = seen[e][0]
                try:
                    with common.quiet():
                        items = ["ok", *FortranReader(str(dd / f"stub_{e}.{e}"), *MARKS, fixed=fx, length_limit=lm,
                                                      preprocessor=cmd if pp else None)]
                except Exception as ex:   # noqa: BLE001
                    items = ["exc", exc_name(ex)]
                read_exp.append((e, items))
                reads.append(["c14.readprj", var.code, *MARKS, "1" if fx else "0", "1" if lm else "0", "1" if pp else "0",
                              "1", CFG_INC_NAME, str(len(inc)), *[l + "\n" for l in inc], *[l + "\n" for l in main]])
            # (b) the oracle
            want_fixed = e in fixed_exts
            if e in exts or want_fixed:
                case = {"stream": "config", "lim": lim, "lists": lists, "preprocess": preprocess, "ext": e,
                        "want_fixed": want_fixed, "pp": preprocess and e in fpp_exts, "main": main, "inc": inc,
                        "fixed": main}
                if res[0] != "ok":
                    why = f"project failed: {res[1]}"
                elif e not in trees:
                    why = f"stub_{e}.{e} was not parsed"
                elif trees[e][0] != want_fixed:
                    why = f"stub_{e}.{e} parsed in {'fixed' if trees[e][0] else 'free'} form"
                else:
                    o, x = cfg_observed_vars(trees[e][1]), cfg_expected_vars(want_fixed, lim)
                    why = None if o == x else (f"stub_{e}.{e} (fixed-form extension: {want_fixed}, fixed_length_limit: "
                                               f"{lim}, preprocessed: {case['pp']}) declares {o}, expected {x}")
                if why is not None:
                    fails += 1
                    rep.failing_input(dict(case, why=why, **{"class": None}), None)
        for (e, items), g in zip(read_exp, drv.batch(reads) if reads else []):
            n += 1
            if items != g:
                bad += 1
                rep.tie_broken(f"correspondence project/reader under the recorded configuration: stub_{e}.{e}: "
                               f"model {g} vs implementation {items}",
                               {"stream": "config-probe", "extension": e, "impl": items, "model": g,
                                "main": main, "inc": inc})
    return n, bad, fails

# --------------------------------------------------------------------------

def eval_layout_files(d: Path, case: dict, tag="r"):
    lim, marks = bool(case.get("lim", True)), tuple(case.get("marks", MARKS))
    pf, pq = d / f"{tag}.f", d / f"{tag}.f90"
    pf.write_text("".join(l + "\n" for l in case["fixed"]))
    pq.write_text("".join(l + "\n" for l in case["free"]))
    return impl_read(pf, True, lim, marks), impl_read(pq, False, lim, marks)


def eval_entity_case(d: Path, case: dict, tag="e"):
    lim, marks = bool(case.get("lim", True)), tuple(case.get("marks", MARKS))
    pf, pq = d / f"{tag}.f", d / f"{tag}.f90"
    pf.write_text("".join(l + "\n" for l in case["fixed"]))
    pq.write_text("".join(l + "\n" for l in case["free"]))
    return entity_oracle(parse_file(pf, True, lim, marks), parse_file(pq, False, lim, marks))


def replay_case(rep, drv, d, case, var):
    """Re-run one stored case through the oracle of its stream."""
    stream = case.get("stream", "layout")
    if stream == "entity":
        why = eval_entity_case(d, case)
    elif stream == "project":
        why = eval_project_case(d, case)
    elif stream == "config":
        why = eval_config_case(d, case)
    elif stream == "include":
        why, _, obs = eval_include_case(drv, d, case, var)
        print(f"replay: {obs}")
    else:
        marks = tuple(case.get("marks", MARKS))
        a, b = eval_layout_files(d, case)
        if case.get("expected"):
            why = layout_oracle([tuple(x) for x in case["expected"]], a, b, marks)
        else:
            why = None if (a[0] == b[0] == "ok" and canon_items(a[1]) == canon_items(b[1])) else "fixed and free items differ"
        print(f"replay: fixed items {a}\n        free items  {b}")
    print(f"replay [{stream}] oracle: {why or 'holds'}")
    return why


def run(tier: str, seed: int, replay: str | None = None) -> int:
    rep = Report(PROP, tier, seed)
    from translate import c14 as tr

    lean = lean_prove(PROP, translate=tr.translate, thorough=(tier == "thorough"))
    for b in lean.broken():
        rep.tie_broken("proof: " + b)
    common.import_ford()
    # which variant of the converter is under test: probed on the real code, and read from the source
    try:
        var = probe_variant()
    except Exception as e:   # noqa: BLE001
        rep.tie_broken(f"variant: the real FortranLine raised on a probe line ({exc_name(e)}); assuming the code as it is")
        var = AS_IS
    try:
        t = tr.extract(common.REPO)
        static = Variant(t["blankShort"], t["col7Comment"], t["excessLiteral"] == "! ")
        if static != var:
            rep.tie_broken(f"variant: the source reads as {static} but the real FortranLine behaves as {var}")
    except Exception:
        pass  # already reported by lean_prove as a translator failure
    rng = random.Random(seed * 7919 + 14)
    drv = Driver()
    quick = tier == "quick"
    n_junk = 12000 if quick else 120000
    n_layout = 6000 if quick else 60000
    n_entity = 200 if quick else 2000
    n_include = 400 if quick else 4000
    n_project = 60 if quick else 600
    n_formsets = 6 if quick else 40
    n_cfgsets = 12 if quick else 80

    hist: dict[str, int] = {}
    samples = []
    distinct = set()
    n_bad_corr = 0
    n_oracle_fail = 0

    with common.scratch_dir() as d:
        if replay:
            obj = json.loads(Path(replay).read_text())
            for case in obj.get("cases", []):
                if "fixed" in case:
                    why = replay_case(rep, drv, d, case, var)
                    if why:
                        rep.failing_input(dict(case, why=why), case.get("class"))
            rep.coverage.update(evaluations=len(obj.get("cases", [])), distinct_nontrivial=0,
                                rule="replay", samples=[], traces_validated_against_impl=0)
            return rep.finish(lean)

        ev_junk, bad_junk = junk_stream(drv, rng, n_junk, rep, hist, var)
        n_bad_corr += bad_junk

        # ---------------- layout stream
        cases = []
        for k in range(n_layout):
            lim = rng.random() < 0.65
            cases.append(gen_layout_case(rng, lim, risky=(k % 4 == 0), var=var))
        nl = [[l + "\n" for l in L.fixed] for L in cases]
        m_conv = drv.batch([["c14.conv", var.code, "1" if L.lim else "0", *ls] for L, ls in zip(cases, nl)])
        m_read = drv.batch([["c14.read", var.code, *L.marks, "1" if L.lim else "0", *ls] for L, ls in zip(cases, nl)])
        for k, (L, ls, mc, mr) in enumerate(zip(cases, nl, m_conv, m_read)):
            for f in L.feat:
                hist[f] = hist.get(f, 0) + 1
            hist["limit-on" if L.lim else "limit-off"] = hist.get("limit-on" if L.lim else "limit-off", 0) + 1
            hist["marks:" + " ".join(m or "-" for m in L.marks)] = hist.get("marks:" + " ".join(m or "-" for m in L.marks), 0) + 1
            for c in L.classes:
                hist["class:" + c] = hist.get("class:" + c, 0) + 1
            if L.feat & {"break", "label", "sequence-field", "inline-doc", "doc-line-col1"}:
                distinct.add(common.digest([L.lim, L.fixed]))
            ic = impl_conv_safe(ls, L.lim)
            if ic != mc:
                n_bad_corr += 1
                rep.tie_broken(f"correspondence layout/convertToFree: model and implementation differ on case {k}",
                               {"stream": "layout", "lim": L.lim, "fixed": L.fixed, "impl": ic, "model": mc})
            case = {"stream": "layout", "lim": L.lim, "marks": list(L.marks), "fixed": L.fixed, "free": L.free,
                    "expected": L.expected}
            it_fixed, it_free = eval_layout_files(d, case, f"c{k % 32}")
            if [it_fixed[0], *it_fixed[1]] != mr:
                n_bad_corr += 1
                rep.tie_broken(f"correspondence layout/reader-after-converter: model and implementation differ on case {k}",
                               {"stream": "layout", "lim": L.lim, "marks": list(L.marks), "fixed": L.fixed,
                                "impl": it_fixed, "model": mr})
            if len(samples) < 3 and {"break", "label", "sequence-field"} <= L.feat and not L.classes:
                samples.append({"lim": L.lim, "fixed": L.fixed, "free": L.free, "items": it_fixed[1]})
            why = layout_oracle(L.expected, it_fixed, it_free, L.marks)
            if why is not None:
                n_oracle_fail += 1
                cls = classify(L.classes)
                rep.failing_input(dict(case, observed_fixed=it_fixed, observed_free=it_free, why=why,
                                       features=sorted(L.feat), **{"class": cls}), cls)

        # ---------------- include stream
        n_inc_eval = 0
        for k in range(n_include):
            lim = rng.random() < 0.5
            marks, files, main = gen_include_case(rng, lim, k, var)
            case = {"stream": "include", "lim": lim, "marks": list(marks),
                    "files": [[nm, L.fixed, L.free] for nm, L in files],
                    "fixed": main.fixed, "free": main.free, "expected": main.expected}
            why, tie, obs = eval_include_case(drv, d, case, var)
            n_inc_eval += 1
            hist["include-case"] = hist.get("include-case", 0) + 1
            for f in main.feat:
                if f.startswith(("include", "included:")):
                    hist[f] = hist.get(f, 0) + 1
            hist["include-limit-" + ("on" if lim else "off")] = hist.get("include-limit-" + ("on" if lim else "off"), 0) + 1
            distinct.add(common.digest([lim, case["files"], main.fixed]))
            if tie is not None:
                n_bad_corr += 1
                rep.tie_broken(f"correspondence include/reader over an include tree: model and implementation differ on case {k}", tie)
            if why is not None:
                n_oracle_fail += 1
                cls = classify(main.classes)
                rep.failing_input(dict(case, why=why, features=sorted(main.feat), **obs, **{"class": cls}), cls)

        # ---------------- entity stream
        n_ent_eval = 0
        for k in range(n_entity):
            lim = rng.random() < 0.65
            prog = gen_program(rng, k)
            L = render_program(rng, prog, lim, risky=(k % 4 == 0), var=var, marks=rng.choice(MARK_SETS))
            case = {"stream": "entity", "lim": lim, "marks": list(L.marks), "fixed": L.fixed, "free": L.free}
            why = eval_entity_case(d, case, f"e{k % 8}")
            n_ent_eval += 1
            hist["entity-file"] = hist.get("entity-file", 0) + 1
            for c in L.classes:
                hist["entity-class:" + c] = hist.get("entity-class:" + c, 0) + 1
            if not L.classes:
                distinct.add(common.digest([lim, L.fixed]))
            if why is not None:
                n_oracle_fail += 1
                cls = classify(L.classes)
                rep.failing_input(dict(case, why=why[:600], features=sorted(L.feat), **{"class": cls}), cls)

        # ---------------- project stream
        ev_form, bad_form = form_probe(drv, d, rng, rep, hist, n_formsets)
        n_bad_corr += bad_form
        ev_cfg, bad_cfg, fail_cfg = config_probe(drv, d, rng, rep, hist, n_cfgsets, var)
        n_bad_corr += bad_cfg
        n_oracle_fail += fail_cfg
        ev_form += ev_cfg
        n_prj_eval = 0
        for k in range(n_project):
            lim = rng.random() < 0.65
            lists = None if k < 16 else gen_extension_lists(rng)
            exts, fixed_exts = effective_lists(lists)
            free_only = sorted(e for e in exts if e not in fixed_exts)
            # every fixed-form extension of the default lists comes first (each with and without the
            # preprocessor, limit on), then random ones
            ext = sorted(fixed_exts)[(k // 2) % len(fixed_exts)] if k < 16 else rng.choice(sorted(fixed_exts))
            # with the preprocessor (the default of a project: `.F`, `.FOR` go through pcpp) or without
            pre = (k % 2 == 0) if k < 16 else rng.random() < 0.6
            if k < 16:
                lim = k < 8
            fpp_now = list(project_settings(Path("."), lim, MARKS, lists, pre).fpp_extensions)
            # the free-form twin is preprocessed iff the fixed-form file is (the preprocessor turns a
            # directive line into an empty line, which the reader - in either form - makes an empty
            # documentation line behind a doc comment; a unit.F is the equivalent of a unit.F90, not of a
            # unit.f90); where the lists have no such free-form extension no directive lines are written
            twins = [e for e in free_only if (e in fpp_now) == (ext in fpp_now)]
            free_ext = rng.choice(twins or free_only)
            pp_mode = ("nocpp" if not twins else True) if pre else False
            prog = gen_program(rng, 5000 + k)
            L = render_program(rng, prog, lim, risky=False, var=var, marks=rng.choice(MARK_SETS), pp_safe=pp_mode)
            case = {"stream": "project", "lim": lim, "marks": list(L.marks), "lists": lists, "ext": ext,
                    "free_ext": free_ext, "preprocess": pre, "fixed": L.fixed, "free": L.free}
            hist["project-file-" + ("preprocessed" if ext in fpp_now else "not-preprocessed") + "-limit-"
                 + ("on" if lim else "off")] = hist.get(
                "project-file-" + ("preprocessed" if ext in fpp_now else "not-preprocessed") + "-limit-"
                + ("on" if lim else "off"), 0) + 1
            if "sequence-field" in L.feat and ext in fpp_now:
                hist["project-file-preprocessed-with-sequence-field"] = hist.get(
                    "project-file-preprocessed-with-sequence-field", 0) + 1
            why = eval_project_case(d, case)
            n_prj_eval += 1
            hist["project-file"] = hist.get("project-file", 0) + 1
            hist["project-ext-" + ("also-free-listed" if ext in exts else "fixed-only")] = hist.get(
                "project-ext-" + ("also-free-listed" if ext in exts else "fixed-only"), 0) + 1
            distinct.add(common.digest([lim, ext, L.fixed]))
            if why is not None:
                n_oracle_fail += 1
                cls = classify(L.classes)
                rep.failing_input(dict(case, why=why[:600], effective_extensions=exts, fixed_extensions=fixed_exts,
                                       **{"class": cls}), cls)
    drv.close()
    rep.coverage.update(
        evaluations=ev_junk + 3 * len(cases) + 2 * n_inc_eval + n_ent_eval + ev_form + n_prj_eval,
        distinct_nontrivial=len(distinct),
        rule="layout/entity/include/project cases are (token-sequence statements x random fixed-form layout x limit "
             "setting x set of documentation marks); non-trivial = has a continuation break, a label, a sequence field "
             "or a doc comment (include and project cases always); distinct by digest of (limit, fixed-form lines)",
        samples=samples,
        traces_validated_against_impl=ev_junk + 2 * len(cases) + n_inc_eval + ev_form,
        correspondence_disagreements=n_bad_corr,
        oracle_failures=n_oracle_fail,
        layout_feature_histogram=dict(sorted(hist.items())),
        variant_under_test={"blankShort": var.blank_short, "col7Comment": var.col7_comment,
                            "spacedExcess": var.spaced_excess,
                            "meaning": "000 = the code as it is; 111 = with fixes/C14-comment-lines-and-overflow-mark.diff"},
    )
    rep.assumptions += [
        "continuation breaks are placed between tokens; fixed-form 'blanks are insignificant inside tokens' and "
        "character literals continued across fixed-form lines are outside the generated class (see notes/C14.md)",
        "tab-format source, non-ASCII text and the external preprocessor are not modelled (project cases run with "
        "fpp_extensions emptied after the settings were built, as ford.main does for preprocess: false)",
        "include files are looked up in the directory of the including file only (flat file system in the model)",
        "the free-form reader model (Reader.lean) and the include queue (Include.lean) are the ones validated by C02; "
        "here they are composed with the converter model",
    ]
    return rep.finish(lean)
