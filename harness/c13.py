"""C13 - every graph shows exactly the relation it is documented to show.

Streams
  proj    : generated Fortran projects (modules / submodules / types / procedures /
            programs / files forming chains, diamonds, cycles, disconnected parts)
            x graph_maxdepth / graph_maxnodes x show_proc_parent x proc_internals
            x per-entity `graph:` / `graph_maxdepth:` / `graph_maxnodes:` metadata.
            The real code builds them in-process (Project + correlate + GraphManager,
            exactly the calls of ford.output.Documentation.__init__).
            (a) correspondence: the entity table read from FORD's objects is given to
                the Lean model (`c13.all`), which must reproduce every graph object:
                DOT node set, DOT edge multiset with style, `added`, `truncated`,
                `hop_nodes`, `hop_edges`, and the forward / inverse adjacency sets of
                every node object;
            (b) property oracle: computed from the *generator's* abstract project
                (never from the model): expected relation, reach within the limits,
                no dangling edge, "by" graphs are inverses, `graph: false`.
  micro   : random entity tables -> `get_call_nodes` on stub objects vs the model; every table is asked a
            *sequence* of call lists (as the node constructors do, once per procedure) and the first one
            again at the end: the answer must not depend on what was asked before.

Translated table (translate/c13.py -> lean/FordModel/Generated/C13.lean): the guards of the
interface-to-implementation links of `ProcNode.__init__` as a decision table over the Python
classes of ford.sourceform, read off the working tree by running the real constructor on stubs.
The entity table hands the two slots (`modprocs`, `procedure.module`) to the model *unfiltered*
together with the class row of every entity; the model applies the table.

Generated interface forms: generic interfaces whose specific procedures are module procedures
(public / private, subroutines / functions), separate module procedures and external procedures
declared by interface bodies, in the three spellings of the procedure statement; separate module
procedures implemented in a submodule, in the module itself or not at all, as `module subroutine`
/ `module function` or as `module procedure name`; calls through all of these interfaces.

Generated hidden procedures (round 3): private module procedures are called from their module, its `module`
implementations and its submodules; clusters of private helpers that call each other (chains, diamonds, self and
mutual recursion) and the visible procedures; bindings to private procedures (`procedure :: b => h`).  With the
default `display` none of them has a node: every caller must show what is reached through them (the oracle
computes that by definition, per call), a binding to a hidden procedure is a node of its own.

Round 4 - the rest of the program units and of what a graph object is used for:
  * generated (independent stream, the earlier projects stay what they were): BLOCK DATA units with USE
    statements (also as the only user of a module), procedures that are program units of their own (file
    level; USE, calls, called by bare name), internal procedures of module / file-level procedures (shown only
    with `proc_internals`: then roots of the project-wide call graph without graphs of their own, else one more
    kind of procedure that is not shown), files made of such units only;
  * the project lists that are registered are read from ford/output.py (translator), not written here;
  * observed in addition: what `FortranGraph.__str__` puts on the page (nothing / picture / the table fall-back
    with its rows), the labels of the composition edges, and the `.gv` files `GraphManager.output_graphs`
    writes into `graph_dir` (graphviz's `render` replaced by writing the DOT source);
  * oracle in addition: a graph is shown as a table exactly when its first hop does not fit, and the rows are
    the entities one step away with the style of their edge; composition edges are labelled with the component
    names; a graph file carries the name <dir>~~<ident>~~<class>.gv of a graph of a documented entity and the
    same nodes and edges as that graph; procedures that are not shown are neither callers nor users;
  * second and third generated table: `ctorLinks` / `ctorClasses` (every node constructor run on stubs: which
    slots it reads, both directions stored) and `projectLists` (which lists are registered).

Round 6 - what is written on the edges and nodes, and the root's cell of the table:
  * correspondence in addition: `comp_types` / `comp_of` of every type node (dict order, label text) and the labels
    of the dashed edges in the DOT source against `compLoop` / `compOfLoop` / `edgeLabel` (driver `c13.complabels`);
    the label of every procedure node (node object and DOT source) against `procLabel` (driver `c13.proclabel`,
    input: what `ProcNode.__init__` reads - `self.name`, the names of the scope and of the binding type); the
    `(rowspan of the root's cell, number of <tr>)` of every graph shown as a table against `rootSpan` / `tableTrs`
    (two more fields of `c13.all`, variant flag `+r` decided on the witness of C13-table-rootspan);
  * two micro streams on stubs with the real constructors and graph classes: `micro_labels` (types with repeated,
    self-referential, name-only, polymorphic components; the real "inherits" / "inherited by" graphs over them),
    `micro_proclabels` (procedures and type-bound procedures with / without scope, type, naming binding);
  * oracle in addition: node labels (name; scope shown exactly with `show_proc_parent`, and the declared one); the
    root's cell of a table spans all its rows.
"""
from __future__ import annotations

import itertools
import random
import re
from pathlib import Path

from . import common
from .common import Driver, Report, lean_prove

PROP = "C13"


def translate():
    """regenerate lean/FordModel/Generated/C13.lean (decision table of the interface links)"""
    from translate import c13 as T
    T.generate()

# --------------------------------------------------------------------------
# running the real code
# --------------------------------------------------------------------------

_REG_LISTS: list[str] = []


def reg_lists() -> list[str]:
    """the project lists `Documentation.__init__` registers with the graph manager, in its order - read from
    ford/output.py by the translator (types, procedures, submodprocedures, modules, submodules, programs,
    files, blockdata in the unchanged tree)"""
    if not _REG_LISTS:
        from translate import c13 as T
        _REG_LISTS.extend(T.registration_lists())
    return _REG_LISTS

PER_ENTITY = {  # attribute on the Fortran object -> class name used by the model
    "usesgraph": "uses", "usedbygraph": "usedby", "inhergraph": "inherits",
    "inherbygraph": "inheritedby", "callsgraph": "calls", "calledbygraph": "calledby",
    "afferentgraph": "afferent", "efferentgraph": "efferent",
}
PROJECT_WIDE = {"usegraph": "module", "typegraph": "type", "callgraph": "call", "filegraph": "file"}


def build(ford, root: Path, files: dict, opts: dict):
    """Write the sources, then do what Documentation.__init__ does for graphs."""
    import ford.sourceform as sf
    import ford.graphs as G
    from ford.fortran_project import Project
    from ford.settings import ProjectSettings
    from ford._markdown import MetaMarkdown

    src = root / "src"
    for rel, text in files.items():
        p = src / rel
        p.parent.mkdir(parents=True, exist_ok=True)
        p.write_text(text)
    sf.namelist = sf.NameSelector()
    settings = ProjectSettings(src_dir=src, graph=True, preprocess=False, dbg=False, **opts)
    project = Project(settings)
    md = MetaMarkdown(project=project)
    project.markdown(md)
    project.correlate()
    gm = G.GraphManager("", "../", settings.coloured_edges, settings.show_proc_parent)
    order = []
    for name in reg_lists():
        for item in getattr(project, name):
            order.append(item)
            gm.register(item)
    gm.graph_all()
    return project, gm, order


def save_graphs(gm, graphdir: Path) -> dict:
    """`GraphManager.output_graphs` as `graph_dir` makes FORD run it (serially), with graphviz's rendering
    replaced by writing the DOT source only (`dot` itself is third-party and not part of the observation).
    -> file name -> (node names, edges) of every `.gv` file written; other files by name only."""
    import graphviz
    import shutil

    shutil.rmtree(graphdir, ignore_errors=True)
    real_render = graphviz.Digraph.render

    def render(self, filename=None, *a, **k):
        Path(filename).write_text(self.source)
        return str(filename)
    old = gm.save_graphs, gm.graphdir
    graphviz.Digraph.render = render
    try:
        gm.save_graphs, gm.graphdir = True, Path(graphdir)
        gm.output_graphs(0)
    finally:
        graphviz.Digraph.render = real_render
        gm.save_graphs, gm.graphdir = old
    out = {}
    for f in sorted(Path(graphdir).iterdir()) if Path(graphdir).exists() else []:
        if f.suffix == ".gv":
            nodes, edges = parse_dot(f.read_text())
            out[f.name] = (sorted(set(nodes)), sorted((t, h, st[0]) for t, h, st, _ in edges))
        else:
            out[f.name] = None
    return out


# --------------------------------------------------------------------------
# abstraction: entity table read from FORD's objects
# --------------------------------------------------------------------------


class Table:
    """One row per node ident; rows hold exactly what the node constructors read."""

    def __init__(self, ford):
        import ford.graphs as G
        import ford.sourceform as sf

        self.G, self.sf = G, sf
        self.ids: dict[str, int] = {}
        self.objs: list = []
        self.rows: list[dict] = []
        from translate import c13 as T
        self.class_names = T.class_names(ford)
        self.class_index = lambda o: T.class_index(self.class_names, o)
        # node class of every Python class, as the translator's constructor probe found it (kind code of
        # the generated table `ctorClasses`); an entity whose `is_*` kind differs is reported
        if Table._kind_of_class is None:
            Table._kind_of_class = T.kind_of_class(ford)
        self.kind_mismatch: list[str] = []
        self.EXT = (sf.ExternalModule, sf.ExternalSubmodule, sf.ExternalType, sf.ExternalBoundProcedure,
                    sf.ExternalSubroutine, sf.ExternalFunction, sf.ExternalInterface, sf.ExternalProgram,
                    sf.ExternalSourceFile)

    _kind_of_class = None
    KIND_CODE = {"m": 0, "s": 1, "t": 2, "p": 3, "g": 4, "f": 5, "b": 6}

    def ident(self, obj) -> str:
        if obj is None or obj is True or obj is False:
            return f"<{obj}>"      # placeholder of an unmatched specific procedure / implementation
        if isinstance(obj, self.EXT):
            obj = str(obj)
        if isinstance(obj, str):
            m = self.G.HYPERLINK_RE.match(obj)
            return m.group(2) if m else obj
        return f"{obj.get_dir() or 'none'}~{obj.ident}"

    def eid(self, obj) -> int:
        k = self.ident(obj)
        if k not in self.ids:
            self.ids[k] = len(self.objs)
            self.objs.append(obj)
        return self.ids[k]

    def kind(self, obj) -> str:
        G = self.G
        if obj is None or obj is True or obj is False or isinstance(obj, str) or isinstance(obj, self.EXT):
            return "x"
        for test, k in ((G.is_submodule, "s"), (G.is_module, "m"), (G.is_type, "t"), (G.is_proc, "p"),
                        (G.is_program, "g"), (G.is_sourcefile, "f"), (G.is_blockdata, "b")):
            if test(obj):
                return k
        return "?"

    def describe(self, obj) -> dict:
        sf = self.sf
        k = self.kind(obj)
        r = dict(kind=k, ptype="o", visible=True, visibleF=False, isBound=False, deferred=False, extUrl=False,
                 graph=True, uses=[], anc=None, comps=[], calls=[], bindings=[], modprocs=[], impl=None,
                 deps=[], boundprocs=[], internals=[], maxDepth=0, maxNodes=1, name=self.ident(obj),
                 cls=self.class_index(obj), compnames=[])
        if k == "x":
            return r
        if Table._kind_of_class.get(r["cls"]) != self.KIND_CODE.get(k):
            self.kind_mismatch.append(f"{r['name']}: an object of class {type(obj).__name__} is a node of kind {k!r}, "
                                      f"the constructor table says kind code {Table._kind_of_class.get(r['cls'])}")
        r["visible"] = bool(getattr(obj, "visible", True))
        r["visibleF"] = bool(getattr(obj, "visible", False))
        r["isBound"] = isinstance(obj, sf.FortranBoundProcedure)
        r["deferred"] = bool(getattr(obj, "deferred", False))
        r["extUrl"] = hasattr(obj, "external_url")
        if hasattr(obj, "meta"):
            r["graph"] = bool(obj.meta.graph)
            r["maxDepth"] = int(obj.meta.graph_maxdepth)
            r["maxNodes"] = int(obj.meta.graph_maxnodes)
        pt = getattr(obj, "proctype", "").lower()
        if pt == "" and r["isBound"]:
            pt = "boundproc"
        r["ptype"] = {"boundproc": "b", "interface": "i"}.get(pt, "o")
        if k in "msgb":
            r["uses"] = [self.eid(u) for u in obj.uses]
        elif k == "p":
            r["uses"] = [self.eid(u) for u in getattr(obj, "uses", [])]
        if k == "s":
            r["anc"] = self.eid(obj.parent_submodule if obj.parent_submodule else obj.ancestor_module)
        if k == "t" and not r["extUrl"]:
            if obj.extends:
                r["anc"] = self.eid(obj.extends)
            for var in obj.local_variables:
                if var.vartype not in ["type", "class"]:
                    continue
                proto = var.proto[0]
                if proto == "*":
                    continue
                r["comps"].append(self.eid(proto))
                r["compnames"].append(var.name)
            r["boundprocs"] = [self.eid(b) for b in getattr(obj, "boundprocs", [])]
        if k == "t" and r["extUrl"]:
            r["boundprocs"] = [self.eid(b) for b in getattr(obj, "boundprocs", [])]
        r["calls"] = [self.eid(c) for c in getattr(obj, "calls", [])]
        r["bindings"] = [self.eid(c) for c in getattr(obj, "bindings", [])]
        if k == "p":
            # both slots unfiltered: the guards of ProcNode.__init__ are applied by the model, through the
            # decision table the translator reads from the working tree
            r["modprocs"] = [self.eid(m.procedure) for m in getattr(obj, "modprocs", [])]
            if isinstance(obj, sf.FortranModuleProcedureInterface):
                r["impl"] = self.eid(obj.procedure.module)
            from ford.utils import traverse
            r["internals"] = [self.eid(p) for p in traverse(obj, ["subroutines", "functions"])]
        if k == "f":
            for unit in itertools.chain(obj.modules, obj.submodules, obj.functions, obj.subroutines,
                                        obj.programs, obj.blockdata):
                for dep in unit.deplist:
                    if dep.source_file == obj:
                        continue
                    r["deps"].append(self.eid(dep.source_file))
        return r

    def close(self):
        """describe every entity reachable from the ones already numbered"""
        while len(self.rows) < len(self.objs):
            self.rows.append(self.describe(self.objs[len(self.rows)]))

    @staticmethod
    def encode(r: dict) -> str:
        nl = lambda l: ",".join(str(x) for x in l)  # noqa
        opt = lambda o: "" if o is None else str(o)  # noqa
        flags = "".join("1" if r[f] else "0" for f in ("visible", "visibleF", "isBound", "deferred", "extUrl", "graph"))
        return ";".join([r["kind"], r["ptype"], flags, nl(r["uses"]), opt(r["anc"]), nl(r["comps"]), nl(r["calls"]),
                         nl(r["bindings"]), nl(r["modprocs"]), opt(r["impl"]), nl(r["deps"]), nl(r["boundprocs"]),
                         nl(r["internals"]), str(r["maxDepth"]), str(r["maxNodes"]), str(r.get("cls", 0))])


# --------------------------------------------------------------------------
# observation of the real graph objects
# --------------------------------------------------------------------------

_ID = r'"(?:[^"\\]|\\.)*"|[^\s\[\]"]+'
DOT_LINE = re.compile(rf"^\t({_ID})(?: -> ({_ID}))?(?: \[(.*)\])?$")


def _unq(s: str) -> str:
    if s.startswith('"'):
        return re.sub(r"\\(.)", r"\1", s[1:-1])
    return s


def parse_dot(source: str):
    """-> (node names (list, with repetitions), edges [(tail, head, style, label)])"""
    nodes, edges = [], []
    for line in source.splitlines():
        m = DOT_LINE.match(line)
        if not m:
            continue
        a, b, attrs = m.group(1), m.group(2), m.group(3) or ""
        if b is None:
            if a in ("graph", "node", "edge"):
                continue
            nodes.append(_unq(a))
        else:
            st = re.search(r"\bstyle=(\w+)", attrs)
            lb = re.search(r'\blabel=("(?:[^"\\]|\\.)*"|\S+)', attrs)
            edges.append((_unq(a), _unq(b), st.group(1) if st else "?", _unq(lb.group(1)) if lb else None))
    return nodes, edges


def parse_dot_node_labels(source: str) -> dict:
    """-> {node ident: label attribute} (nodes written more than once: the last one, as graphviz reads it)"""
    out = {}
    for line in source.splitlines():
        m = DOT_LINE.match(line)
        if m and m.group(2) is None and m.group(1) not in ("graph", "node", "edge"):
            lb = re.search(r'\blabel=("(?:[^"\\]|\\.)*"|\S+)', m.group(3) or "")
            out[_unq(m.group(1))] = _unq(lb.group(1)) if lb else None
    return out


ROW_RE = re.compile(r'<tr>(?:(?!</tr>).)*class="node"(?:(?!</tr>).)*</tr>', re.S)
ROW_NODE_RE = re.compile(r'class="node" bgcolor="[^"]*">(?:<a href="[^"]*">)?(.*?)(?:</a>)?</td>', re.S)
ROW_STYLE_RE = re.compile(r'<td class="(solid|dashed)(?:Bottom|Text)">')


def observe_shown(graph):
    """what `FortranGraph.__str__` puts on the page: ("n", []) nothing, ("s", []) the picture,
    ("t", rows) the table fall-back with one (name of the entity beside the root, style) per row"""
    text = str(graph)
    if text == "":
        return "n", []
    if '<table class="graph">' in text:
        rows = []
        for m in ROW_RE.finditer(text):
            node, style = ROW_NODE_RE.search(m.group(0)), ROW_STYLE_RE.search(m.group(0))
            label = node.group(1) if node else "?"
            rows.append((label.split("::")[-1].split("%")[-1], style.group(1)[0] if style else "?"))
        return "t", sorted(rows)
    if 'class="depgraph"' in text:
        return "s", []
    return "?", []


ROOT_SPAN_RE = re.compile(r'<td class="root" rowspan="(\d+)"')


def observe_span(graph, shown: str):
    """table fall-back: (`rowspan` of the cell that holds the root, number of `<tr>` of the table); (0, 0) otherwise"""
    if shown != "t":
        return (0, 0)
    text = str(graph)
    m = ROOT_SPAN_RE.search(text)
    return (int(m.group(1)) if m else -1, text.count("<tr>"))


def observe(graph, tab: Table | None):
    """canonical observation of one FortranGraph object"""
    nodes, edges = parse_dot(graph.dot.source)
    shown, rows = observe_shown(graph)
    span = observe_span(graph, shown)
    name = (lambda s: tab.ids.get(s, s)) if tab else (lambda s: s)
    key = lambda x: (isinstance(x, str), x)  # noqa
    ekey = lambda e: tuple(key(x) for x in e)  # noqa
    return {
        "dot_nodes": sorted({name(n) for n in nodes}, key=key),
        "added": sorted({name(n.ident) for n in graph.added}, key=key),
        "edges": sorted(((name(t), name(h), s[0]) for t, h, s, _ in edges), key=ekey),
        "truncated": graph.truncated,
        "hop_nodes": sorted({name(n.ident) for n in graph.hop_nodes}, key=key),
        "hop_edges": sorted(((name(e["edge"]["tail_name"]), name(e["edge"]["head_name"]), e["edge"]["style"][0])
                             for e in graph.hop_edges), key=ekey),
        "labels": {n: None for n in ()},
        "shown": shown, "rows": rows, "file": f"{graph.imgfile}.gv", "nroots": len(graph.root),
        "edge_labels": sorted((t, h, lb) for t, h, _, lb in edges if lb is not None),
        "node_labels": parse_dot_node_labels(graph.dot.source),
        "span": span,
    }


def observe_all(gm, tab: Table | None):
    out = {}
    for obj in gm.graph_objs:
        for attr, cls in PER_ENTITY.items():
            g = getattr(obj, attr, None)
            if g is not None and not isinstance(g, str):
                e = tab.eid(obj) if tab else obj.name
                out[f"{e}:{cls}"] = observe(g, tab)
    for attr, cls in PROJECT_WIDE.items():
        out[f"proj:{cls}"] = observe(getattr(gm, attr), tab)
    return out


def observe_nodes(gm, tab: Table):
    """forward / inverse adjacency of every node object, in the model's vocabulary"""
    G = tab.G
    fwd, inv, created = set(), set(), set()
    colls = [gm.data.submodules, gm.data.modules, gm.data.types, gm.data.procedures, gm.data.programs,
             gm.data.sourcefiles, gm.data.blockdata]
    nm = lambda n: tab.ids.get(n.ident, n.ident)  # noqa

    def one(x):
        return [] if x is None else [x]

    for coll in colls:
        for node in coll.values():
            a = nm(node)
            created.add(a)
            F, I = [], []
            if isinstance(node, G.FileNode):
                F.append(("dep", node.efferent))
                I.append(("dep", node.afferent))
            elif isinstance(node, G.TypeNode):
                F.append(("ext", one(node.ancestor)))
                F.append(("comp", list(node.comp_types)))
                I.append(("ext", node.children))
                I.append(("comp", list(node.comp_of)))
            else:
                F.append(("uses", getattr(node, "uses", [])))
                I.append(("uses", getattr(node, "used_by", [])))
                if isinstance(node, G.SubmodNode):
                    F.append(("anc", one(getattr(node, "ancestor", None))))
                if isinstance(node, G.ModNode):
                    I.append(("anc", node.children))
                F.append(("call", getattr(node, "calls", [])))
                I.append(("call", getattr(node, "called_by", [])))
                F.append(("iface", getattr(node, "interfaces", [])))
                I.append(("iface", getattr(node, "interfaced_by", [])))
            for rel, ts in F:
                for t in ts:
                    fwd.add((a, rel, nm(t)))
            for rel, ts in I:
                for t in ts:
                    inv.add((a, rel, nm(t)))
    return created, fwd, inv


# --------------------------------------------------------------------------
# model side
# --------------------------------------------------------------------------


def parse_model_graph(field: str):
    label, added, edges, trunc, hopn, hope, shown, rows, rows_alt, span, trs = field.split("|")
    rl = lambda rs: [(int(r.split(":")[0]), r.split(":")[1]) for r in rs.split(",")] if rs else []  # noqa
    nl = lambda s: sorted(int(x) for x in s.split(",")) if s else []  # noqa

    def el(s):
        out = []
        for e in s.split(",") if s else []:
            th, st = e.split(":")
            t, h = th.split(">")
            out.append((int(t), int(h), st))
        return sorted(out)

    return label, {"added": nl(added), "edges": el(edges), "truncated": int(trunc),
                   "hop_nodes": nl(hopn), "hop_edges": el(hope), "shown": shown,
                   "rows": rl(rows), "rows_alt": rl(rows_alt), "span": (int(span), int(trs))}


def parse_model_data(field: str):
    label, created, fwd, inv = field.split("|")

    def ll(s):
        out = set()
        for l in s.split(",") if s else []:
            a, r, t = l.split("/")
            out.add((int(a), r, int(t)))
        return out

    return {int(x) for x in created.split(",")} if created else set(), ll(fwd), ll(inv)


VARIANT = {"call_count": "asis", "bound_root": "asis", "table_rows": "asis", "root_span": "asis"}   # decided at run time by `decide_variant`


def model_request(tab: Table, order: list[int]) -> list[str]:
    variant = VARIANT["call_count"] + ("+b" if VARIANT["bound_root"] == "fixed" else "") \
        + ("+t" if VARIANT["table_rows"] == "fixed" else "") + ("+r" if VARIANT["root_span"] == "fixed" else "")
    return ["c13.all", variant, ",".join(str(x) for x in order)] + [Table.encode(r) for r in tab.rows]


def decide_variant(ford, d: Path):
    """Which CallGraph.add_node does the working tree have?  Observed on the witness of the
    finding (two procedures calling each other, graph_maxnodes 3): `asis` counts the callees
    that are roots twice and draws no edge, `fixed` (fixes/C13-callgraph-count.diff) draws both."""
    files, opts = WITNESSES["C13-callgraph-counts-roots-twice"]
    with common.quiet():
        _, gm, _ = build(ford, d, files, opts)
    _, edges = parse_dot(gm.callgraph.dot.source)
    VARIANT["call_count"] = "fixed" if edges else "asis"
    # Which bound procedures does graph_all make roots of the project-wide call graph?  Observed on the
    # witness of C13-binding-to-hidden-not-root (binding b0 => private h0, h0 calls p1): `asis` draws b0 only
    # as a callee, `fixed` (fixes/C13-binding-to-hidden-root.diff) also draws b0 -> p1.
    files, opts = WITNESSES[BOUND_LEAF]
    with common.quiet():
        _, gm, _ = build(ford, d, files, opts)
    _, edges = parse_dot(gm.callgraph.dot.source)
    VARIANT["bound_root"] = "fixed" if any(t == "none~b0" for t, _, _, _ in edges) else "asis"
    # Which end of the kept edges does the table fall-back show?  Observed on the witness of C13-table-self-loop
    # (p0 calls itself and is called by p1, p2; graph_maxnodes 1): `asis` names p0 in every row of the
    # "called by" table of p0, `fixed` (fixes/C13-table-self-loop.diff) names p0, p1, p2.
    files, opts = WITNESSES[TABLE_LOOP]
    with common.quiet():
        project, gm, _ = build(ford, d, files, opts)
    rows = [observe_shown(p.calledbygraph)[1] for p in project.procedures if p.name == "p0"]
    # (a tree that shows something else here is judged by the witness case itself, as the code as it is)
    VARIANT["table_rows"] = "fixed" if rows and {n for n, _ in rows[0]} == {"p0", "p1", "p2"} else "asis"
    # Which list gives the rowspan of the root's cell in the table fall-back?  Observed on the witness of
    # C13-table-rootspan (type t1 extends t0 and has a component of type t0, graph_maxnodes 1: one node, two edges in
    # the refused hop): `asis` spans 2 * 1 + 1 rows, `fixed` (fixes/C13-table-rootspan.diff) 2 * 2 + 1.
    files, opts = WITNESSES[ROOT_SPAN]
    with common.quiet():
        project, gm, _ = build(ford, d, files, opts)
    spans = [observe_span(t.inhergraph, "t") for t in project.types if t.name == "t1"]
    VARIANT["root_span"] = "fixed" if spans and spans[0] == (5, 4) else "asis"
    return dict(VARIANT)


def compare(tab: Table, node_obs, obs: dict, resp: list[str]) -> list[str]:
    """differences between the model's answer and the real graph objects
    (`node_obs` = `observe_nodes(gm, tab)`)"""
    diffs = list(tab.kind_mismatch)
    if resp[0] != "ok":
        return [f"model answered {resp[0]}"]
    graphs = {}
    data = {}
    for f in resp[1:]:
        if f.startswith("data"):
            data[f.split("|", 1)[0]] = parse_model_data(f)
        else:
            label, g = parse_model_graph(f)
            graphs[label] = g
    if set(graphs) != set(obs):
        diffs.append(f"graph sets differ: model-only {sorted(set(graphs) - set(obs))} impl-only {sorted(set(obs) - set(graphs))}")
    for label in sorted(set(graphs) & set(obs)):
        m, o = graphs[label], obs[label]
        for fld in ("added", "edges", "truncated", "hop_nodes", "hop_edges", "shown"):
            ov = [tuple(x) if isinstance(x, (list, tuple)) else x for x in o[fld]] if isinstance(o[fld], list) else o[fld]
            if m[fld] != ov:
                diffs.append(f"{label}.{fld}: model {m[fld]} impl {ov}")
        # (the order of the edges inside a hop is not modelled and the table looks at the first edge: the model
        # answers for the self-loops of the root last and first; with the repaired code the two are equal)
        mrows = [sorted((short_name(tab.rows[n]["name"]) if n < len(tab.rows) else str(n), st) for n, st in m[k])
                 for k in ("rows", "rows_alt")]
        if sorted(tuple(r) for r in o["rows"]) not in mrows:
            diffs.append(f"{label}: rows of the table: model {mrows[0]} or {mrows[1]} impl {sorted(tuple(r) for r in o['rows'])}")
        if tuple(m["span"]) != tuple(o["span"]):
            diffs.append(f"{label}: table fall-back (rowspan of the root's cell, number of <tr>): model {tuple(m['span'])} "
                         f"impl {tuple(o['span'])}")
        if m["added"] != o["dot_nodes"]:
            diffs.append(f"{label}: DOT nodes {o['dot_nodes']} differ from model added {m['added']}")
    created, fwd, inv = node_obs
    mc, mf, mi = data.get("data2", (set(), set(), set()))
    if created != mc:
        diffs.append(f"node objects: model-only {sorted(mc - created, key=str)} impl-only {sorted(created - mc, key=str)}")
    if fwd != mf:
        diffs.append(f"forward sets: model-only {sorted(mf - fwd, key=str)} impl-only {sorted(fwd - mf, key=str)}")
    if inv != mi:
        diffs.append(f"inverse sets: model-only {sorted(mi - inv, key=str)} impl-only {sorted(inv - mi, key=str)}")
    return diffs


# --------------------------------------------------------------------------
# generator: abstract project -> Fortran sources + the relation the property talks about
# --------------------------------------------------------------------------

INF_DEPTH, INF_NODES = 10000, 1000000000


class Abs:
    """Abstract project.  Everything the oracle needs is computed from this object only."""

    def __init__(self):
        self.mods = []      # dict(name, uses[], types[], procs[], gifaces[], mpis[], exts[], mpimpls[], meta)
        #   procs / mpimpls / impls: dict(name, calls[], uses[], private, locals[], internal[], meta, fn, form)
        #       fn: a function;  form: "unit" (subroutine / function statement) or "proc" (`module procedure name`)
        #   mpis:  dict(name, fn, where)   separate module procedure interface, implemented in "sub"(module) /
        #                                  "mod"(ule itself) / None (no implementation in the project)
        #   exts:  dict(name, fn)          external procedure declared by an interface body
        #   gifaces: [name, [[kind, specific, spelling]]]   kind: "proc" | "mpi" | "ext"
        self.subs = []      # dict(name, parent (ident name), mod, uses[], impls[], meta)
        self.progs = []     # dict(name, uses[], calls[], procs[], meta)
        self.blocks = []    # dict(name, uses[], meta)       BLOCK DATA program units (round 4)
        self.bare = []      # procedures that are program units of their own (file level), same dict as `procs`
        #   `internal` of a procedure: its internal procedures (same dict; shown only with `proc_internals`)
        self.files = {}     # file name -> [unit names]
        self.opts = {}
        self.show_private = False
        self.features = set()


def _meta_lines(meta: dict, ind: str) -> str:
    return "".join(f"{ind}!! {k}: {v}\n" for k, v in meta.items())


def gen_meta(rng, feat, p_false=0.06, allow_limits=True):
    meta = {}
    r = rng.random()
    if r < p_false:
        meta["graph"] = "false"
        feat.add("meta-graph-false")
    elif allow_limits and r < p_false + 0.08:
        meta["graph_maxdepth"] = rng.choice([0, 1, 2, 3])
        feat.add("meta-maxdepth")
    elif allow_limits and r < p_false + 0.14:
        meta["graph_maxnodes"] = rng.choice([1, 2, 3, 4, 6])
        feat.add("meta-maxnodes")
    return meta


def gen_abs(rng: random.Random, big: bool, focus: str | None = None, extra: int | None = None,
            all_units: bool = False) -> Abs:
    """`focus="hidden"`: a project about procedures that are not shown (default `display`, no limits, every
    module has a cluster of private helpers): what the callers show must come through the helpers.
    `extra` (round 4): seed of an independent stream that adds the remaining kinds of program units and
    scopes to the finished project - BLOCK DATA units with USE statements, procedures that are program units
    of their own (file level), internal procedures of module / file-level procedures; `all_units`: all of them."""
    A = Abs()
    feat = A.features
    if focus:
        feat.add("focus-" + focus)
    shape = rng.choice(["chain", "diamond", "random", "random", "disconnected", "star"])
    feat.add("shape-" + shape)
    nm = rng.randint(1, 3) if not big else rng.randint(3, 6)
    special = rng.random() < 0.3 and not focus   # projects exercising graph:false / per-entity limits
    limits = (not special) and rng.random() < 0.6 and not focus
    if limits:
        A.opts["graph_maxdepth"] = rng.choice([0, 1, 1, 2, 3, INF_DEPTH])
        A.opts["graph_maxnodes"] = rng.choice([1, 2, 3, 4, 5, 6, 8, 12, INF_NODES])
        feat.add(f"maxdepth-{A.opts['graph_maxdepth'] if A.opts['graph_maxdepth'] < 4 else 'inf'}")
        feat.add("maxnodes-" + ("inf" if A.opts["graph_maxnodes"] == INF_NODES else
                                "small" if A.opts["graph_maxnodes"] <= 3 else "medium"))
    if rng.random() < 0.3:
        A.opts["show_proc_parent"] = True
        feat.add("show_proc_parent")
    if rng.random() < 0.25:
        A.opts["proc_internals"] = True
        feat.add("proc_internals")
    if rng.random() < 0.25 and focus != "hidden":
        A.opts["display"] = ["public", "protected", "private"]
        A.show_private = True
        feat.add("display-private")
    pf = 0.1 if special else 0.0
    tcount = pcount = bcount = gcount = icount = scount = ecount = 0
    all_types = {}   # type name -> module index
    has_generic = set()
    for i in range(nm):
        if shape == "chain":
            uses = [f"m{i-1}"] if i else []
        elif shape == "diamond":
            uses = [] if i == 0 else ["m0"] if i < nm - 1 or nm < 3 else [f"m{j}" for j in range(1, nm - 1)]
        elif shape == "star":
            uses = [f"m{j}" for j in range(i)] if i == nm - 1 else []
        elif shape == "disconnected":
            uses = [f"m{i-2}"] if i >= 2 else []
        else:
            uses = [f"m{j}" for j in range(i) if rng.random() < 0.45]
        if rng.random() < 0.25:
            uses.append(rng.choice(["xm0", "xm1"]))
            feat.add("external-module")
        m = dict(name=f"m{i}", uses=uses, types=[], procs=[], gifaces=[], mpis=[], exts=[], mpimpls=[],
                 ext_same_block=rng.random() < 0.3, meta=gen_meta(rng, feat, pf, special))
        vis_mods = [u for u in uses if u.startswith("m")]
        # procedures first (names), bodies later
        for _ in range(rng.randint(2 if focus == "hidden" else 0, 4)):
            m["procs"].append(dict(name=f"p{pcount}", calls=[], uses=[], private=False, locals=[],
                                   internal=[], meta=gen_meta(rng, feat, pf, special),
                                   fn=rng.random() < 0.15, form="unit"))
            if m["procs"][-1]["fn"]:
                feat.add("function")
            pcount += 1
        # types
        for _ in range(rng.randint(0, 3)):
            t = dict(name=f"t{tcount}", extends=None, comps=[], binds=[], generics=[],
                     meta=gen_meta(rng, feat, pf, special))
            tcount += 1
            visible_types = [n for n, mi in all_types.items() if mi == i or f"m{mi}" in vis_mods]
            # (a type with a generic binding is not extended: the inherited copy gets a run-dependent ident)
            extendable = [n for n in visible_types if n not in has_generic]
            if extendable and rng.random() < 0.5:
                t["extends"] = rng.choice(extendable)
                feat.add("type-extends")
            for c in range(rng.choice([0, 0, 1, 2])):
                r = rng.random()
                if r < 0.15:
                    t["comps"].append((f"c{c}", t["name"], True))
                    feat.add("type-self-pointer")
                elif r < 0.3:
                    t["comps"].append((f"c{c}", "xt0", False))
                    feat.add("external-type")
                elif visible_types:
                    t["comps"].append((f"c{c}", rng.choice(visible_types), rng.random() < 0.3))
                    feat.add("type-component")
            pubs = [p for p in m["procs"] if not p["fn"]]   # (functions are neither bound nor called)
            if pubs and rng.random() < 0.5:
                k = rng.randint(1, min(3, len(pubs)))
                for p in rng.sample(pubs, k):
                    t["binds"].append((f"b{bcount}", p["name"]))
                    # the usual object-oriented layout: the binding is public, the procedure behind it private
                    if not p.get("bound") and rng.random() < 0.2:
                        p["private"] = True
                        feat.add("binding-to-private")
                    if p["private"]:
                        # (with the default `display` the binding is then a node of its own; like a type with
                        # a generic binding the type is not extended: the inherited copy gets a run-dependent ident)
                        has_generic.add(t["name"])
                    p["bound"] = True
                    bcount += 1
                feat.add("simple-binding")
                if rng.random() < 0.6:
                    ng = 1 if len(t["binds"]) == 1 or rng.random() < 0.3 else 2
                    feat.add(f"generic-of-{ng}")
                    t["generics"].append((f"g{gcount}", [b for b, _ in t["binds"][:ng]]))
                    gcount += 1
                    has_generic.add(t["name"])
                    feat.add("generic-binding")
            all_types[t["name"]] = i
            m["types"].append(t)
        # private procedures (never bound / in interfaces)
        for p in m["procs"]:
            if not p.get("bound") and rng.random() < 0.25:
                p["private"] = True
                feat.add("private-proc")
        # hidden helpers: a cluster of private procedures that call each other (chains, diamonds, cycles)
        # and the visible procedures; with the default `display` they have no node of their own and every
        # caller must show what is reached *through* them
        if rng.random() < 0.3 or focus == "hidden":
            for _ in range(rng.randint(2, 4)):
                m["procs"].append(dict(name=f"p{pcount}", calls=[], uses=[], private=True, locals=[], internal=[],
                                       meta={}, fn=False, form="unit", helper=True))
                pcount += 1
            feat.add("hidden-helper-cluster")
        free = [p for p in m["procs"] if not p["private"]]
        # separate module procedures (interface bodies with the MODULE prefix) ...
        if rng.random() < 0.35:
            for _ in range(rng.choice([1, 1, 2, 3])):
                where = rng.choice(["sub", "sub", "sub", "mod", None])
                m["mpis"].append(dict(name=f"sp{scount}", fn=rng.random() < 0.2, where=where))
                feat.add({"sub": "mpi-impl-in-submodule", "mod": "mpi-impl-in-module", None: "mpi-unimplemented"}[where])
                scount += 1
        # ... and external procedures known through an interface body
        if rng.random() < 0.25:
            for _ in range(rng.choice([1, 1, 2])):
                m["exts"].append(dict(name=f"ex{ecount}", fn=rng.random() < 0.2))
                ecount += 1
            feat.add("external-interface-body")
        # generic interfaces: the specific procedures are module procedures, separate module procedures
        # or external procedures, in every spelling of the procedure statement
        # (a private module procedure may be a specific procedure of a public generic interface)
        pool = [["proc", p["name"]] for p in m["procs"]] + [["mpi", x["name"]] for x in m["mpis"]] \
            + [["ext", x["name"]] for x in m["exts"]]
        for _ in range(rng.choice([1, 1, 2])):
            if pool and rng.random() < 0.4:
                specs = rng.sample(pool, rng.randint(1, min(3, len(pool))))
                m["gifaces"].append([f"gi{icount}", [[k, n, rng.randrange(3)] for k, n in specs]])
                icount += 1
                feat.add("generic-interface")
                for k, n in specs:
                    feat.add("giface-specific-" + k)
                    if k == "proc" and n not in [p["name"] for p in free]:
                        feat.add("giface-specific-private")
        A.mods.append(m)
    # submodules
    def impl_of(x):
        form = "proc" if rng.random() < 0.35 else "unit"
        feat.add("mpi-impl-" + ("procedure-statement" if form == "proc" else "module-subroutine"))
        return dict(name=x["name"], calls=[], uses=[], private=True, locals=[], internal=[], meta={},
                    fn=x["fn"], form=form)

    for m in A.mods:
        for x in m["mpis"]:
            if x["where"] == "mod":
                m["mpimpls"].append(dict(impl_of(x), private=False))
        if any(x["where"] == "sub" for x in m["mpis"]) or rng.random() < 0.2:
            depth = rng.randint(1, 2)
            parent = m["name"]
            for d in range(depth):
                s = dict(name=f"s{len(A.subs)}", parent=parent, mod=m["name"], uses=[], impls=[],
                         meta=gen_meta(rng, feat, pf, special))
                if rng.random() < 0.2:
                    cand = [x["name"] for x in A.mods if x["name"] < m["name"]]
                    if cand:
                        s["uses"].append(rng.choice(cand))
                A.subs.append(s)
                parent = s["name"]
                feat.add("submodule" if d == 0 else "sub-submodule")
            for x in m["mpis"]:
                if x["where"] == "sub":
                    A.subs[-1]["impls"].append(impl_of(x))
                    feat.add("module-procedure-impl")
    # programs
    for k in range(rng.choice([0, 1, 1, 2])):
        uses = [m["name"] for m in A.mods if rng.random() < 0.5]
        g = dict(name=f"prog{k}", uses=uses, calls=[], procs=[], locals=[], meta=gen_meta(rng, feat, pf, special))
        for _ in range(rng.choice([0, 0, 1, 2])):
            g["procs"].append(dict(name=f"p{pcount}", calls=[], uses=[], private=False, locals=[], internal=[],
                                   meta=gen_meta(rng, feat, pf, special), fn=False, form="unit"))
            pcount += 1
            feat.add("program-internal-proc")
        A.progs.append(g)
    # call bodies
    modmap = {m["name"]: m for m in A.mods}

    def callable_from(unit_mods, own, in_sub=False, host=None):
        out = []
        for mn in unit_mods:
            # (the private procedures of a module can be called from the module itself and its submodules)
            out += [("proc", p["name"]) for p in modmap[mn]["procs"]
                    if (not p["private"] or mn == host) and not p["fn"]]
            # generic interfaces, separate module procedures and external procedures are called through
            # their interface (inside a submodule the name of a module procedure may denote the local
            # implementation instead: not generated)
            out += [("iface", gi[0]) for gi in modmap[mn]["gifaces"]]
            out += [("iface", x["name"]) for x in modmap[mn]["exts"] if not x["fn"]]
            if not in_sub:
                out += [("iface", x["name"]) for x in modmap[mn]["mpis"] if not x["fn"]]
        out += [("proc", p["name"]) for p in own]
        return out

    def tb_targets(unit_mods):
        out = []
        for mn in unit_mods:
            for t in modmap[mn]["types"]:
                out += [("tb", t["name"], b) for b, _ in t["binds"]]
                out += [("tb", t["name"], g) for g, _ in t["generics"]]
        return out

    def fill(p, unit_mods, own, allow_use=True, in_sub=False, host=None):
        cands = callable_from(unit_mods, own, in_sub, host)
        tbs = tb_targets(unit_mods)
        n = rng.choice([0, 1, 1, 2, 3])
        helpers = [("proc", q["name"]) for q in modmap[host]["procs"] if q.get("helper")] if host else []
        if helpers and p.get("helper"):
            n = rng.choice([1, 2, 2, 3])
        used_b = set()
        for _ in range(n):
            r = rng.random()
            if helpers and rng.random() < (0.5 if p.get("helper") else 0.3):
                # into / inside the cluster of hidden helpers (itself included: recursion)
                c = rng.choice(helpers)
                p["calls"].append(c)
                feat.add("call-to-private")
                if c[1] == p["name"]:
                    feat.add("recursion")
            elif r < 0.12:
                p["calls"].append(("ext", rng.choice(["xp0", "xp1"])))
                feat.add("external-call")
            elif r < 0.3 and tbs:
                t = rng.choice(tbs)
                if t[2] in used_b:
                    continue
                used_b.add(t[2])
                v = f"v{len(p['locals'])}"
                p["locals"].append((v, t[1]))
                p["calls"].append(("tb", v, t[2]))
                feat.add("type-bound-call")
            elif cands:
                c = rng.choice(cands)
                p["calls"].append(c)
                if c[1] == p["name"]:
                    feat.add("recursion")
                if c[0] == "proc" and host and any(q["name"] == c[1] and q["private"] for q in modmap[host]["procs"]):
                    feat.add("call-to-private")
                if c[0] == "iface":
                    feat.add("call-to-interface")
        if allow_use and rng.random() < 0.1:
            cand = [m["name"] for m in A.mods if m["name"] not in unit_mods and m["name"] < unit_mods[0]]
            if cand:
                p["uses"].append(rng.choice(cand))
                feat.add("proc-level-use")

    for m in A.mods:
        mods_here = [m["name"]] + [u for u in m["uses"] if u.startswith("m")]
        for p in m["procs"]:
            fill(p, mods_here, [], host=m["name"])
        for p in m["mpimpls"]:
            fill(p, mods_here, [], allow_use=False, host=m["name"])
    for s in A.subs:
        for p in s["impls"]:
            fill(p, [s["mod"]], [], allow_use=False, in_sub=True, host=s["mod"])
    for g in A.progs:
        fill(g, g["uses"], g["procs"], allow_use=False)
        for p in g["procs"]:
            fill(p, g["uses"], g["procs"], allow_use=False)
    # shape of the hidden part of the call relation (histogram only)
    if not A.show_private:
        hid = {p["name"]: {c[1] for c in p["calls"] if c[0] == "proc"}
               for m in A.mods for p in m["procs"] if p["private"]}
        hid = {h: {c for c in cs if c in hid} for h, cs in hid.items()}

        def hreach(h):
            seen, todo = set(), [h]
            while todo:
                for c in hid[todo.pop()]:
                    if c not in seen:
                        seen.add(c)
                        todo.append(c)
            return seen
        reach = {h: hreach(h) for h in hid}
        if any(cs - {h} for h, cs in hid.items()):
            feat.add("hidden-calls-hidden")
        if any(h in reach[h] for h in hid):
            feat.add("hidden-recursion")
        if any(g != h and h in reach[g] for h in hid for g in reach[h]):
            feat.add("hidden-mutual-recursion")
    # files
    units = [m["name"] for m in A.mods] + [s["name"] for s in A.subs] + [g["name"] for g in A.progs]
    rng.shuffle(units)
    nf = rng.randint(1, max(1, min(4, len(units))))
    nf = max(nf, len(A.progs))
    progs_seen = 0
    for k, u in enumerate(units):
        if u.startswith("prog"):
            A.files.setdefault(f"f{progs_seen}.f90", []).append(u)
            progs_seen += 1
        else:
            A.files.setdefault(f"f{k % nf}.f90", []).append(u)
    if extra is None:
        return A
    # ---- round 4: every kind of program unit / scope the node constructors know (independent stream)
    rng = random.Random(extra)      # (`fill` and its helpers draw from this stream from here on)
    mod_names = [m["name"] for m in A.mods]
    new_units = []
    if all_units or rng.random() < 0.3:
        for k in range(rng.choice([1, 1, 2])):
            uses = rng.sample(mod_names, rng.randint(0, min(2, len(mod_names))))
            if rng.random() < 0.15:
                uses.append(rng.choice(["xm0", "xm1"]))
            A.blocks.append(dict(name=f"bd{k}", uses=uses, meta=gen_meta(rng, feat, pf, special or rng.random() < 0.3)))
            new_units.append(f"bd{k}")
            feat.add("blockdata")
            if uses:
                feat.add("blockdata-use")
            if len([u for u in uses if u.startswith("m")]) == 1 and \
                    not any(uses[0] in x["uses"] for x in A.mods + A.subs + A.progs):
                feat.add("blockdata-only-user")
    if all_units or rng.random() < 0.3:
        for k in range(rng.choice([1, 1, 2])):
            uses = rng.sample(mod_names, rng.randint(0, min(2, len(mod_names))))
            p = dict(name=f"fp{k}", calls=[], uses=uses, private=False, locals=[], internal=[],
                     meta=gen_meta(rng, feat, pf, special or rng.random() < 0.3), fn=rng.random() < 0.15,
                     form="unit", bare=True)
            A.bare.append(p)
            new_units.append(p["name"])
            feat.add("file-level-proc")
            if uses:
                feat.add("file-level-proc-use")
                fill(p, uses, [], allow_use=False)
    # a file-level procedure has no explicit interface anywhere: a call to it stays a bare name
    callers = [p for m in A.mods for p in m["procs"] + m["mpimpls"]] + [p for s in A.subs for p in s["impls"]] \
        + list(A.progs) + [p for g in A.progs for p in g["procs"]] + list(A.bare)
    for p in A.bare:
        for c in rng.sample(callers, min(len(callers), rng.choice([0, 1, 2]))):
            if ("ext", p["name"]) not in c["calls"]:
                c["calls"].append(("ext", p["name"]))
                feat.add("call-to-file-level-proc")
    # internal procedures (CONTAINS inside a procedure): hosts are module and file-level procedures
    hosts = [(p, [m["name"]] + [u for u in m["uses"] if u.startswith("m")], m["name"])
             for m in A.mods for p in m["procs"] if p["form"] == "unit" and "graph" not in p["meta"]]
    hosts += [(p, [u for u in p["uses"] if u.startswith("m")], None) for p in A.bare if "graph" not in p["meta"]]
    icount = 0
    for p, mods_here, host in hosts:
        if not (rng.random() < (0.5 if all_units else 0.12)):
            continue
        for _ in range(rng.choice([1, 1, 2])):
            p["internal"].append(dict(name=f"ip{icount}", calls=[], uses=[], private=False, locals=[], internal=[],
                                      meta={}, fn=False, form="unit", nested=True))
            icount += 1
        feat.add("internal-proc")
        if p["private"]:
            feat.add("internal-proc-of-hidden-host")
        for q in p["internal"]:
            fill(q, mods_here, p["internal"], allow_use=False, host=host)
            if any(c[0] == "proc" and c[1] == q["name"] for c in q["calls"]):
                feat.add("recursion")
        for q in rng.sample(p["internal"], rng.randint(1, len(p["internal"]))):
            p["calls"].append(("proc", q["name"]))
    # files: the new program units join existing files or get one of their own
    for u in new_units:
        fs = sorted(A.files)
        if fs and rng.random() < 0.6:
            A.files[rng.choice(fs)].append(u)
        else:
            A.files[f"g{len(A.files)}.f90"] = [u]
            feat.add("file-of-non-module-units")
    return A


def render(A: Abs) -> dict:
    modmap = {m["name"]: m for m in A.mods}
    submap = {s["name"]: s for s in A.subs}
    progmap = {g["name"]: g for g in A.progs}

    def head_text(name, fn, ind, prefix=""):
        """statement that opens a subroutine / function (also used for interface bodies)"""
        if fn:
            return f"{ind}{prefix}function {name}() result(r)\n", f"{ind}  integer :: r\n", f"{ind}end function {name}\n"
        return f"{ind}{prefix}subroutine {name}()\n", "", f"{ind}end subroutine {name}\n"

    def body_text(name, fn, ind, prefix=""):
        a, b, c = head_text(name, fn, ind, prefix)
        return a + b + c

    def proc_text(p, ind, prefix="", bound_self=None):
        fn, proc_form = p.get("fn", False), p.get("form", "unit") == "proc"
        if proc_form:   # `module procedure name`: the characteristics come from the interface
            head, decl, tail = f"{ind}module procedure {p['name']}\n", "", f"{ind}end procedure {p['name']}\n"
        else:
            head, decl, tail = head_text(p["name"], fn, ind, prefix)
        o = head + _meta_lines(p["meta"], ind + "  ")
        for u in p["uses"]:
            o += f"{ind}  use {u}\n"
        for v, t in p["locals"]:
            o += f"{ind}  type({t}) :: {v}\n"
        o += decl
        for c in p["calls"]:
            if c[0] == "tb":
                o += f"{ind}  call {c[1]}%{c[2]}()\n"
            else:
                o += f"{ind}  call {c[1]}()\n"
        if fn:
            o += f"{ind}  r = 0\n"
        if p.get("internal"):
            o += f"{ind}contains\n"
            for q in p["internal"]:
                o += proc_text(q, ind + "  ")
        return o + tail

    blockmap = {b["name"]: b for b in A.blocks}
    baremap = {p["name"]: p for p in A.bare}

    def unit_text(name):
        if name in blockmap:
            b = blockmap[name]
            o = f"block data {name}\n" + _meta_lines(b["meta"], "  ")
            for u in b["uses"]:
                o += f"  use {u}\n"
            return o + f"  integer :: x_{name}\n  common /c_{name}/ x_{name}\nend block data {name}\n"
        if name in baremap:
            return proc_text(baremap[name], "")
        if name in modmap:
            m = modmap[name]
            o = f"module {name}\n" + _meta_lines(m["meta"], "  ")
            for u in m["uses"]:
                o += f"  use {u}\n"
            o += "  implicit none\n"
            priv = [p["name"] for p in m["procs"] if p["private"]]
            if priv:
                o += "  private :: " + ", ".join(priv) + "\n"
            for t in m["types"]:
                o += f"  type{', extends(' + t['extends'] + ')' if t['extends'] else ''} :: {t['name']}\n"
                o += _meta_lines(t["meta"], "    ")
                for cn, ct, ptr in t["comps"]:
                    o += f"    type({ct}){', pointer' if ptr else ''} :: {cn}\n"
                if t["binds"]:
                    o += "  contains\n"
                    for b, p in t["binds"]:
                        o += f"    procedure, nopass :: {b} => {p}\n"
                    for g, bs in t["generics"]:
                        o += f"    generic :: {g} => {', '.join(bs)}\n"
                o += f"  end type {t['name']}\n"
            spell = ["module procedure ", "procedure :: ", "procedure "]
            for gi, specs in m["gifaces"]:
                o += f"  interface {gi}\n"
                for _, n, sp in specs:
                    o += f"    {spell[sp]}{n}\n"
                o += f"  end interface {gi}\n"
            mpi_txt = "".join(body_text(x["name"], x["fn"], "    ", "module ") for x in m["mpis"])
            ext_txt = "".join(body_text(x["name"], x["fn"], "    ") for x in m.get("exts", []))
            if m.get("ext_same_block") and mpi_txt and ext_txt:
                o += "  interface\n" + mpi_txt + ext_txt + "  end interface\n"
            else:
                for txt in (mpi_txt, ext_txt):
                    if txt:
                        o += "  interface\n" + txt + "  end interface\n"
            if m["procs"] or m.get("mpimpls"):
                o += "contains\n"
                for p in m["procs"]:
                    o += proc_text(p, "  ")
                for p in m.get("mpimpls", []):
                    o += proc_text(p, "  ", "module ")
            return o + f"end module {name}\n"
        if name in submap:
            s = submap[name]
            par = s["mod"] if s["parent"] == s["mod"] else f"{s['mod']}:{s['parent']}"
            o = f"submodule ({par}) {name}\n" + _meta_lines(s["meta"], "  ")
            for u in s["uses"]:
                o += f"  use {u}\n"
            if s["impls"]:
                o += "contains\n"
                for p in s["impls"]:
                    o += proc_text(p, "  ", "module ")
            return o + f"end submodule {name}\n"
        g = progmap[name]
        o = f"program {name}\n" + _meta_lines(g["meta"], "  ")
        for u in g["uses"]:
            o += f"  use {u}\n"
        o += "  implicit none\n"
        for v, t in g["locals"]:
            o += f"  type({t}) :: {v}\n"
        for c in g["calls"]:
            o += f"  call {c[1]}%{c[2]}()\n" if c[0] == "tb" else f"  call {c[1]}()\n"
        if g["procs"]:
            o += "contains\n"
            for p in g["procs"]:
                o += proc_text(p, "  ")
        return o + f"end program {name}\n"

    return {f: "\n".join(unit_text(u) for u in us) for f, us in A.files.items()}


# --------------------------------------------------------------------------
# the relation the property talks about, from the abstract project only
# --------------------------------------------------------------------------


class Spec:
    """idents and relations.  Edges are (tail, head, style).

    `drop_proc_form_impl` gives the relation of finding C13-modproc-impl-no-edge (used only to
    classify a failing input): the interface-to-implementation edge of a separate module
    procedure is left out when its implementation is written `module procedure name`."""

    def __init__(self, A: Abs, drop_proc_form_impl=False):
        self.A = A
        self.graph_false = set()
        self.limits = {}       # ident -> (maxdepth, maxnodes)
        self.kind = {}         # ident -> m s t p g f i(nterface) b(oundproc)
        self.uses = {}         # ident -> [(target, style)]
        self.inherits = {}
        self.calls = {}
        self.deps = {}
        self.visible = {}
        self.comp_labels = {}  # (type ident, component type ident) -> [component names]
        d0 = A.opts.get("graph_maxdepth", INF_DEPTH)
        n0 = A.opts.get("graph_maxnodes", INF_NODES)

        def reg(ident, kind, meta):
            self.kind[ident] = kind
            if meta.get("graph") == "false":
                self.graph_false.add(ident)
            self.limits[ident] = (int(meta.get("graph_maxdepth", d0)), int(meta.get("graph_maxnodes", n0)))

        def mod_ident(u):
            return f"module~{u}" if u[0] in "ms" and not u.startswith("xm") else u

        procs = {}     # name -> (dict, ident)
        types = {}
        binds = {}     # binding name -> ('simple', proc) | ('generic', [bindings])
        unit_of_file = {}
        for f, us in A.files.items():
            reg(f"sourcefile~{f}", "f", {})
            for u in us:
                unit_of_file[u] = f"sourcefile~{f}"
        self.unit_file = unit_of_file
        for m in A.mods:
            mi = f"module~{m['name']}"
            reg(mi, "m", m["meta"])
            self.uses[mi] = [(mod_ident(u), "d") for u in m["uses"]]
            for p in m["procs"] + m.get("mpimpls", []):
                procs[p["name"]] = (p, f"proc~{p['name']}")
            for t in m["types"]:
                types[t["name"]] = t
                for b, p in t["binds"]:
                    binds[b] = ("simple", p, t["name"])
                for g, bs in t["generics"]:
                    binds[g] = ("generic", bs, t["name"])
        for s in A.subs:
            si = f"module~{s['name']}"
            reg(si, "s", s["meta"])
            self.uses[si] = [(mod_ident(u), "d") for u in s["uses"]] + [(f"module~{s['parent']}", "s")]
            for p in s["impls"]:
                procs[p["name"]] = (p, f"proc~{p['name']}")
        for g in A.progs:
            gi = f"program~{g['name']}"
            reg(gi, "g", g["meta"])
            self.uses[gi] = [(mod_ident(u), "d") for u in g["uses"]]
            for p in g["procs"]:
                procs[p["name"]] = (p, f"proc~{p['name']}")
        # BLOCK DATA units: program units whose only relation is USE (kind "d"; "b" is a bound procedure)
        for b in A.blocks:
            bi = f"blockdata~{b['name']}"
            reg(bi, "d", b["meta"])
            self.uses[bi] = [(mod_ident(u), "d") for u in b["uses"]]
        # procedures that are program units of their own: always documented
        for p in A.bare:
            procs[p["name"]] = (p, f"proc~{p['name']}")
        # internal procedures: described on the page of their host, and only with `proc_internals`
        self.internal_of = {}      # ident of an internal procedure -> ident of its host
        internals = {}
        for hp, hident in list(procs.values()):
            for q in hp.get("internal", []):
                internals[q["name"]] = (q, f"none~{q['name']}")
                self.internal_of[f"none~{q['name']}"] = hident
        procs.update(internals)
        self.procs = procs
        for name, (p, ident) in procs.items():
            if ident in self.internal_of:
                continue
            self.visible[ident] = (not p["private"]) or A.show_private or bool(p.get("bare"))
            if self.visible[ident]:
                reg(ident, "p", p["meta"])
            self.uses[ident] = [(mod_ident(u), "d") for u in p["uses"]]
        for ident, hident in self.internal_of.items():
            self.visible[ident] = bool(A.opts.get("proc_internals")) and self.visible[hident]
            if self.visible[ident]:
                self.kind[ident] = "n"       # a node, a root of the project-wide call graph, no graphs of its own
                self.limits[ident] = (d0, n0)
        # types
        for name, t in types.items():
            ti = f"type~{name}"
            reg(ti, "t", t["meta"])
            out = []
            seen = set()
            for cn, ct, _ in t["comps"]:
                c = f"type~{ct}" if ct in types else ct
                # a composition edge is labelled with the names of the components of that type
                self.comp_labels.setdefault((ti, c), []).append(cn)
                if c not in seen:
                    seen.add(c)
                    out.append((c, "d"))
            if t["extends"]:
                out.append((f"type~{t['extends']}", "s"))
            self.inherits[ti] = out

        # calls
        def resolve(target, locals_, seen):
            if target[0] == "ext":
                return [target[1]]
            if target[0] == "iface":   # generic interface / interface body: always documented
                return [f"interface~{target[1]}"]
            if target[0] == "tb":
                kind = binds[target[2]]
                if kind[0] == "simple" and self.visible[procs[kind[1]][1]]:
                    return [procs[kind[1]][1]]     # one visible procedure under one label: shown as that procedure
                return [f"none~{target[2]}"]       # generic binding, or a binding to a procedure that is not shown
            p, ident = procs[target[1]]
            if self.visible[ident]:
                return [ident]
            if ident in seen:
                return []
            seen.add(ident)
            out = []
            for c in p["calls"]:
                out += resolve(c, p["locals"], seen)
            return out

        def callees(owner):
            out = []
            for c in owner["calls"]:
                for x in resolve(c, owner["locals"], set()):
                    if x not in out:
                        out.append(x)
            return out

        for name, (p, ident) in procs.items():
            self.calls[ident] = [(x, "s") for x in callees(p)]
        for g in A.progs:
            self.calls[f"program~{g['name']}"] = [(x, "s") for x in callees(g)]
        self.kept_bindings = []
        for b, k in binds.items():
            if k[0] == "simple" and not self.visible[procs[k[1]][1]]:
                # binding to a procedure that is not shown: the binding is the node, and it calls what is
                # reached through the hidden procedure
                bi = f"none~{b}"
                self.kind[bi] = "b"
                self.limits[bi] = (d0, n0)
                out = []
                for x in resolve(("proc", k[1]), None, set()):
                    if x not in out:
                        out.append(x)
                self.calls[bi] = [(x, "d") for x in out]
                self.kept_bindings.append(bi)
        for b, k in binds.items():
            if k[0] == "generic":
                gi = f"none~{b}"
                self.kind[gi] = "b"
                self.limits[gi] = (d0, n0)   # a bound procedure has no metadata of its own
                out = []
                for sb in k[1]:
                    for x in resolve(("tb", None, sb), None, set()):
                        if x not in out:
                            out.append(x)
                self.calls[gi] = [(x, "d") for x in out]
        # interface-to-implementation: a generic interface -> each of its specific procedures (a module
        # procedure, or the interface body that declares a separate module procedure / an external
        # procedure); the interface of a separate module procedure -> its implementation, if the
        # project has one and it is documented
        self.proc_form_impl_edges = []
        for m in A.mods:
            for gi, specs in m["gifaces"]:
                ii = f"interface~{gi}"
                reg(ii, "i", {})
                out = []
                for k, n, _ in specs:
                    x = f"proc~{n}" if k == "proc" else f"interface~{n}"
                    if (k != "proc" or self.visible.get(x)) and (x, "d") not in out:
                        out.append((x, "d"))
                self.calls[ii] = out
            for x in m["mpis"]:
                sp = x["name"]
                ii = f"interface~{sp}"
                reg(ii, "i", {})
                self.calls[ii] = []
                if x["where"] and self.visible.get(f"proc~{sp}"):
                    if procs[sp][0].get("form") == "proc":
                        self.proc_form_impl_edges.append((ii, f"proc~{sp}"))
                        if drop_proc_form_impl:
                            continue
                    self.calls[ii] = [(f"proc~{sp}", "d")]
            for x in m.get("exts", []):
                ii = f"interface~{x['name']}"
                reg(ii, "i", {})
                self.calls[ii] = []
        # a procedure that is not shown is no caller either: what it calls is shown for *its* callers
        self.calls = {a: ts for a, ts in self.calls.items() if self.visible.get(a, True)}
        # file dependencies: unit-level USE of a project module and submodule parents
        for f, us in A.files.items():
            fi = f"sourcefile~{f}"
            out = []
            for u in us:
                unit_uses = []
                for pre in ("module", "program", "blockdata", "proc"):
                    unit_uses += self.uses.get(f"{pre}~{u}", [])    # (`proc`: a file-level procedure)
                for m in A.mods:
                    if m["name"] == u:
                        for p in m["procs"]:
                            unit_uses += self.uses.get(f"proc~{p['name']}", [])
                for tgt, _ in unit_uses:
                    if tgt.startswith("module~"):
                        tf = unit_of_file[tgt.split("~", 1)[1]]
                        if tf != fi and tf not in out:
                            out.append(tf)
            self.deps[fi] = [(x, "d") for x in out]
        # (file dependencies come from every USE statement; the module graphs show documented entities only)
        self.uses = {a: ts for a, ts in self.uses.items() if self.visible.get(a, True)}

    # ---- relations per graph class: node -> [(neighbour, (tail, head, style))]
    def forward(self, rel):
        return lambda n: [(t, (n, t, s)) for t, s in rel.get(n, [])]

    def backward(self, rel):
        inv = {}
        for a, ts in rel.items():
            for t, s in ts:
                inv.setdefault(t, []).append((a, (a, t, s)))
        return lambda n: inv.get(n, [])

    def succ(self, cls):
        if cls in ("uses", "module"):
            return self.forward(self.uses)
        if cls == "usedby":
            return self.backward(self.uses)
        if cls in ("inherits", "type"):
            return self.forward(self.inherits)
        if cls == "inheritedby":
            return self.backward(self.inherits)
        if cls in ("calls", "call"):
            return self.forward(self.calls)
        if cls == "calledby":
            return self.backward(self.calls)
        if cls == "efferent":
            return self.forward(self.deps)
        if cls == "afferent":
            return self.backward(self.deps)
        if cls == "file":  # project-wide file graph draws dependency -> dependent, solid
            f = self.forward(self.deps)
            return lambda n: [(t, (t, n, "s")) for t, _ in f(n)]
        raise KeyError(cls)


NESTED = {"uses", "usedby", "inherits", "inheritedby", "calls", "calledby", "efferent", "afferent"}


def expected_graph(succ, roots, depth, maxnodes, nested):
    """What the property statement asks for: the nodes reachable from the roots within the
    largest number of hops k <= depth for which the graph stays within maxnodes, and all
    edges of the relation that start (in traversal direction) at a node closer than k."""
    depth = max(1, depth) if nested else 1
    seen = list(dict.fromkeys(roots))
    frontier = list(seen)
    edges = []
    cut = None
    k = 0
    while frontier and k < depth:
        new, es = [], []
        for n in frontier:
            for c, e in succ(n):
                es.append(e)
                if c not in seen and c not in new:
                    new.append(c)
        if len(seen) + len(new) > maxnodes:
            cut = k + 1
            break
        seen += new
        edges += es
        frontier = new
        k += 1
    return set(seen), sorted(edges), cut


# --------------------------------------------------------------------------
# property oracle (on the real graphs, from the abstract project)
# --------------------------------------------------------------------------

CLASSES_OF_KIND = {"m": ["uses", "usedby"], "s": ["uses", "usedby"], "t": ["inherits", "inheritedby"],
                   "p": ["calls", "calledby", "uses"], "i": ["calls", "calledby", "uses"],
                   "g": ["uses", "calls"], "f": ["afferent", "efferent"], "d": ["uses"], "n": []}
INVERSE_PAIRS = [("uses", "usedby"), ("inherits", "inheritedby"), ("calls", "calledby"), ("efferent", "afferent")]


def project_roots(S: Spec, cls: str, drop_false=True, drop_kept_bindings=False):
    ok = lambda i: not (drop_false and i in S.graph_false)  # noqa
    ks = S.kind
    if cls == "module":
        r = [i for i, k in ks.items() if k in "ms" and ok(i)]
        r += [i for i, k in ks.items() if k in "gpid" and ok(i) and own_graph_nontrivial(S, i, "uses")]
        return r
    if cls == "type":
        return [i for i, k in ks.items() if k == "t" and ok(i)]
    if cls == "file":
        return [i for i, k in ks.items() if k == "f" and ok(i)]
    r = [i for i, k in ks.items() if k in "pi" and ok(i)]
    # (an internal procedure is described on the page of its host: it is there when the host is)
    r += [i for i, k in ks.items() if k == "n" and ok(S.internal_of[i]) and S.kind.get(S.internal_of[i]) == "p"]
    for t in (t for m in S.A.mods for t in m["types"]):
        if ok(f"type~{t['name']}"):
            r += [f"none~{g}" for g, _ in t["generics"]]
            if not drop_kept_bindings:
                r += [f"none~{b}" for b, _ in t["binds"] if f"none~{b}" in S.kept_bindings]
    r += [i for i, k in ks.items() if k == "g" and ok(i) and own_graph_nontrivial(S, i, "calls")]
    return r


def own_graph_nontrivial(S: Spec, ident: str, cls: str) -> bool:
    """program units are drawn in a project-wide graph when their own graph shows more than themselves"""
    d, n = S.limits[ident]
    return len(expected_graph(S.succ(cls), [ident], d, n, True)[0]) > 1


def eager_nodes(S: Spec):
    """entities that have a node object before the per-entity graphs are drawn: the
    registered ones and everything they (transitively) depend on"""
    seen = [i for i, k in S.kind.items() if k in "mstpigfd" and i not in S.graph_false]
    todo = list(seen)
    while todo:
        n = todo.pop()
        for rel in (S.uses, S.inherits, S.calls, S.deps):
            for t, _ in rel.get(n, []):
                if t not in seen:
                    seen.append(t)
                    todo.append(t)
    return set(seen)


def norm_edges(S: Spec, cls: str, edges):
    out = []
    for t, h, s in edges:
        if cls == "calledby" and S.kind.get(t) == "b":
            s = "*"   # generic binding -> specific: dashed in "calls", solid in "called by"; style not judged
        out.append((t, h, s))
    return sorted(out)


GF_DEP = "C13-graph-false-dependency"
BOUND_LEAF = "C13-binding-to-hidden-not-root"
TABLE_LOOP = "C13-table-self-loop"
ROOT_SPAN = "C13-table-rootspan"
BY_LAZY = "C13-by-graph-misses-unregistered"


def judge_project(S: Spec, cls: str, nodes: set, edges):
    """project-wide graph of class `cls` against the relation of `S` -> (holds, finding id(s) | None, text)"""
    succ = S.succ(cls)
    gf = S.graph_false
    roots = project_roots(S, cls)
    maxn = max([1] + [S.limits[r][1] for r in roots if r in S.limits])
    clean = lambda n: [(c, e) for c, e in succ(n) if c not in gf]  # noqa
    exp = expected_graph(clean, roots, 1, maxn, False)
    exp_edges = norm_edges(S, cls, exp[1])
    got = (nodes, norm_edges(S, cls, edges))
    if got == (exp[0], exp_edges):
        return True, None, ""
    fid = None
    # the graph the listed defects produce: `graph: false` entities kept as non-root dependencies, and / or
    # bindings to hidden procedures drawn only as callees (not as roots with their own edges)
    roots_nb = project_roots(S, cls, drop_kept_bindings=True) if cls == "call" else roots
    for keep_gf, drop_b in ((True, False), (False, True), (True, True)):
        if (keep_gf and not gf) or (drop_b and len(roots_nb) == len(roots)):
            continue
        rs = roots_nb if drop_b else roots
        mx = max([1] + [S.limits[r][1] for r in rs if r in S.limits])
        asis = expected_graph(succ if keep_gf else clean, rs, 1, mx, False)
        if got == (asis[0], norm_edges(S, cls, asis[1])):
            fids = tuple(f for f, on in ((GF_DEP, keep_gf), (BOUND_LEAF, drop_b)) if on)
            fid = fids[0] if len(fids) == 1 else fids
            break
    if fid is None and cls == "call":
        hop = [c for r in roots for c, _ in succ(r)]
        if got == (set(roots), []) and len(set(hop)) + len(set(roots)) > maxn >= len(set(hop) | set(roots)):
            fid = "C13-callgraph-counts-roots-twice"
    return False, fid, (f"project-wide {cls} graph: nodes +{sorted(nodes - exp[0])} -{sorted(exp[0] - nodes)}; "
                        f"edges +{sorted(set(got[1]) - set(exp_edges))} -{sorted(set(exp_edges) - set(got[1]))}")


def judge_entity(S: Spec, root: str, cls: str, nodes: set, edges, cache: dict):
    """per-entity graph against the relation of `S` -> (holds, finding id | None, text)"""
    d, n = S.limits[root]
    succ = S.succ(cls)
    exp = expected_graph(succ, [root], d, n, True)
    exp_edges = norm_edges(S, cls, exp[1])
    got = (nodes, norm_edges(S, cls, edges))
    if got == (exp[0], exp_edges):
        return True, None, ""
    fid = None
    if cls in ("usedby", "inheritedby", "calledby", "afferent"):
        if "eager" not in cache:
            cache["eager"] = eager_nodes(S)
        eager = cache["eager"]
        lazy = lambda m: [(c, e) for c, e in succ(m) if c in eager]  # noqa
        asis = expected_graph(lazy, [root], d, n, True)
        if got == (asis[0], norm_edges(S, cls, asis[1])):
            fid = "C13-by-graph-misses-unregistered"
    return False, fid, (f"{cls} graph of {root} (maxdepth {d}, maxnodes {n}): nodes +{sorted(nodes - exp[0])} "
                        f"-{sorted(exp[0] - nodes)}; edges +{sorted(set(got[1]) - set(exp_edges))} "
                        f"-{sorted(set(exp_edges) - set(got[1]))}")


def short_name(ident: str) -> str:
    return ident.split("~", 1)[1] if "~" in ident else ident


def label_scopes(A: Abs, S: Spec) -> dict:
    """ident of a procedure -> name of the scope it is declared in (only where the abstract project says it
    directly: procedures of modules, submodules and programs, internal procedures)"""
    out = {}
    for m in A.mods:
        for p in m["procs"] + m.get("mpimpls", []):
            out[f"proc~{p['name']}"] = m["name"]
    for sm in A.subs:
        for p in sm["impls"]:
            out[f"proc~{p['name']}"] = sm["name"]
    for g in A.progs:
        for p in g["procs"]:
            out[f"proc~{p['name']}"] = g["name"]
    for ident, hident in S.internal_of.items():
        out[ident] = short_name(hident)
    return out


def judge_node_labels(A: Abs, S: Spec, o: dict, scopes: dict, known_procs: set):
    """The text a node carries (documented: the entity's name; `show_proc_parent: true` puts the name of the scope a
    procedure is declared in and `::` in front of it - and only that option does; a type-bound procedure is
    written `type%name`).  -> why | None"""
    sp = bool(A.opts.get("show_proc_parent"))
    for ident, lb in o["node_labels"].items():
        if lb is None:
            return f"the node {ident} has no label"
        kind = S.kind.get(ident)
        if kind in ("m", "s", "t", "g", "f", "d"):
            if lb != short_name(ident):
                return f"the node {ident} is labelled {lb!r}, documented: its name"
        elif ident in known_procs:
            if lb.split("::")[-1].split("%")[-1] != short_name(ident):
                return f"the procedure node {ident} is labelled {lb!r}: not its name"
            if ("::" in lb) != sp:
                return (f"the procedure node {ident} is labelled {lb!r} with show_proc_parent={sp}: the scope is shown "
                        f"exactly when the option is on")
            if sp and ident in scopes and lb.split("::")[0] != scopes[ident]:
                return f"the procedure node {ident} is labelled {lb!r}, it is declared in {scopes[ident]}"
        elif "::" in lb and not sp:
            return f"the node {ident} is labelled {lb!r} although show_proc_parent is off"
    return None


def judge_span(cls: str, root: str, o: dict):
    """The table fall-back of a graph whose rows are the documented ones: the cell that holds the root spans all the
    rows of the table ("the root node takes up one column and spans all rows"): every row is written beside the root,
    none below it.  -> (None | text, finding id | None)"""
    if o["shown"] != "t":
        return None, None
    span, trs = o["span"]
    if trs <= span <= trs + 1 and trs == 2 * len(o["rows"]):
        return None, None
    # class of C13-table-rootspan: more kept edges than kept nodes (two relations to one entity, an edge from the
    # root to itself), and the span is the one computed from the nodes
    fid = ROOT_SPAN if (len(o["hop_edges"]) > len(o["hop_nodes"]) and span == 2 * len(o["hop_nodes"]) + 1
                        and trs == 2 * len(o["hop_edges"])) else None
    return (f"table of the {cls} graph of {root}: {len(o['rows'])} rows ({trs} <tr>), the cell of the root spans "
            f"{span} of them"), fid


def judge_shown(S: Spec, root: str, cls: str, o: dict, cache: dict):
    """How the graph appears on its page (`__str__`), judged for a graph whose content is the documented one:
    nothing when there is nothing but the entity itself (or the roots alone exceed the node limit); the table
    fall-back - one row per entity one step away, with the style of the edge - when the entity's first hop
    does not fit within graph_maxnodes; the picture otherwise.  -> (None | text, finding id(s) | None)"""
    if root == "proj":
        gf = S.graph_false
        succ0 = S.succ(cls)
        succ = lambda n: [(c, e) for c, e in succ0(n) if c not in gf]  # noqa
        roots = list(dict.fromkeys(project_roots(S, cls)))
        d, nested = 1, False
        maxn = max([1] + [S.limits[r][1] for r in roots if r in S.limits])
    else:
        succ = S.succ(cls)
        roots, nested = [root], True
        d, maxn = S.limits[root]

    def expect(sc):
        exp = expected_graph(sc, roots, d, maxn, nested)
        if len(roots) > maxn:
            return "n", [], set()
        if exp[2] == 1 and len(roots) == 1:
            rows, free = [], set()
            for _, (t, h, st) in sc(roots[0]):
                other = h if t == roots[0] else t
                if cls == "calledby" and S.kind.get(t) == "b":
                    free.add(short_name(other))      # (style of generic-binding edges in "called by" is not judged)
                rows.append((short_name(other), st))
            return "t", rows, free
        return ("s" if len(exp[0]) > 1 else "n"), [], set()

    def agrees(want, rows, free, renamed=False):
        if o["shown"] != want:
            return False
        if renamed:     # the table of finding C13-table-self-loop: every row names the root
            rows = [(short_name(roots[0]), st) for _, st in rows]
            free = {short_name(roots[0])} if free else set()
        norm = lambda rs: sorted((n, "*" if n in free else st) for n, st in rs)  # noqa
        return norm(rows) == norm(tuple(r) for r in o["rows"])

    want, rows, free = expect(succ)
    if agrees(want, rows, free):
        return judge_span(cls, root, o)
    by_class = root != "proj" and cls in ("usedby", "inheritedby", "calledby", "afferent")
    loop = lambda sc: by_class and any(t == h for _, (t, h, _) in sc(roots[0]))  # noqa
    fid = None
    if want == "t" and loop(succ) and agrees(want, rows, free, renamed=True):
        fid = TABLE_LOOP
    elif by_class:
        if "eager" not in cache:
            cache["eager"] = eager_nodes(S)
        eager = cache["eager"]
        lazy = lambda m: [(c, e) for c, e in succ(m) if c in eager]  # noqa
        w2, r2, f2 = expect(lazy)
        if agrees(w2, r2, f2):
            fid = BY_LAZY
        elif w2 == "t" and loop(lazy) and agrees(w2, r2, f2, renamed=True):
            fid = (BY_LAZY, TABLE_LOOP)
    names = {"n": "not shown", "t": "shown as a table", "s": "shown as a picture", "?": "unrecognised text"}
    if o["shown"] != want:
        return (f"{cls} graph of {root} (maxnodes {maxn}) is {names.get(o['shown'], o['shown'])}, documented: "
                f"{names[want]}"), fid
    return (f"table of the {cls} graph of {root} (maxnodes {maxn}): rows {sorted(tuple(r) for r in o['rows'])}, documented "
            f"(every entity one step away, with the style of its edge): {sorted(rows)}"), fid


MODPROC_IMPL = "C13-modproc-impl-no-edge"


GRAPH_CLASS_NAME = {"uses": "UsesGraph", "usedby": "UsedByGraph", "inherits": "InheritsGraph",
                    "inheritedby": "InheritedByGraph", "calls": "CallsGraph", "calledby": "CalledByGraph",
                    "afferent": "AfferentGraph", "efferent": "EfferentGraph", "module": "ModuleGraph",
                    "type": "TypeGraph", "call": "CallGraph", "file": "FileGraph"}


def file_name(root: str, cls: str) -> str:
    """name of the file `graph_dir` gets for a graph: <directory of the entity's page>~~<ident>~~<graph class>.gv"""
    if root == "proj":
        return f"{cls}~~graph~~{GRAPH_CLASS_NAME[cls]}.gv"
    return f"{root.replace('~', '~~', 1)}~~{GRAPH_CLASS_NAME[cls]}.gv"


def judge_files(S: Spec | None, obs: dict, saved: dict, unjudged: set):
    """The graph files of `graph_dir` (`GraphManager.output_graphs`): a graph is saved as
    <dir>~~<ident>~~<class>.gv, the file holds the same nodes and edges as the graph on the page (whose
    content the oracle judges against the relation), and no other graph file is written (none for
    `graph: false`, none under the name of another entity or class)."""
    fails = []
    expected = {}
    for label, o in obs.items():
        root, cls = label.rsplit(":", 1)
        name = file_name(root, cls)
        if o["file"] != name:
            fails.append((label, f"the graph is saved as {o['file']}, documented: {name}", None))
        expected[o["file"]] = (label, o)
    for fname, content in saved.items():
        if content is None:
            fails.append((fname, f"graph_dir holds {fname}, which is no graph file", None))
        elif fname not in expected:
            fails.append((fname, f"graph file {fname} belongs to no graph of a documented entity", None))
    for fname, (label, o) in expected.items():
        # (which graphs get a file at all - FORD writes those that show more than their roots, except the
        # "uses" graphs of procedures - is a matter of output completeness, not of this property: not judged)
        if saved.get(fname):
            nodes, edges = saved[fname]
            if nodes != sorted(set(o["dot_nodes"])) or edges != sorted(tuple(e) for e in o["edges"]):
                fails.append((label, f"{fname} holds nodes {nodes} edges {edges}, the graph on the page "
                                     f"{sorted(set(o['dot_nodes']))} / {sorted(tuple(e) for e in o['edges'])}", None))
    return fails


def oracle(A: Abs, S: Spec, obs: dict, saved: dict | None = None):
    """-> list of (label, why, finding id | tuple of finding ids | None).  A tuple means: the observed
    graph is the documented one only after *all* of these listed defects are taken into account."""
    fails = [] if saved is None else judge_files(S, obs, saved, set())
    labels = set(obs)
    # the relation of finding C13-modproc-impl-no-edge, only consulted to classify a failure
    S2 = Spec(A, drop_proc_form_impl=True) if S.proc_form_impl_edges else None
    # graph: false removes the entity's own graphs; everything else has its graphs
    for ident, kind in S.kind.items():
        for cls in CLASSES_OF_KIND.get(kind, []):
            has = f"{ident}:{cls}" in labels
            if ident in S.graph_false and has:
                fails.append((f"{ident}:{cls}", "entity with graph: false has a graph", None))
            if ident not in S.graph_false and not has:
                fails.append((f"{ident}:{cls}", "documented entity has no graph object", None))
    cache, cache2 = {}, {}
    scopes = label_scopes(A, S)
    known_procs = {ident for ident, k in S.kind.items() if k in ("p", "i", "b", "n")} | {i for _, i in S.procs.values()}
    for label, o in sorted(obs.items()):
        root, cls = label.rsplit(":", 1)
        w = judge_node_labels(A, S, o, scopes, known_procs)
        if w:
            fails.append((label, w, None))
        # no dangling edge
        nodes = set(o["dot_nodes"])
        for t, h, s in o["edges"]:
            if t not in nodes or h not in nodes:
                fails.append((label, f"dangling edge {t}->{h}", None))
                break
        if set(o["added"]) != nodes:
            fails.append((label, "graph.added differs from the nodes drawn", None))
        if root != "proj" and root not in S.limits:
            fails.append((label, "graph for an entity the generator does not know", None))
            continue
        if root == "proj":
            judge = lambda X, c: judge_project(X, cls, nodes, o["edges"])  # noqa
        else:
            judge = lambda X, c: judge_entity(X, root, cls, nodes, o["edges"], c)  # noqa
        ok, fid, why = judge(S, cache)
        if ok:
            w, wfid = judge_shown(S, root, cls, o, cache)
            if w:
                fails.append((label, w, wfid))
            if cls in ("type", "inherits", "inheritedby"):
                # composition edges say through which components: "c0, c1" in declaration order; no other edge is labelled
                want = sorted((t, h, ", ".join(S.comp_labels[(t, h)])) for t, h, st in o["edges"] if st == "d")
                if want != sorted(tuple(x) for x in o["edge_labels"]):
                    fails.append((label, f"{cls} graph of {root}: edge labels {o['edge_labels']}, documented (names of the "
                                         f"components, per composition edge): {want}", None))
            continue
        if fid is None and S2 is not None:
            ok2, fid2, _ = judge(S2, cache2)
            if ok2:
                fid = MODPROC_IMPL
            elif fid2 is not None:
                fid = (MODPROC_IMPL,) + (fid2 if isinstance(fid2, tuple) else (fid2,))
        fails.append((label, why, fid))
    # "by" graphs are the inverses of their counterparts (first hop, both drawn, none refused)
    for fcls, bcls in INVERSE_PAIRS:
        F = {l.rsplit(":", 1)[0]: o for l, o in obs.items() if l.endswith(":" + fcls)}
        B = {l.rsplit(":", 1)[0]: o for l, o in obs.items() if l.endswith(":" + bcls)}
        for a, o in F.items():
            if o["truncated"] == 1 and len(o["dot_nodes"]) == 1:
                continue
            for t, h, _ in o["edges"]:
                if t == a and h in B and not (B[h]["truncated"] == 1 and len(B[h]["dot_nodes"]) == 1):
                    if not any(t2 == a and h2 == h for t2, h2, _ in B[h]["edges"]):
                        fails.append((f"{h}:{bcls}", f"{a}->{h} is in the {fcls} graph of {a} but not in the {bcls} graph of {h}", None))
        for b, o in B.items():
            if o["truncated"] == 1 and len(o["dot_nodes"]) == 1:
                continue
            for t, h, _ in o["edges"]:
                if h == b and t in F and not (F[t]["truncated"] == 1 and len(F[t]["dot_nodes"]) == 1):
                    if not any(t2 == t and h2 == b for t2, h2, _ in F[t]["edges"]):
                        fails.append((f"{t}:{fcls}", f"{t}->{b} is in the {bcls} graph of {b} but not in the {fcls} graph of {t}", None))
    return fails


def names_obs(obs: dict, tab: Table) -> dict:
    """the same observation with idents instead of table indices"""
    nm = lambda x: tab.rows[x]["name"] if isinstance(x, int) else x  # noqa
    out = {}
    for label, o in obs.items():
        root, cls = label.rsplit(":", 1)
        if root != "proj":
            root = nm(int(root))
        out[f"{root}:{cls}"] = {
            "dot_nodes": [nm(x) for x in o["dot_nodes"]], "added": [nm(x) for x in o["added"]],
            "edges": [(nm(t), nm(h), s) for t, h, s in o["edges"]], "truncated": o["truncated"],
            "shown": o["shown"], "rows": o["rows"], "file": o["file"], "nroots": o["nroots"],
            "edge_labels": o["edge_labels"], "node_labels": o["node_labels"], "span": o["span"],
            "hop_nodes": [nm(x) for x in o["hop_nodes"]],
            "hop_edges": [(nm(t), nm(h), st) for t, h, st in o["hop_edges"]],
        }
    return out


# --------------------------------------------------------------------------
# micro stream: get_call_nodes on stub objects
# --------------------------------------------------------------------------


def micro_callnodes(ford, drv, rng, n, rep):
    import ford.graphs as G
    import ford.sourceform as sf

    reqs, exps, cases = [], [], []
    for _ in range(n):
        k = rng.randint(1, 7)
        objs, rows = [], []
        for i in range(k):
            if rng.random() < 0.15:
                objs.append(f"ext{i}")
            elif rng.random() < 0.4:
                objs.append(object.__new__(sf.FortranBoundProcedure))
            else:
                objs.append(object.__new__(sf.FortranSubroutine))
        for i, o in enumerate(objs):
            r = dict(kind="x" if isinstance(o, str) else "p", ptype="o", visible=True, visibleF=False,
                     isBound=isinstance(o, sf.FortranBoundProcedure), deferred=False, extUrl=False, graph=True,
                     uses=[], anc=None, comps=[], calls=[], bindings=[], modprocs=[], impl=None, deps=[],
                     boundprocs=[], internals=[], maxDepth=0, maxNodes=1)
            if not isinstance(o, str):
                o.name = f"n{rng.randrange(3)}"     # names collide: entities are told apart by identity only
                if rng.random() < 0.85:
                    o.visible = rng.random() < 0.55
                    r["visible"] = r["visibleF"] = o.visible
                if r["isBound"]:
                    nb = rng.choice([0, 1, 1, 1, 2])
                    r["bindings"] = [rng.randrange(k) for _ in range(nb)]
                    o.bindings = [objs[j] for j in r["bindings"]]
                    o.deferred = rng.random() < 0.3
                    r["deferred"] = o.deferred
                else:
                    r["calls"] = [rng.randrange(k) for _ in range(rng.choice([0, 1, 2, 3]))]
                    o.calls = [objs[j] for j in r["calls"]]
            rows.append(r)
        # the node constructors ask once per procedure, over the same objects: a sequence of call lists is
        # put to the real function one after the other (the model answers each one on its own: the nodes that
        # stand in for a call list do not depend on what was asked before), and the first is asked again last
        seq = [[rng.randrange(k) for _ in range(rng.randint(1, 3))] for _ in range(rng.choice([1, 2, 3, 4]))]
        seq.append(list(seq[0]))
        enc = [Table.encode(r) for r in rows]
        for pos, calls in enumerate(seq):
            got = G.get_call_nodes([objs[j] for j in calls])
            exps.append(sorted(i for i, o in enumerate(objs) if any(o is g for g in got)))
            reqs.append(["c13.callnodes", ",".join(map(str, calls))] + enc)
            cases.append((calls, enc, seq[:pos]))
    bad = 0
    for (calls, enc, before), e, m in zip(cases, exps, drv.batch(reqs)):
        mm = sorted(int(x) for x in m[1].split(",")) if len(m) > 1 and m[1] else []
        if m[0] != "ok" or mm != e:
            bad += 1
            rep.tie_broken(f"correspondence micro/get_call_nodes: model {m} vs implementation {e}"
                           + (f" (asked after {before} over the same objects)" if before else ""),
                           {"stream": "micro", "calls": calls, "asked_before": before, "table": enc,
                            "impl": e, "model": m})
    return len(reqs), bad


# --------------------------------------------------------------------------
# labels of composition edges (round 6): `comp_types` / `comp_of` of the real type nodes and the labels in
# the DOT source, against `compLoop` / `compOfLoop` / `edgeLabel` of the model (driver `c13.complabels`)
# --------------------------------------------------------------------------


def observe_labels(gm, tab: Table) -> dict:
    """eid of a type -> {"types": [(eid of component type, label)] in dict order,
                         "of": [(eid of component type, label stored on that node for this type)]}
    (`of` only for component types that are entities of the project: a type known by name only gets one node
    object per occurrence and has no "inherited by" graph)"""
    out = {}
    nm = lambda n: tab.ids.get(n.ident, n.ident)  # noqa
    for node in gm.data.types.values():
        if getattr(node, "fromstr", False):
            continue
        out[nm(node)] = {
            "types": [(nm(t), lb) for t, lb in node.comp_types.items()],
            "of": [(nm(t), t.comp_of.get(node)) for t in node.comp_types if not getattr(t, "fromstr", False)],
        }
    return out


def label_requests(tab: Table) -> list:
    return [(a, ["c13.complabels", ",".join(map(str, r["comps"]))])
            for a, r in enumerate(tab.rows) if r["kind"] == "t" and not r["extUrl"] and r["comps"]]


def parse_labels(field: str, names: list) -> list:
    out = []
    for x in field.split(","):
        if x:
            k, l = x.split(":")
            out.append((int(k), ", ".join(names[int(i)] for i in l.split("."))))
    return out


def compare_labels(tab: Table, label_obs: dict, obs: dict, reqs: list, resps: list) -> list[str]:
    diffs, model, asked = [], {}, set()
    for (a, _), resp in zip(reqs, resps):
        asked.add(a)
        name, names = tab.rows[a]["name"], tab.rows[a]["compnames"]
        if not resp or resp[0] != "ok":
            diffs.append(f"labels of {name}: model answered {resp}")
            continue
        mt = parse_labels(resp[1] if len(resp) > 1 else "", names)
        mo = [(t, lb) for t, lb in parse_labels(resp[2] if len(resp) > 2 else "", names) if tab.rows[t]["kind"] != "x"]
        if a not in label_obs:
            continue        # no node object was made for this type (`graph: false` and nothing depends on it)
        it = label_obs[a]
        if mt != it["types"]:
            diffs.append(f"comp_types of {name} (component type, names of the components): model {mt} impl {it['types']}")
        if mo != it["of"]:
            diffs.append(f"comp_of entries for {name} on its component types: model {mo} impl {it['of']}")
        for t, lb in mt:
            model[(a, t)] = lb
    for a, it in label_obs.items():
        if a not in asked and (it["types"] or it["of"]):
            diffs.append(f"comp_types of {tab.rows[a]['name'] if isinstance(a, int) else a}: the entity has no "
                         f"component of derived type, impl {it['types']}")
    for label, o in obs.items():
        cls = label.rsplit(":", 1)[1]
        got = sorted(((tab.ids.get(t, t), tab.ids.get(h, h), lb) for t, h, lb in o["edge_labels"]), key=repr)
        if cls in ("type", "inherits", "inheritedby"):
            want = sorted(((t, h, model.get((t, h))) for t, h, st in o["edges"] if st == "d"), key=repr)
        else:
            want = []
        if want != got:
            diffs.append(f"{label}: labels of the edges in the DOT source {got}, model {want}")
    return diffs


def micro_labels(ford, drv, rng, n, rep):
    """the real `TypeNode.__init__` (real `GraphData`) on stub types with random component lists - several
    components of the same type, of the type itself, of types known by name only, unlimited polymorphic ones,
    components that are no derived types - and the real "inherits" / "inherited by" graphs over them: the dicts
    `comp_types` / `comp_of` (order and labels) and the labels in the DOT source must be what the model says"""
    import types as pytypes

    import graphviz
    import ford.graphs as G
    import ford.sourceform as sf
    from translate import c13 as T

    probe = T._CtorProbe(ford)
    real_pipe = graphviz.Digraph.pipe
    graphviz.Digraph.pipe = lambda self, *a, **k: b'<svg width="10pt" height="10pt"></svg>'
    reqs, cases = [], []
    hist = {"same-type-twice": 0, "self-component": 0, "named-only": 0, "extends-and-contains": 0, "no-component": 0}
    try:
        for _ in range(n):
            meta = pytypes.SimpleNamespace(graph_maxdepth=3, graph_maxnodes=100, graph=True)
            k = rng.randint(1, 4)
            targets = [probe.stub(sf.FortranType, meta=meta) for _ in range(k)]
            named = [f"xt{i}" for i in range(2)]
            variables, comps, names = [], [], []
            self_ref = rng.random() < 0.2
            for i in range(rng.choice([0, 1, 2, 3, 4, 5, 6, 8])):
                vt = rng.choice(["type", "type", "class", "class", "integer", "real"])
                x = rng.random()
                if x < 0.1:
                    proto, tid = "*", None
                elif x < 0.2:
                    j = rng.randrange(len(named))
                    proto, tid = named[j], k + 1 + j
                elif x < 0.3 and self_ref:
                    proto, tid = "self", k
                else:
                    j = rng.randrange(k)
                    proto, tid = targets[j], j
                name = f"c{rng.randrange(5)}" if rng.random() < 0.2 else f"v{i}"   # names may repeat: labels are text
                variables.append((vt, name, proto))
                if vt in ("type", "class") and proto != "*":
                    comps.append(tid)
                    names.append(name)
            ext = rng.choice([None, None] + list(range(k)))
            obj = probe.stub(sf.FortranType, meta=meta, extends=None if ext is None else targets[ext])
            obj.local_variables = [pytypes.SimpleNamespace(vartype=vt, name=nm_, proto=[obj if pr == "self" else pr])
                                   for vt, nm_, pr in variables]
            ents = targets + [obj]
            gd = G.GraphData("..", False, False)
            node = gd.get_node(obj)

            def idx(nd_):
                for i, e in enumerate(ents):
                    if nd_.ident == f"stub~{e.ident}":
                        return i
                return k + 1 + named.index(nd_.ident)

            it = [(idx(t), lb) for t, lb in node.comp_types.items()]
            io = [(idx(t), t.comp_of.get(node)) for t in node.comp_types if not t.fromstr]
            dot = {}
            g = G.InheritsGraph(obj, gd)
            dot["inherits"] = sorted(((idx_s(t, ents, named, k), idx_s(h, ents, named, k), st[0], lb)
                                      for t, h, st, lb in parse_dot(g.dot.source)[1]), key=repr)
            by = {}
            for j in sorted({c for c in comps if c < k}):
                gb = G.InheritedByGraph(targets[j], gd)
                by[j] = sorted(((idx_s(t, ents, named, k), idx_s(h, ents, named, k), st[0], lb)
                                for t, h, st, lb in parse_dot(gb.dot.source)[1]), key=repr)
            if len(set(comps)) < len(comps):
                hist["same-type-twice"] += 1
            if k in comps:
                hist["self-component"] += 1
            if any(c > k for c in comps):
                hist["named-only"] += 1
            if ext is not None and ext in comps:
                hist["extends-and-contains"] += 1
            if not comps:
                hist["no-component"] += 1
            reqs.append(["c13.complabels", ",".join(map(str, comps))])
            cases.append(dict(components=[(vt, nm_, pr if isinstance(pr, str) else f"t{targets.index(pr)}")
                                          for vt, nm_, pr in variables],
                              extends=ext, comps=comps, names=names, k=k, impl_types=it, impl_of=io, dot=dot, by=by))
    finally:
        graphviz.Digraph.pipe = real_pipe
    bad = 0
    for c, resp in zip(cases, drv.batch(reqs)):
        k, names, comps = c["k"], c["names"], c["comps"]
        mt = parse_labels(resp[1] if len(resp) > 1 else "", names)
        mo = [(t, lb) for t, lb in parse_labels(resp[2] if len(resp) > 2 else "", names) if t <= k]
        lab = dict(mt)
        # edges of the "inherits" graph of the new type, from the model's relation: one dashed edge per key of the
        # dict with its label, the solid extension edge without (second hops: the targets have no relations)
        want = sorted([(k, t, "d", lb) for t, lb in mt] + ([(k, c["extends"], "s", None)] if c["extends"] is not None else []),
                      key=repr)
        # self-component: the second hop expands the type again only if it was not yet drawn - it is the root
        why = None
        if resp[0] != "ok":
            why = f"model answered {resp}"
        elif mt != c["impl_types"]:
            why = f"comp_types: model {mt} impl {c['impl_types']}"
        elif mo != c["impl_of"]:
            why = f"comp_of: model {mo} impl {c['impl_of']}"
        elif want != c["dot"]["inherits"]:
            why = f"edges (tail, head, style, label) of the inherits graph: model {want} impl {c['dot']['inherits']}"
        else:
            for j, edges in c["by"].items():
                wantb = sorted([(k, j, "d", lab[j])] + ([(k, j, "s", None)] if c["extends"] == j else []), key=repr)
                if k in comps:      # the new type contains itself: its own inherited-by hop is drawn below it
                    wantb = sorted(set(wantb + [(k, k, "d", lab[k])]), key=repr)
                if wantb != edges:
                    why = f"edges of the inherited-by graph of t{j}: model {wantb} impl {edges}"
                    break
        if why:
            bad += 1
            rep.tie_broken("correspondence micro/composition labels: " + why, dict(c, stream="micro-labels", model=resp))
    return len(reqs), bad, hist


def idx_s(ident: str, ents, named, k):
    for i, e in enumerate(ents):
        if ident == f"stub~{e.ident}":
            return i
    return k + 1 + named.index(ident)


# --------------------------------------------------------------------------
# labels of procedure nodes (round 6): `ProcNode.__init__` against `procLabel` (driver `c13.proclabel`)
# --------------------------------------------------------------------------


def label_inputs(sf, obj, node) -> dict:
    """what `ProcNode.__init__` reads for the label of the node of `obj`, besides `self.name` (left by
    `BaseNode.__init__`, not modelled): the scope and the type the procedure is bound to"""
    if isinstance(obj, sf.FortranBoundProcedure):
        binder = getattr(obj, "parent", None)
        parent = getattr(binder, "parent", None)
    else:
        parent = getattr(obj, "parent", None)
        binder = getattr(getattr(obj, "binding", None), "parent", None)
    return {"name": node.name, "parent": parent.name if parent else None, "binder": binder.name if binder else None}


def proclabel_request(show_parent: bool, li: dict) -> list:
    return ["c13.proclabel", "1" if show_parent else "0", "0" if li["parent"] is None else "1",
            "0" if li["binder"] is None else "1", li["name"], li["parent"] or "-", li["binder"] or "-"]


def observe_proc_labels(gm, tab: Table, sf) -> list:
    """[(ident, inputs of the label, label the real node carries)] for every procedure node"""
    out = []
    for obj, node in gm.data.procedures.items():
        out.append((node.ident, label_inputs(sf, obj, node), node.attribs.get("label")))
    return out


def compare_proc_labels(show_parent: bool, proc_obs: list, obs: dict, resps: list) -> list[str]:
    diffs, model = [], {}
    for (ident, li, real), resp in zip(proc_obs, resps):
        if not resp or resp[0] != "ok":
            diffs.append(f"label of {ident}: model answered {resp}")
            continue
        m = resp[1] if len(resp) > 1 else ""
        model[ident] = m
        if m != real:
            diffs.append(f"label of the node {ident} (show_proc_parent={show_parent}, read {li}): model {m!r} impl {real!r}")
    for label, o in obs.items():
        for ident, lb in o["node_labels"].items():
            if ident in model and lb != model[ident]:
                diffs.append(f"{label}: the DOT source labels {ident} {lb!r}, model {model[ident]!r}")
                break
    return diffs


def micro_proclabels(ford, drv, rng, n, rep):
    """the real `ProcNode.__init__` (real `GraphData`, both values of `show_proc_parent`) on stub procedures and
    type-bound procedures with and without a scope, a type, a binding that names them; names collide on purpose"""
    import types as pytypes

    import ford.graphs as G
    import ford.sourceform as sf
    from translate import c13 as T

    probe = T._CtorProbe(ford)
    reqs, cases = [], []
    hist = {"bound": 0, "named-by-binding": 0, "no-scope": 0, "show_proc_parent": 0, "by-name-only": 0}
    nm = lambda: rng.choice(["run", "go", "a", "b", "m0", "t0", "init_x", "p1"])  # noqa
    for _ in range(n):
        sp = rng.random() < 0.5
        gd = G.GraphData("..", False, sp)
        hist["show_proc_parent"] += sp
        x = rng.random()
        if x < 0.1:
            obj = sf.ExternalSubroutine(nm())
            hist["by-name-only"] += 1
        elif x < 0.45:
            scope = None if rng.random() < 0.15 else pytypes.SimpleNamespace(name=nm(), parent=None, visible=True)
            typ = None if rng.random() < 0.1 else pytypes.SimpleNamespace(name=nm(), parent=scope, visible=True)
            obj = probe.stub(sf.FortranBoundProcedure, name=nm(), parent=typ)
            hist["bound"] += 1
        else:
            scope = None if rng.random() < 0.2 else pytypes.SimpleNamespace(name=nm(), parent=None)
            obj = probe.stub(rng.choice([sf.FortranSubroutine, sf.FortranFunction]), name=nm(), parent=scope)
            if rng.random() < 0.4:
                typ = None if rng.random() < 0.2 else pytypes.SimpleNamespace(name=nm())
                obj.binding = pytypes.SimpleNamespace(parent=typ, name=nm())
                hist["named-by-binding"] += 1
            if scope is None:
                hist["no-scope"] += 1
        node = gd.get_node(obj)
        li = label_inputs(sf, obj, node)
        reqs.append(proclabel_request(sp, li))
        cases.append(dict(show_proc_parent=sp, read=li, impl=node.attribs.get("label"),
                          cls=type(obj).__mro__[1].__name__))
    bad = 0
    for c, resp in zip(cases, drv.batch(reqs)):
        if resp[0] != "ok" or (resp[1] if len(resp) > 1 else "") != c["impl"]:
            bad += 1
            rep.tie_broken(f"correspondence micro/procedure labels: model {resp} impl {c['impl']!r} for {c['read']} "
                           f"(show_proc_parent={c['show_proc_parent']})", dict(c, stream="micro-proclabels", model=resp))
    return len(reqs), bad, hist


# --------------------------------------------------------------------------
# fixed witnesses of the known findings (met on every run)
# --------------------------------------------------------------------------

WITNESSES = {
    "C13-graph-false-dependency": (
        {"a.f90": "module m0\n  !! graph: false\nend module m0\n\nmodule m1\n  use m0\nend module m1\n"}, {}),
    "C13-by-graph-misses-unregistered": (
        {"a.f90": "module m0\nend module m0\n\nmodule m1\n  !! graph: false\n  use m0\nend module m1\n"}, {}),
    "C13-callgraph-counts-roots-twice": (
        {"a.f90": "module m0\ncontains\n  subroutine p0()\n    call p1()\n  end subroutine p0\n"
                  "  subroutine p1()\n    call p0()\n  end subroutine p1\nend module m0\n"}, {"graph_maxnodes": 3}),
    "C13-modproc-impl-no-edge": (
        {"a.f90": "module m0\n  implicit none\n  interface\n    module subroutine sp0()\n    end subroutine sp0\n"
                  "  end interface\nend module m0\n\nsubmodule (m0) s0\ncontains\n  module procedure sp0\n"
                  "  end procedure sp0\nend submodule s0\n"}, {"display": ["public", "protected", "private"]}),
    "C13-binding-to-hidden-not-root": (
        {"a.f90": "module m0\n  implicit none\n  private :: h0\n  type :: t0\n  contains\n"
                  "    procedure, nopass :: b0 => h0\n  end type t0\ncontains\n"
                  "  subroutine p0()\n    type(t0) :: v0\n    call v0%b0()\n  end subroutine p0\n"
                  "  subroutine h0()\n    call p1()\n  end subroutine h0\n"
                  "  subroutine p1()\n  end subroutine p1\nend module m0\n"}, {}),
    "C13-table-rootspan": (
        {"a.f90": "module m0\n  type :: t0\n    integer :: i\n  end type t0\n  type, extends(t0) :: t1\n"
                  "    type(t0) :: c0\n  end type t1\nend module m0\n"}, {"graph_maxnodes": 1}),
    "C13-table-self-loop": (
        {"a.f90": "module m0\ncontains\n  subroutine p0()\n    call p0()\n  end subroutine p0\n"
                  "  subroutine p1()\n    call p0()\n  end subroutine p1\n"
                  "  subroutine p2()\n    call p0()\n  end subroutine p2\nend module m0\n"}, {"graph_maxnodes": 1}),
}


def witness_abs(fid: str) -> Abs:
    A = Abs()
    mk = lambda n, uses=(), meta=None, procs=(): dict(name=n, uses=list(uses), types=[], procs=list(procs),  # noqa
                                                        gifaces=[], mpis=[], meta=meta or {})
    pr = lambda n, calls: dict(name=n, calls=[("proc", c) for c in calls], uses=[], private=False, locals=[],  # noqa
                               internal=[], meta={})
    if fid == "C13-graph-false-dependency":
        A.mods = [mk("m0", meta={"graph": "false"}), mk("m1", ["m0"])]
    elif fid == "C13-by-graph-misses-unregistered":
        A.mods = [mk("m0"), mk("m1", ["m0"], {"graph": "false"})]
    elif fid == "C13-modproc-impl-no-edge":
        A.mods = [dict(mk("m0"), mpis=[dict(name="sp0", fn=False, where="sub")])]
        A.subs = [dict(name="s0", parent="m0", mod="m0", uses=[], meta={},
                       impls=[dict(pr("sp0", []), private=True, fn=False, form="proc")])]
        A.opts = {"display": ["public", "protected", "private"]}
        A.show_private = True
    elif fid == "C13-binding-to-hidden-not-root":
        p0 = dict(pr("p0", []), calls=[("tb", "v0", "b0")], locals=[("v0", "t0")])
        A.mods = [dict(mk("m0", procs=[p0, dict(pr("h0", ["p1"]), private=True, bound=True), pr("p1", [])]),
                       types=[dict(name="t0", extends=None, comps=[], binds=[("b0", "h0")], generics=[], meta={})])]
    elif fid == "C13-table-rootspan":
        ty = lambda n, ext, comps: dict(name=n, extends=ext, comps=comps, binds=[], generics=[], meta={})  # noqa
        A.mods = [dict(mk("m0"), types=[ty("t0", None, []), ty("t1", "t0", [("c0", "t0", False)])])]
        A.opts = {"graph_maxnodes": 1}
    elif fid == "C13-table-self-loop":
        A.mods = [mk("m0", procs=[pr("p0", ["p0"]), pr("p1", ["p0"]), pr("p2", ["p0"])])]
        A.opts = {"graph_maxnodes": 1}
    else:
        A.mods = [mk("m0", procs=[pr("p0", ["p1"]), pr("p1", ["p0"])])]
        A.opts = {"graph_maxnodes": 3}
    A.files = {"a.f90": [m["name"] for m in A.mods] + [x["name"] for x in A.subs]}
    A.features.add("witness")
    return A


# --------------------------------------------------------------------------
# one case
# --------------------------------------------------------------------------


def run_case(ford, drv, d: Path, A: Abs | None, files: dict, opts: dict):
    """-> dict(corr=[...], fails=[(label, why, fid)], ngraphs, stats).  With `drv=None` the model is not asked
    yet: the result carries `request` and `settle(resp)` (fills `corr`), so that the caller can put the requests
    of many cases to one run of the driver."""
    import shutil

    shutil.rmtree(d, ignore_errors=True)
    out = {"corr": [], "fails": [], "ngraphs": 0, "error": None, "stats": {}}
    try:
        with common.quiet():
            project, gm, order = build(ford, d, files, opts)
    except Exception as e:  # the real code could not build the graphs at all
        out["error"] = f"{type(e).__name__}: {str(e)[:200]}"
        return out
    tab = Table(ford)
    oids = [tab.eid(o) for o in order]
    tab.close()
    obs = observe_all(gm, tab)
    tab.close()
    out["ngraphs"] = len(obs)
    try:
        with common.quiet():
            saved = save_graphs(gm, d / "graphs")
    except Exception as e:
        out["error"] = f"output_graphs: {type(e).__name__}: {str(e)[:200]}"
        return out
    node_obs = observe_nodes(gm, tab)
    out["request"] = model_request(tab, oids)

    label_obs = observe_labels(gm, tab)
    out["label_reqs"] = label_requests(tab)
    out["stats"]["labelled-types"] = len(out["label_reqs"])
    out["stats"]["labels-naming-several"] = sum(1 for it in label_obs.values() for _, lb in it["types"] if ", " in lb)

    def settle(resp, out=out, tab=tab, node_obs=node_obs, obs=obs):
        out["corr"] = compare(tab, node_obs, obs, resp)
        out.pop("settle", None)

    import ford.sourceform as sf_
    show_parent = bool(gm.data.show_proc_parent)
    proc_obs = observe_proc_labels(gm, tab, sf_)
    n_comp_reqs = len(out["label_reqs"])
    raw_obs = {label: {"node_labels": o["node_labels"]} for label, o in obs.items()}
    out["label_reqs"] = out["label_reqs"] + [(None, proclabel_request(show_parent, li)) for _, li, _ in proc_obs]
    out["stats"]["proc-labels"] = len(proc_obs)
    out["stats"]["proc-labels-with-type"] = sum(1 for _, li, _ in proc_obs if li["binder"])

    def settle_labels(resps, out=out, tab=tab, label_obs=label_obs, obs=obs):
        # (after `settle`: the differences are appended)
        out["corr"] = (out["corr"] + compare_labels(tab, label_obs, obs, out["label_reqs"][:n_comp_reqs], resps[:n_comp_reqs])
                       + compare_proc_labels(show_parent, proc_obs, raw_obs, resps[n_comp_reqs:]))
        out.pop("settle_labels", None)
    if drv is not None:
        settle(drv.call(*out["request"]))
        settle_labels(drv.batch([rq for _, rq in out["label_reqs"]]) if out["label_reqs"] else [])
    else:
        out["settle"] = settle
        out["settle_labels"] = settle_labels
    st = out["stats"]
    for label, o in obs.items():
        cls = label.rsplit(":", 1)[1]
        st[f"class-{cls}"] = st.get(f"class-{cls}", 0) + 1
        if o["truncated"] > 0:
            st["truncated"] = st.get("truncated", 0) + 1
        if o["hop_nodes"]:
            st["table-fallback"] = st.get("table-fallback", 0) + 1
        if o["edges"]:
            st["with-edges"] = st.get("with-edges", 0) + 1
        if any(t == h for t, h, _ in o["edges"]):
            st["self-loop"] = st.get("self-loop", 0) + 1
        if len(o["dot_nodes"]) >= 4:
            st["nodes>=4"] = st.get("nodes>=4", 0) + 1
    if A is not None:
        out["fails"] = oracle(A, Spec(A), names_obs(obs, tab), saved)
    else:
        out["fails"] = judge_files(None, names_obs(obs, tab), saved, set())
    st["gv-files"] = len(saved)
    out["sample"] = {k: {"nodes": [tab.rows[x]["name"] for x in v["dot_nodes"]],
                         "edges": [(tab.rows[t]["name"], tab.rows[h]["name"], s) for t, h, s in v["edges"]],
                         "truncated": v["truncated"]}
                     for k, v in list(obs.items())[:2]}
    return out


def run(tier: str, seed: int, replay: str | None = None) -> int:
    import json

    rep = Report(PROP, tier, seed)
    lean = lean_prove(PROP, translate=translate, thorough=(tier == "thorough"))
    for b in lean.broken():
        rep.tie_broken("proof: " + b)
    ford = common.import_ford()
    import ford.graphs as G
    if not G.graphviz_installed:
        raise common.Infra("graphviz `dot` not found")
    drv = Driver()
    rng = random.Random(seed * 7919 + 13)
    n_proj = 350 if tier == "quick" else 6000
    n_micro = 6000 if tier == "quick" else 60000

    # SVG rendering (graphviz `dot`, not part of the observation) is done for real on every
    # 32nd project only (round 6: was every 16th; thorough: every 8th; one `dot` process per graph, ~60 per project, is what the wall
    # time of this check consists of on a loaded machine); the DOT source is what is compared.
    real_every = 32 if tier == "quick" else 8
    import graphviz
    real_pipe = graphviz.Digraph.pipe
    fake_pipe = lambda self, *a, **k: b'<svg width="10pt" height="10pt"></svg>'  # noqa

    feats: dict[str, int] = {}
    stats: dict[str, int] = {}
    distinct = set()
    samples = []
    n_graphs = n_corr_bad = n_oracle = n_err = n_label_cmp = 0
    cases = []
    if replay:
        r = json.loads(Path(replay).read_text())
        seen = set()
        for c in r.get("cases", []) + r.get("first_disagreements", []):
            if "files" in c and common.digest([c["files"], c.get("opts", {})]) not in seen:
                seen.add(common.digest([c["files"], c.get("opts", {})]))
                A = None
                if c.get("abstract"):
                    A = Abs()
                    for k, v in c["abstract"].items():
                        setattr(A, k, set(v) if k == "features" else v)
                cases.append((A, c["files"], c.get("opts", {}), "replay"))
    else:
        for fid in WITNESSES:
            A = witness_abs(fid)
            cases.append((A, render(A), A.opts, "witness"))
        for k in range(n_proj):
            # (the round-4 dimensions come from a stream of their own: the projects of the earlier rounds stay
            # what they were, every 7th gets all the additional kinds of program units and scopes)
            A = gen_abs(rng, big=(k % 3 == 0), focus="hidden" if k % 5 == 4 else None,
                        extra=(seed * 7919 + 13) * 100003 + k, all_units=(k % 7 == 3))
            cases.append((A, render(A), A.opts, "proj"))
    try:
        ev_micro, bad_micro = micro_callnodes(ford, drv, rng, n_micro, rep)
        # (a stream of its own: the projects and call lists of the earlier rounds stay what they were)
        ev_lab, bad_lab, hist_lab = micro_labels(ford, drv, random.Random(seed * 7919 + 6007),
                                                 1500 if tier == "quick" else 15000, rep)
        ev_pl, bad_pl, hist_pl = micro_proclabels(ford, drv, random.Random(seed * 7919 + 6011),
                                                  3000 if tier == "quick" else 30000, rep)
        ev_micro, bad_micro = ev_micro + ev_lab + ev_pl, bad_micro + bad_lab + bad_pl
        with common.scratch_dir() as d:
            graphviz.Digraph.pipe = fake_pipe
            variants = decide_variant(ford, d / "v")
            rep.coverage["variant_decided"] = {"CallGraph node counting": variants["call_count"],
                                               "bound procedures as call-graph roots": variants["bound_root"],
                                               "side shown by the table fall-back": variants["table_rows"],
                                               "rowspan of the root's cell in the table fall-back": variants["root_span"]}
            CHUNK = 64      # the model answers the requests of this many projects in one run of the driver
            for k0 in range(0, len(cases), CHUNK):
                results = []
                for k in range(k0, min(k0 + CHUNK, len(cases))):
                    A, files, opts, stream = cases[k]
                    graphviz.Digraph.pipe = real_pipe if k % real_every == 0 else fake_pipe
                    results.append((k, run_case(ford, None, d / "p", A, files, opts)))
                pending = [res for _, res in results if "settle" in res]
                for res, resp in zip(pending, drv.batch([res["request"] for res in pending])):
                    res["settle"](resp)
                # the labels of the composition edges: one request per type with components, one run of the driver
                lab = [res for _, res in results if "settle_labels" in res]
                flat = [rq for res in lab for _, rq in res["label_reqs"]]
                resps, pos = (drv.batch(flat) if flat else []), 0
                for res in lab:
                    nreq = len(res["label_reqs"])
                    res["settle_labels"](resps[pos:pos + nreq])
                    pos += nreq
                    n_label_cmp += nreq
                for k, res in results:
                    A, files, opts, stream = cases[k]
                    case = {"stream": stream, "index": k, "files": files, "opts": opts,
                            "abstract": dict(vars(A), features=sorted(A.features)) if A else None}
                    if res["error"]:
                        n_err += 1
                        rep.failing_input(dict(case, why="the real code raised while building the graphs: " + res["error"]), None)
                        continue
                    n_graphs += res["ngraphs"]
                    for f in (A.features if A else ()):
                        feats[f] = feats.get(f, 0) + 1
                    for s, v in res["stats"].items():
                        stats[s] = stats.get(s, 0) + v
                    if res["stats"].get("with-edges"):
                        distinct.add(common.digest([files, opts]))
                    if len(samples) < 2 and stream == "proj" and res["stats"].get("nodes>=4"):
                        samples.append({"files": files, "opts": opts, "graphs": res["sample"]})
                    if res["corr"]:
                        n_corr_bad += 1
                        rep.tie_broken(f"correspondence proj: model and implementation differ on case {k}: {res['corr'][0][:300]}",
                                       dict(case, differences=res["corr"][:5]))
                    for label, why, fid in res["fails"]:
                        n_oracle += 1
                        fids = list(fid) if isinstance(fid, tuple) else [fid]
                        unlisted = [f for f in fids if f is not None and f not in rep.known]
                        if len(fids) > 1 and unlisted:
                            fids = unlisted[:1]      # a combination is excused only if every part is listed
                        for f in fids:
                            rep.failing_input(dict(case, graph=label, why=why, classes=[x for x in fids if x]), f)
    finally:
        graphviz.Digraph.pipe = real_pipe
    rep.coverage.update(
        evaluations=n_graphs + ev_micro,
        distinct_nontrivial=len(distinct),
        rule="one evaluation = one graph object of the real GraphManager compared field by field with the model "
             "(plus one per get_call_nodes micro case); non-trivial = project in which at least one graph has an edge, "
             "distinct by digest of (sources, options)",
        samples=samples,
        traces_validated_against_impl=n_graphs + ev_micro,
        projects=len(cases),
        graphs_compared=n_graphs,
        correspondence_disagreements=n_corr_bad + bad_micro,
        oracle_failures=n_oracle,
        build_errors=n_err,
        project_feature_histogram=dict(sorted(feats.items())),
        graph_histogram=dict(sorted(stats.items())),
        composition_labels={"micro_cases": ev_lab, "micro_histogram": hist_lab,
                            "label_requests_for_project_nodes": n_label_cmp},
        procedure_labels={"micro_cases": ev_pl, "micro_histogram": hist_pl},
    )
    rep.assumptions += [
        "Fortran parsing / correlate (C01, C06-C08) are on the implementation side: the model starts from the entity "
        "attributes the node constructors read (uses, calls, bindings, extends, component prototypes, deplist, meta)",
        "iteration order inside a hop, colours, node labels, URLs and SVG layout are not compared (labels of composition "
        "edges and the HTML table fallback are)",
        "interface bodies written inside a generic interface block have no page of their own and are not expected as "
        "nodes; a specific procedure that is hidden (private, display without private) is expected to have no edge",
        "graph_maxdepth: 0 is read as one hop (the code always expands the roots once)",
        "a program unit is a root of a project-wide graph when its own graph shows more than itself (the code's rule)",
        "a call to a procedure that is a program unit of its own (no explicit interface in scope) stays a bare name, as "
        "C07 / C08 state it; an internal procedure is shown only with proc_internals and has no graphs of its own",
        "the order of the edges inside a hop is not modelled: for the table fall-back, which looks at the first edge, "
        "the model answers for both relevant orders (self-loops of the root first / last)",
        "labels (round 6): the label of a procedure node is modelled from what ProcNode.__init__ reads (self.name as "
        "BaseNode.__init__ left it, the names of the scope and of the binding type); the names themselves, URLs and "
        "colours are on the implementation side.  The label oracle checks the scope prefix only for procedures whose "
        "scope the abstract project states directly (module, submodule, program, host procedure)",
        "which graphs get a file in graph_dir at all is not judged (output completeness): FORD writes those that show "
        "more than their roots, except the `uses` graphs of procedures; `dot` itself is not run for these files",
    ]
    return rep.finish(lean)
