"""C01 - the documented entity tree equals the declared program structure.

Streams
  struct : random statement-kind sequences (flattened well-formed trees, mutated
           trees, junk) rendered to concrete statements -> real FortranSourceFile;
           tree + diagnostics + exception compared EXACTLY with the Lean model
           (`c01.parse`).  This is the correspondence of FordModel/Parse.lean.
  tree   : abstract projects (harness/progen.py) x random surface spellings ->
           real FortranSourceFile; the observation must equal the canonical tree of
           the abstract project (property oracle; independent of the model).
  entity / args / argq : harness/c01_entity.py (name of a declared entity, matching of dummy arguments);
  ptype  : harness/c01_ptype.py; mask / restore / lits : harness/c01_mask.py;
  attrs / attrq : harness/c01_attrs.py (attribute statements x declarations with several entities:
           correspondence with FordModel/Attribs.lean, and the two-spellings oracle).
"""
from __future__ import annotations

import random
import re

from . import common, progen
from .common import Driver, Report, lean_prove

PROP = "C01"

# ------------------------------------------------------------------ struct stream

CODEUNITS = ("module", "submodule", "program", "subroutine", "function", "modprocimpl")


def render_item(tok: str, rng) -> str:
    p = tok.split(":")
    k = p[0]
    up = (lambda s: s.upper()) if rng.random() < 0.2 else (lambda s: s)
    if k == "doc":
        return "!! a doc line"
    if k == "contains":
        return up("contains")
    if k == "access":
        return up(rng.choice(["private", "public"]))
    if k == "sequence":
        return "sequence"
    if k == "format":
        return "10 format (i5)"
    if k == "attrib":
        return "data zz /1/" if p[1] == "1" else rng.choice(["save :: zz", "intent(in) :: zz", "dimension zz(3)", "optional zz"])
    if k == "endblock":
        return up("end block")
    if k == "endassoc":
        return up("end associate")
    if k == "end":
        return up(rng.choice(["end", "end subroutine", "end module foo", "endfunction", "end type", "end program", "end interface", "end enum", "end procedure"]))
    if k == "modproc":
        return ("module procedure p%s" if p[1] == "1" else rng.choice(["procedure p%s", "procedure :: p%s"])) % p[2]
    if k == "blockdata":
        return "block data bd%s" % p[1]
    if k == "block":
        return "block"
    if k == "associate":
        return "associate (aa => bb)"
    if k == "module":
        return up("module") + " m%s" % p[1]
    if k == "submodule":
        return "submodule (anc) sm%s" % p[1]
    if k == "program":
        return "program pr%s" % p[1]
    if k == "subroutine":
        return rng.choice(["subroutine s%s(a)", "subroutine s%s", "pure subroutine s%s(a, b)"]) % p[1]
    if k == "namelist":
        return "namelist /nl%s/ aa, bb" % p[1]
    if k == "function":
        return rng.choice(["function f%s(x)", "integer function f%s(x)", "function f%s(x) result(r)"]) % p[1]
    if k == "type":
        return rng.choice(["type :: t%s", "type t%s", "type, public :: t%s"]) % p[1]
    if k == "interface":
        g, a, i = p[1] == "1", p[2] == "1", p[3]
        return ("abstract " if a else "") + "interface" + (" g%s" % i if g else "")
    if k == "enum":
        return "enum, bind(c)"
    if k == "boundproc":
        # forms that MODPROC_RE does not accept (`procedure :: x` is the `modproc:0` item)
        return rng.choice(["procedure, nopass :: b%s", "procedure(iface), deferred :: b%s"]) % p[1]
    if k == "common":
        return "common /c%s/ xx" % p[1]
    if k == "final":
        return "final :: fin%s" % p[1]
    if k == "variable":
        return rng.choice(["integer :: v%s", "real v%s", "character(len=3) :: v%s"]) % p[1]
    if k == "use":
        return "use u%s" % p[1]
    if k == "goto":
        return "go to (1, 2, 3) ii"
    if k == "call":
        return "xx = foo(1)"
    if k == "subcall":
        return "call bar"
    return "xx = 1"


class Ids:
    def __init__(self):
        self.n = 0

    def new(self):
        self.n += 1
        return self.n


PRE_CHILD = {
    "file": ["module", "submodule", "program", "subroutine", "function", "blockdata"],
    "module": ["type", "interface", "enum", "modprocimpl"], "submodule": ["type", "interface", "enum", "modprocimpl"],
    "program": ["type", "interface", "enum"], "subroutine": ["type", "interface", "enum"],
    "function": ["type", "interface", "enum"], "modprocimpl": ["type", "interface", "enum"],
    "interface": ["subroutine", "function"], "blockdata": ["type"], "type": [], "enum": [],
}
PRE_LEAF = {
    "file": [], "module": ["variable", "use", "common", "namelist"], "submodule": ["variable", "use", "common", "namelist"],
    "program": ["variable", "use", "common", "namelist"], "subroutine": ["variable", "use", "common", "namelist"],
    "function": ["variable", "use", "common", "namelist"], "modprocimpl": ["variable", "use"],
    "interface": ["modprocref"], "blockdata": ["variable", "use", "common"], "type": ["variable"], "enum": ["variable"],
}
NOISE = ["doc", "access", "format", "attrib:0", "goto", "call", "other", "other"]


def gen_decl(rng, ids, kind, depth):
    """flattened well-formed declaration of a container of `kind` (list of tokens)"""
    i = ids.new()
    if kind == "interface":
        g, a = rng.choice([(1, 0), (0, 1), (0, 0)])
        head = "interface:%d:%d:%d" % (g, a, i)
    elif kind == "modprocimpl":
        head = "modproc:1:%d" % i
    else:
        head = "%s:%d" % (kind, i)
    out = [head]
    for _ in range(rng.randint(0, 3)):
        r = rng.random()
        if r < 0.45 and PRE_LEAF[kind]:
            lk = rng.choice(PRE_LEAF[kind])
            out.append("modproc:1:%d" % ids.new() if lk == "modprocref" else "%s:%d" % (lk, ids.new()))
        elif r < 0.75 and PRE_CHILD[kind] and depth < 3:
            out += gen_decl(rng, ids, rng.choice(PRE_CHILD[kind]), depth + 1)
        elif kind in CODEUNITS and kind not in ("module", "submodule") or kind in ("module", "submodule") and rng.random() < 0.5:
            out.append(rng.choice(NOISE if kind not in ("module", "submodule") else ["doc", "access", "attrib:0"]))
    if kind in CODEUNITS and kind not in ("module", "submodule") and rng.random() < 0.3:
        out += ["block", "variable:%d" % ids.new(), "other", "endblock"]
    if kind in CODEUNITS and kind not in ("module", "submodule") and rng.random() < 0.2:
        out += ["associate", "other", "endassoc"]
    if kind in CODEUNITS + ("type",) and rng.random() < 0.5:
        out.append("contains")
        for _ in range(rng.randint(0, 2)):
            if kind == "type":
                out.append(rng.choice(["boundproc:%d", "final:%d"]) % ids.new())
            elif depth < 3:
                out += gen_decl(rng, ids, rng.choice(["subroutine", "function"]), depth + 1)
    out.append("end")
    return out


ALL_TOKENS = ["doc", "contains", "access", "sequence", "format", "attrib:0", "attrib:1", "endblock", "endassoc", "end",
              "modproc:1:%d", "modproc:0:%d", "blockdata:%d", "block", "associate", "module:%d", "submodule:%d",
              "program:%d", "subroutine:%d", "namelist:%d", "function:%d", "type:%d", "interface:1:0:%d",
              "interface:0:1:%d", "interface:0:0:%d", "interface:1:1:%d", "enum:%d", "boundproc:%d", "common:%d",
              "final:%d", "variable:%d", "use:%d", "goto", "call", "subcall", "other"]


def gen_struct_case(rng):
    ids = Ids()
    mode = rng.random()
    toks = []
    for _ in range(rng.randint(1, 3)):
        toks += gen_decl(rng, ids, rng.choice(PRE_CHILD["file"]), 0)
    if mode < 0.4:
        kind = "wellformed"
    elif mode < 0.85:
        kind = "mutated"
        for _ in range(rng.randint(1, 3)):
            r = rng.random()
            pos = rng.randrange(len(toks) + 1)
            t = rng.choice(ALL_TOKENS)
            t = t % ids.new() if "%d" in t else t
            if r < 0.45:
                toks.insert(pos, t)
            elif r < 0.75 and toks:
                del toks[min(pos, len(toks) - 1)]
            elif toks:
                toks[min(pos, len(toks) - 1)] = t
    else:
        kind = "junk"
        toks = []
        for _ in range(rng.randint(1, 10)):
            t = rng.choice(ALL_TOKENS)
            toks.append(t % ids.new() if "%d" in t else t)
    return kind, toks + ["other"]


# ---- normal form of trees (FORD keeps one list per child category: cross-category order is not observable)

CATS = ["module", "submodule", "program", "subroutine", "function", "blockdata", "modprocimpl", "type", "generic",
        "absint", "explicit", "enum", "variable", "use", "common", "namelist", "boundproc", "final", "modprocref"]


def parse_sexpr(s):
    toks = s.replace("(", " ( ").replace(")", " ) ").split()
    pos = 0

    def node():
        nonlocal pos
        assert toks[pos] == "("
        pos += 1
        kind, ident, g, a = toks[pos], int(toks[pos + 1]), toks[pos + 2] == "1", toks[pos + 3] == "1"
        pos += 4
        evs = []
        while toks[pos] != ")":
            if toks[pos] == "(":
                evs.append(node())
            else:
                lk, i = toks[pos].split(":")
                evs.append((lk, int(i)))
                pos += 1
        pos += 1
        return {"kind": kind, "id": ident, "g": g, "a": a, "evs": evs}

    return node()


def normal_form(n):
    cats = {c: [] for c in CATS}
    for e in n["evs"]:
        if isinstance(e, tuple):
            cats[e[0]].append(e[1])
        elif e["kind"] == "interface":
            if e["g"]:
                cats["generic"].append(normal_form(e))
            else:
                # only the bodies survive (FortranModuleProcedureInterface wrappers), in the order of
                # FortranBase.routines: functions first, then subroutines (not an entity-level observable)
                bodies = [c for c in e["evs"] if isinstance(c, dict)]
                for c in [b for b in bodies if b["kind"] == "function"] + [b for b in bodies if b["kind"] != "function"]:
                    cats["absint" if e["a"] else "explicit"].append(normal_form(c))
        else:
            cats[e["kind"]].append(normal_form(e))
    return {"kind": n["kind"], "id": n["id"], "cats": {c: v for c, v in cats.items() if v}}


def idof(name, prefix):
    name = str(name).lower()
    m = re.fullmatch(re.escape(prefix) + r"(\d+)", name)
    return int(m.group(1)) if m else -1


def obs_container(o, kind, ident):
    cats = {c: [] for c in CATS}
    g = lambda a: list(getattr(o, a, []) or [])
    for m in g("modules"):
        cats["module"].append(obs_container(m, "module", idof(m.name, "m")))
    for m in g("submodules"):
        cats["submodule"].append(obs_container(m, "submodule", idof(m.name, "sm")))
    for m in g("programs"):
        cats["program"].append(obs_container(m, "program", idof(m.name, "pr")))
    for m in g("subroutines"):
        cats["subroutine"].append(obs_container(m, "subroutine", idof(m.name, "s")))
    for m in g("functions"):
        cats["function"].append(obs_container(m, "function", idof(m.name, "f")))
    for m in g("blockdata"):
        cats["blockdata"].append(obs_container(m, "blockdata", idof(m.name, "bd")))
    for m in g("modprocedures"):
        cats["modprocimpl"].append(obs_container(m, "modprocimpl", idof(m.name, "p")))
    for m in g("types"):
        cats["type"].append(obs_container(m, "type", idof(m.name, "t")))
    for it in g("interfaces"):
        if getattr(it, "generic", False):
            cats["generic"].append(obs_container(it, "interface", idof(it.name, "g")))
        else:
            pr = it.procedure
            cats["explicit"].append(obs_container(pr, pr.proctype.lower(), idof(pr.name, "s" if pr.proctype == "Subroutine" else "f")))
    for it in g("absinterfaces"):
        pr = it.procedure
        cats["absint"].append(obs_container(pr, pr.proctype.lower(), idof(pr.name, "s" if pr.proctype == "Subroutine" else "f")))
    for e in g("enums"):
        cats["enum"].append(obs_container(e, "enum", -2))
    if kind != "explicit":
        for v in g("variables"):
            nm = getattr(v, "name", v)
            i = idof(nm, "v")
            if i < 0:
                i = idof(nm, "b")
            if i < 0:
                i = idof(nm, "p")
            if i >= 0:
                cats["variable"].append(i)
    for u in g("uses"):
        nm = u[0] if isinstance(u, (list, tuple)) else u
        cats["use"].append(idof(getattr(nm, "name", nm), "u"))
    for c in g("common"):
        cats["common"].append(idof(c.name, "c"))
    for c in g("namelists"):
        cats["namelist"].append(idof(c.name, "nl"))
    for c in g("boundprocs"):
        cats["boundproc"].append(max(idof(c.name, "b"), idof(c.name, "p")))
    for c in g("finalprocs"):
        cats["final"].append(idof(getattr(c, "name", c), "fin"))
    for c in g("modprocs"):
        cats["modprocref"].append(max(idof(c.name, "b"), idof(c.name, "p")))
    return {"kind": kind, "id": ident, "cats": {c: v for c, v in cats.items() if v}}


def strip_enum_ids(n):
    """enumerations have no name: ids are not observable"""
    if n["kind"] == "enum":
        n = dict(n, id=-2)
    return dict(n, cats={c: [strip_enum_ids(x) if isinstance(x, dict) else x for x in v] for c, v in n["cats"].items()})


ERRMAP = [
    ("Multiple CONTAINS", "multipleContains"), ("Unexpected CONTAINS", "unexpectedContains"),
    ("END statement outside", "endOutside"), ("Unexpected MODULE PROCEDURE", "unexpectedModproc"),
    ("Unexpected BLOCK DATA", "unexpectedBlockData"), ("Unexpected SUBMODULE", "unexpectedSubmodule"),
    ("Unexpected MODULE", "unexpectedModule"), ("Unexpected PROGRAM", "unexpectedProgram"),
    ("Multiple PROGRAM", "multiplePrograms"), ("Unexpected SUBROUTINE", "unexpectedSubroutine"),
    ("Unexpected NAMELIST", "unexpectedNamelist"), ("Unexpected FUNCTION", "unexpectedFunction"),
    ("Unexpected derived TYPE", "unexpectedType"), ("Unexpected INTERFACE", "unexpectedInterface"),
    ("Unexpected ENUM", "unexpectedEnum"), ("Unexpected type-bound", "unexpectedBoundproc"),
    ("Unexpected COMMON", "unexpectedCommon"), ("Unexpected finalization", "unexpectedFinal"),
    ("Unexpected variable", "unexpectedVariable"), ("Unexpected USE", "unexpectedUse"),
    ("Unexpected procedure call", "unexpectedCall"),
]


def map_errors(log):
    out = []
    for ln in log.splitlines():
        if not ln.startswith("ERROR in file"):
            continue
        for pat, name in ERRMAP:
            if pat in ln:
                out.append(name)
                break
        else:
            out.append("unexpectedAttrib" if re.search(r"Unexpected \S+ statement", ln) else "unknown:" + ln[:80])
    return out


def map_exception(e):
    s = str(e)
    if isinstance(e, NotImplementedError):
        return "notImplemented"
    if isinstance(e, AttributeError):
        return "attributeError"
    if isinstance(e, IndexError) and "No batches" in s:
        return "noBatches"
    if "can not be abstract" in s:
        return "genericAbstract"
    if "Cannot add procedure calls" in s:
        return "cannotAddCalls"
    if "File ended while still nested" in s:
        return "stillNested"
    return "other:%s:%s" % (type(e).__name__, s[:80])


def impl_struct(ford, path):
    from ford.settings import ProjectSettings
    from ford.sourceform import FortranSourceFile

    with common.quiet() as buf:
        try:
            f = FortranSourceFile(str(path), ProjectSettings())
        except Exception as e:  # noqa
            return ("exc", map_exception(e))
    return ("ok", strip_enum_ids(obs_container(f, "file", 0)), map_errors(buf.getvalue()))


# ------------------------------------------------------------------ tree stream (property oracle)

FINDINGS = [
    # (id, feature that must be present, regex on the difference path/description)
    ("C01-len-expression-truncated", "len-expr", r"\.strlen:"),
    ("C01-kind-comma-truncated", "kind-comma", r"\.kind:"),
    ("C01-positional-char-kind-literal", "char-kind-literal-positional", r"\.kind:"),
    ("C01-bind-before-result", "bind-before-result", r"\.bindC:"),
    ("C01-parameter-stmt-literal-placeholder", "parameter-stmt-literal", r"\.initial:"),
    ("C01-parameter-stmt-relational", "parameter-stmt-relational", r"\.initial:"),
    ("C01-function-type-prefix-literal-crash", "function-prefix-literal", r"FORD failed on valid input: IndexError"),
    ("C01-procedure-prefix-substring", "function-prefix-word-in-identifier", r"\.attribs:|\.retvar\.(proto|kind|vartype|strlen):"),
]


def file_features(text):
    """features of a rendered file that select a known defect class"""
    feats = set()
    # join continuation lines first (the renderer only breaks after a comma outside literals)
    low = re.sub(r"&[ \t]*(![^\n]*)?\n([ \t]*(![^\n]*)?\n)*[ \t]*&?", "", text.lower())
    if re.search(r"character\s*\*?\s*\(\s*(len\s*=\s*)?[^,)=]*[-+*/][^,)]*[,)]", low) or re.search(r"len\s*=\s*[^,)]*[-+*/]", low):
        feats.add("len-expr")
    if re.search(r"kind\s*=\s*\w+\s*\([^)]*,", low):
        feats.add("kind-comma")
    if re.search(r"character\s*\(\s*[^,()=]+,\s*kind\s*\(\s*['\"]", low):
        feats.add("char-kind-literal-positional")
    if re.search(r"bind\s*\([^)]*\)\s*result\s*\(", low):
        feats.add("bind-before-result")
    if re.search(r"^\s*parameter\s*\([^=\n]*=[^\n]*['\"]", low, re.M):
        feats.add("parameter-stmt-literal")
    if re.search(r"^\s*parameter\s*\([^=\n]*=[^\n]*(==|/=|>=|<=)", low, re.M):
        feats.add("parameter-stmt-relational")
    if re.search(r"^[^!\n]*['\"][^\n]*\bfunction\s+\w+\s*\(", low, re.M):
        feats.add("function-prefix-literal")
    # a function statement whose type prefix names, inside parentheses, an identifier that contains one of the
    # procedure prefix words (type(module_data) function f(), real(kind=pure_kind) function g())
    if re.search(r"^[^!\n]*\([^)\n]*(impure|pure|elemental|non_recursive|recursive|module)[^\n]*\)[^\n]*\bfunction\s+\w+", low, re.M):
        feats.add("function-prefix-word-in-identifier")
    return feats


def judge(exp, obs, feats, text):
    """[(difference, finding id or None)] of one observation, [] when it is the expected one"""
    # every difference, not the first one only: a difference in a listed class (say, the bind text of a function
    # written BIND before RESULT) must not hide another defect of the same file (say, its result variable)
    return [(why, classify(why, feats, text)) for why in progen.diff_all(exp, obs)]


PREFIX_WORD_FUNCTION = re.compile(r"^[^!\n]*\([^)\n]*(?:impure|pure|elemental|non_recursive|recursive|module)[^\n]*\)[^\n]*\bfunction\s+(\w+)", re.M)


def bind_swallows_parenthesis(why, text):
    """exactly the listed defect: the difference is the bind text of a function whose statement has BIND(..) in front of
    RESULT(..), and what FORD reports is the declared bind text followed by one `)`"""
    import ast
    m = re.search(r"\[(\w+)\]\.bindC: expected ('.*'|\".*\") observed ('.*'|\".*\")$", why)
    if not m:
        return False
    try:
        exp, obs = ast.literal_eval(m.group(2)), ast.literal_eval(m.group(3))
    except Exception:  # noqa
        return False
    low = re.sub(r"&[ \t]*(![^\n]*)?\n([ \t]*(![^\n]*)?\n)*[ \t]*&?", "", (text or "").lower())
    here = re.search(r"\bfunction\s+%s\b[^\n]*\bbind\s*\([^\n]*\)\s*result\s*\(" % re.escape(m.group(1).lower()), low)
    return bool(here) and obs == exp + ")"


def classify(why, feats, text=None):
    for fid, feat, rx in FINDINGS:
        if feat in feats and re.search(rx, why):
            if feat == "function-prefix-word-in-identifier":
                # the difference must be on one of the functions whose statement has the feature
                low = re.sub(r"&[ \t]*(![^\n]*)?\n([ \t]*(![^\n]*)?\n)*[ \t]*&?", "", (text or "").lower())
                names = set(PREFIX_WORD_FUNCTION.findall(low))
                if not any(re.search(r"\[%s\]\.(attribs:|retvar\.)" % re.escape(n), why) for n in names):
                    continue
            if feat == "bind-before-result" and not bind_swallows_parenthesis(why, text):
                continue
            return fid
    return None


def run(tier: str, seed: int, replay: str | None = None) -> int:
    rep = Report(PROP, tier, seed)
    from translate import c01 as tr

    from translate import c01_typespec as tr2

    lean = lean_prove(PROP, translate=lambda: (tr.translate(), tr2.translate()), thorough=(tier == "thorough"))
    for b in lean.broken():
        rep.tie_broken("proof: " + b)
    ford = common.import_ford()
    from ford.settings import ProjectSettings
    from ford.sourceform import FortranSourceFile

    drv = Driver()
    try:
        vocab = tr.vocabulary()
    except Exception as e:  # noqa
        vocab = []
        rep.tie_broken("translator: the vocabulary of ford/sourceform.py could not be read: %s" % e)
    from harness import c01_attrs as _ca, c01_thead as _th
    _ca.VOCAB, _th.VOCAB = list(vocab), list(vocab)
    n_struct = 2500 if tier == "quick" else 30000
    n_tree = 250 if tier == "quick" else 4000
    rng = random.Random(seed * 1000003 + 1)
    hist = {"wellformed": 0, "mutated": 0, "junk": 0}
    outcome_hist = {}
    distinct = set()
    samples = []
    n_dis = 0
    with common.scratch_dir() as d:
        cases = []
        for k in range(n_struct):
            kind, toks = gen_struct_case(rng)
            lines = [render_item(t, rng) for t in toks]
            cases.append((kind, toks, lines))
        model = drv.batch([["c01.parse", *toks] for _, toks, _ in cases])
        for k, ((kind, toks, lines), mo) in enumerate(zip(cases, model)):
            p = d / ("s%d.f90" % (k % 32))
            p.write_text("\n".join(lines) + "\n")
            im = impl_struct(ford, p)
            hist[kind] += 1
            if mo[0] == "ok":
                mt = ("ok", strip_enum_ids(normal_form(parse_sexpr(mo[1]))), [e for e in mo[2].split(",") if e])
            else:
                mt = ("exc", mo[1])
            key = im[0] + ":" + (im[1] if im[0] == "exc" else ("clean" if not im[2] else "diag"))
            outcome_hist[key] = outcome_hist.get(key, 0) + 1
            distinct.add(common.digest(toks))
            if len(samples) < 2 and kind == "mutated":
                samples.append({"stream": "struct", "tokens": toks, "lines": lines, "impl": im})
            if list(im) != list(mt):
                n_dis += 1
                rep.tie_broken("correspondence struct: model and implementation differ on case %d (%s)" % (k, kind),
                               {"stream": "struct", "tokens": toks, "lines": lines, "impl": im, "model": mt})
        # ---------------- tree stream
        n_fail = 0
        tree_feats = {}
        n_files = 0
        from harness import c01_mask
        tree_lits = {"statements_with_2plus_literals": 0, "placeholder_like_literal_after_first": 0}
        for k in range(n_tree):
            prng = random.Random(seed * 7777 + k)
            P = progen.gen_project(prng, 3)
            files = progen.render_project(P, prng)
            exp = progen.canon_project(P)
            for fn, text in files.items():
                n_files += 1
                p = d / fn
                p.write_text(text)
                feats = file_features(text)
                for ln in text.splitlines():
                    if ln.count("'") + ln.count('"') >= 4:
                        ls = [t for lit, t in c01_mask.split_literals(ln) if lit]
                        tree_lits["statements_with_2plus_literals"] += len(ls) >= 2
                        tree_lits["placeholder_like_literal_after_first"] += any(
                            re.fullmatch(r'"\d+"', x) and int(x[1:-1]) < i for i, x in enumerate(ls))
                for f_ in feats:
                    tree_feats[f_] = tree_feats.get(f_, 0) + 1
                verdicts = []
                try:
                    with common.quiet() as buf:
                        fobj = FortranSourceFile(str(p), ProjectSettings())
                    obs = progen.obs_file(fobj)
                    verdicts = judge(sorted(exp[fn], key=progen.unit_key), sorted(obs, key=progen.unit_key), feats, text)
                    if not verdicts and "ERROR in file" in buf.getvalue():
                        why = "diagnostic on valid input: " + buf.getvalue().strip().splitlines()[0][:120]
                        verdicts = [(why, classify(why, feats, text))]
                except Exception as e:  # noqa
                    why = "FORD failed on valid input: %s: %s" % (type(e).__name__, str(e)[:100])
                    verdicts = [(why, classify(why, feats, text))]
                distinct.add(common.digest(text))
                if len(samples) < 4 and k < 2:
                    samples.append({"stream": "tree", "file": fn, "text": text[:1500]})
                for why, fid in verdicts:
                    n_fail += 1
                    rep.failing_input({"stream": "tree", "project_index": k, "file": fn, "why": why,
                                       "features": sorted(feats), "text": text}, fid)
        # ---------------- ptype stream: parse_type vs FordModel/TypeSpec.lean + spelling oracle
        from harness import c01_ptype
        pt = c01_ptype.run_stream(drv, ford, random.Random(seed * 424243 + 5),
                                  6000 if tier == "quick" else 120000, 1500 if tier == "quick" else 30000, rep)
        n_dis += pt["disagree"]
        n_fail += pt["oracle_fail"]
        # ---------------- mask / restore streams (FordModel/Mask.lean) and the literal-dense declaration oracle
        mk = c01_mask.run_mask(drv, ford, random.Random(seed * 515151 + 7), 1500 if tier == "quick" else 30000, rep, d, distinct)
        rs = c01_mask.run_restore(drv, ford, random.Random(seed * 616161 + 11), 3000 if tier == "quick" else 80000, rep, d, distinct)
        lt = c01_mask.run_lits(ford, random.Random(seed * 717171 + 13), 600 if tier == "quick" else 15000, rep, d, distinct)
        n_dis += mk["disagree"] + rs["disagree"]
        n_fail += lt["oracle_fail"]
        # ---------------- attrs / attrq streams (FordModel/Attribs.lean): declarations with several entities x attribute statements
        from harness import c01_attrs
        at = c01_attrs.run_attrs(drv, ford, random.Random(seed * 818181 + 17), 2500 if tier == "quick" else 40000, rep, d, distinct)
        aq = c01_attrs.run_attrq(ford, random.Random(seed * 919191 + 19), 500 if tier == "quick" else 10000, rep, d, distinct)
        n_dis += at["disagree"]
        n_fail += aq["oracle_fail"]
        # ---------------- typere / typestmt / typeq streams (FordModel/TypeHead.lean): the statement that opens a derived type
        from harness import c01_thead
        tr_ = c01_thead.run_typere(drv, ford, random.Random(seed * 232323 + 23), 4000 if tier == "quick" else 80000, rep, distinct)
        ts_ = c01_thead.run_typestmt(drv, ford, random.Random(seed * 292929 + 29), 1500 if tier == "quick" else 30000, rep, d, distinct)
        tq_ = c01_thead.run_typeq(ford, random.Random(seed * 313131 + 31), 300 if tier == "quick" else 6000, rep, d, distinct)
        vr_ = c01_thead.run_varre(drv, ford, random.Random(seed * 373737 + 37), 3000 if tier == "quick" else 60000, rep, d, distinct)
        n_dis += tr_["disagree"] + ts_["disagree"] + vr_["disagree"]
        n_fail += tq_["oracle_fail"]
        # ---------------- entity / args / argq streams (FordModel/Entity.lean): the name of a declared entity, dummy arguments
        from harness import c01_entity
        en_ = c01_entity.run_entity(drv, ford, random.Random(seed * 414141 + 41), 3000 if tier == "quick" else 60000, rep, d, distinct)
        ar_ = c01_entity.run_args(drv, ford, random.Random(seed * 434343 + 43), 800 if tier == "quick" else 15000, rep, d, distinct)
        aq_ = c01_entity.run_argq(ford, random.Random(seed * 474747 + 47), 250 if tier == "quick" else 5000, rep, d, distinct)
        n_dis += en_["disagree"] + ar_["disagree"]
        n_fail += aq_["oracle_fail"]
        # ---------------- funcre / funcstmt / funcq (FordModel/FuncHead.lean): the statement that opens a function;
        # files / srcq (FordModel/SrcFiles.lean): the set of source files handed to the parser
        from harness import c01_func
        fr_ = c01_func.run_funcre(drv, ford, random.Random(seed * 535353 + 53), 4000 if tier == "quick" else 80000, rep, distinct)
        fs_ = c01_func.run_funcstmt(drv, ford, random.Random(seed * 595959 + 59), 700 if tier == "quick" else 12000, rep, d, distinct)
        fq_ = c01_func.run_funcq(ford, random.Random(seed * 616161 + 61), 250 if tier == "quick" else 5000, rep, d, distinct)
        fl_ = c01_func.run_files(drv, ford, random.Random(seed * 676767 + 67), 400 if tier == "quick" else 6000, rep, d, distinct)
        sq_ = c01_func.run_srcq(ford, random.Random(seed * 717171 + 71), 50 if tier == "quick" else 800, rep, d, distinct)
        n_dis += fr_["disagree"] + fs_["disagree"] + fl_["disagree"]
        n_fail += fq_["oracle_fail"] + sq_["oracle_fail"]
    rep.coverage.update(
        evaluations=len(cases) + n_files + pt["cases"] + pt["groups"] + mk["cases"] + rs["cases"] + lt["cases"] + at["cases"]
        + aq["spellings"] + tr_["cases"] + ts_["cases"] + tq_["spellings"] + vr_["cases"] + en_["cases"] + ar_["cases"] + aq_["spellings"]
        + fr_["cases"] + fs_["cases"] + fq_["spellings"] + fl_["cases"] + sq_["spellings"],
        distinct_nontrivial=len(distinct),
        rule="struct: statement-kind sequences (well-formed nestings, 1-3 point mutations of them, junk), distinct by token "
             "sequence; tree: generated abstract projects x random spellings, one evaluation per source file, distinct by text; "
             "every case has at least one container; ptype: type-specification strings; mask: one-statement files (well-quoted, 1-2 point "
             "mutations, junk), restore: placeholder texts x captured-string lists, lits: generated modules of literal-dense declarations "
             "(mask, restore and lits cases are distinct by their text / text+strings); attrs: specification parts of 1-4 declaration "
             "statements (1-3 entities, 0-3 attribute texts) and 0-6 attribute statements in a module / program / subroutine / function / "
             "block data unit; attrq: abstract entity lists written in two spellings (shared declarations + attribute statements, one "
             "declaration per entity), one evaluation per spelling (both distinct by text); typere / varre: one statement per case (type "
             "definitions in both spellings, SELECT TYPE guards, declarations, their 1-2 point mutations, junk; identifiers dense in "
             "keyword prefixes), typestmt: the same statements inside a module (distinct by text + inherited permission), typeq: abstract "
             "derived types with keyword-like names in two spellings, one evaluation per spelling; entity: one entity text per case "
             "(name + array / coarray specification / character length in legal order, any order, 1-2 point mutations, junk); "
             "args: one procedure per case (0-4 dummy arguments, declared or not, 0-3 locals, one or several entities per "
             "declaration, the character length in the type specification or after the name); argq: the same abstract procedures "
             "in two spellings of the character length, one evaluation per spelling; funcre: one statement per case (function "
             "statements with 0-2 prefix items, keyword-like names, both orders of RESULT / BIND, mutations, other statements, junk); "
             "funcstmt: one function (statement + declarations) per case; funcq: abstract functions in both suffix orders, one "
             "evaluation per spelling; files: one directory tree x settings per case (src_dir lists that overlap / repeat, "
             "exclude_dir, exclude patterns), distinct by tree + settings; srcq: small projects over nested directories, one "
             "evaluation per spelling of the source directory list",
        samples=samples,
        traces_validated_against_impl=len(cases) + pt["cases"] - pt["unmodelled"] + mk["cases"] - mk["unmodelled"]
        + rs["cases"] - rs["unmodelled"] + at["cases"] + tr_["cases"] - tr_["unmodelled"] + ts_["cases"] - ts_["unmodelled"] + vr_["cases"] - vr_["unmodelled"]
        + en_["cases"] + ar_["cases"] + fr_["cases"] - fr_["unmodelled"] + fs_["cases"] - fs_["unmodelled"] + fl_["cases"] - fl_["unmodelled"],
        funcre_stream=fr_,
        funcstmt_stream=fs_,
        funcq_stream=fq_,
        files_stream=fl_,
        srcq_stream=sq_,
        compiled_patterns_vs_modelled=dict(tr.REGEX_HOW),
        vocabulary_words=len(vocab),
        entity_stream=en_,
        args_stream=ar_,
        argq_stream=aq_,
        varre_stream=vr_,
        typere_stream=tr_,
        typestmt_stream=ts_,
        typeq_stream=tq_,
        ptype_stream=pt,
        attrs_stream=at,
        attrq_stream=aq,
        mask_stream=mk,
        restore_stream=rs,
        lits_stream=lt,
        correspondence_disagreements=n_dis,
        oracle_failures=n_fail,
        struct_kind_histogram=hist,
        struct_outcome_histogram=dict(sorted(outcome_hist.items())),
        tree_feature_histogram=tree_feats,
        tree_literal_statements=tree_lits,
    )
    rep.assumptions += [
        "round 5: the regenerated tables follow the meaning of the code - the cascade with alpha-renamed locals and inlined one-line "
        "helpers, `hasattr` observed on live objects when `_cleanup` is entered, `_can_have_contains` read at run time, compiled "
        "patterns compared with the modelled ones by parse tree or exhaustive differential run, and the mirrored statements (masking / "
        "restoring loop, attribute bookkeeping, type branch + initialiser, entity split, argument matching) PROBED: the real functions run "
        "on a fixed input list extended by every keyword-like word of ford/sourceform.py, and the theorems `*_as_modelled` prove that the "
        "models compute the recorded answers; a change of behaviour outside the probe inputs is left to the random correspondence streams",
        "the name / specification split of an entity and the matching of dummy arguments are modelled (Entity.lean); dummy procedures "
        "described by interface bodies, the result variable of a function and `implicit` statements are outside that model; FORD keeps "
        "the character length written after an entity name in `dimension` (it shows `character(len=1) :: c*10`, an equivalent "
        "declaration): the oracles read the effective length of such an entity from there",
        "which concrete statements each cascade regex accepts is tied by differential execution only (no Lean regex semantics)",
        "parse_type is modelled at character level (TypeSpec.lean) for ASCII input without line feeds; a quote inside a character kind "
        "expression is answered `unmodelled` by the model and skipped (counted) in the correspondence",
        "include, preprocessor, extra_vartypes, settings.lower and fixed form are outside the abstract program model",
        "literal masking is modelled at character level (Mask.lean); in the restoring loop `int()` of a placeholder text with a sign, blanks, "
        "underscores or non-ASCII digits is answered `unmodelled` (counted), and the backslash doubling + template expansion of re.sub is "
        "modelled as a literal insertion (exercised by literals containing backslashes in the restore and lits streams); only the restoring "
        "site of line_to_variables is modelled (the sites for PARAMETER statements, bind(C) names and character kinds are observed by the oracle only)",
        "tree stream observes FortranSourceFile objects (parse + _cleanup), before Project.correlate",
        "attribute bookkeeping is modelled at statement level (Attribs.lean): the model receives the attribute texts / entities of a "
        "declaration and groups 1, 2 of ATTRIB_RE as the generator wrote them (which texts the regular expressions accept is tied by the "
        "differential run only); attribute statements naming procedures, types or interfaces (first loop of process_attribs), bare "
        "PUBLIC/PRIVATE statements, character literals inside bind(..) and the settings.warn report are outside the model; the variant "
        "of the four repairable places (Attribs.Cfg) is decided by probing the real code once per run",
        "the statement that opens a derived type is modelled at character level (TypeHead.lean: TYPE_RE, FortranType._initialize, SPLIT_RE, "
        "EXTENDS_RE, VARIABLE_STRING without extra_vartypes) for printable ASCII and TAB (anything else is answered `unmodelled`: Python's "
        "\\s, \\w and case folding know more characters); `SPLIT_RE.split(x.strip())` is mirrored as one step (split at commas, strip every "
        "piece); in the typestmt stream statements that contain a comment / continuation / separator / quote character or a word an earlier "
        "branch of the cascade may take (function, subroutine, namelist, procedure, block, associate, format) are not observable and skipped "
        "(counted); the other head patterns of the cascade (MODULE_RE, SUBROUTINE_RE, FUNCTION_RE, INTERFACE_RE, ...) have no character-level "
        "model: identifiers that begin with keywords reach them through the tree / typeq oracles only",
    ]
    return rep.finish(lean)
