"""C06, stream `ext` (round 6): USE association through the export tables of an EXTERNAL FORD project.

Two steps, both with the real code in-process:
  1. project A (1-3 modules, re-export chains with renamed re-exports) is read and correlated, and
     `external_project.dump_modules` writes its modules.json - what `externalize: true` does;
  2. project B (0-2 modules + a program) lists A's documentation under `external:`, is read and correlated;
     its scopes USE A's modules (and B's own) in every USE form.

Identifiers are drawn from a SMALL POOL per kind, so that modules of both projects own entities of the same
name, a module owns an entity named like the ORIGINAL name of something it re-exports under another local name,
and rename lists swap / shift names (`only: s_a => s_b, s_b => s_a`).  Only legal, unambiguous programs outside
the known defect classes are generated (rejection sampling against the standard's rules).

  oracle          the standard's rules (`spec_tables` of the harness, the independent fixpoint) on the MERGED
                  program A + B: USE association does not care in which project a module is documented.  An
                  entity of A is identified in B by the URL of its page in A's documentation.
  correspondence  Lean `twoStep` (lean/FordModel/UseExt.lean: run A, `externalize`, `loadModules`, `runX`) via
                  the driver command `c06.runx`, exact on all eight tables of every scope of A and of B.
"""
from __future__ import annotations

from pathlib import Path

from . import common

K_PROC, K_ABS, K_TYPE, K_VAR = 0, 1, 2, 3
LETTER = {K_PROC: "s", K_ABS: "a", K_TYPE: "t", K_VAR: "v"}
POOL = {k: [f"{LETTER[k]}_{c}" for c in "abcd"] for k in range(4)}
LISTS = ("functions", "subroutines", "interfaces", "absinterfaces", "types", "variables")


def bump(hist, key, n=1):
    hist[key] = hist.get(key, 0) + n


def gen_pair(c06, rng, idx, hist, fixed):
    """merged abstract program: scopes of A (modules), then scopes of B (modules, program); scope i uses
    only modules j < i.  `c06`: the main harness module (spec_tables, own_clash)."""
    n_a = rng.choice([1, 2, 2, 3])
    n_bmod = rng.choice([0, 0, 1, 1, 2])
    total = n_a + n_bmod + 1
    scopes = []
    for i in range(total):
        is_mod = i < total - 1
        in_a = i < n_a
        name = (f"xa{i}" if in_a else f"xb{i - n_a}") if is_mod else "prog"
        def_pub = rng.random() < 0.6 if is_mod else True
        for _attempt in range(30):
            s = {"name": name, "is_mod": is_mod, "def_pub": def_pub, "decls": [], "uses": [], "pub_names": [],
                 "priv_names": [], "calls": [], "unit": "module" if is_mod else "program", "project": "A" if in_a else "B"}
            # ---- own declarations (small shared pool: namesakes across modules are the rule)
            for k in range(4):
                if not is_mod and k == K_ABS:
                    continue
                for nm in rng.sample(POOL[k], rng.choice([0, 1, 1, 2])):
                    acc = []
                    if is_mod:
                        r = rng.random()
                        acc = [["u", False]] if (r < 0.5 and not def_pub) or r < 0.1 else [["r", False]] if r > 0.9 else []
                    s["decls"].append({"name": nm, "kind": k, "accs": acc, "ref": None,
                                       "form": rng.choice(["sub", "fun", "gen"]) if k == K_PROC else ""})
            # ---- USE statements
            if i > 0:
                avail = list(range(min(i, total - 1)))
                if not in_a and rng.random() < 0.85:
                    first = rng.randrange(n_a)  # B's scopes mostly reach into A directly
                    used = [first] + [j for j in rng.sample(avail, rng.randint(0, min(2, len(avail)))) if j != first]
                else:
                    used = rng.sample(avail, rng.randint(1 if i == total - 1 else 0, min(2, len(avail))))
                spec = c06.spec_tables({"scopes": scopes})
                own = {d["name"] for d in s["decls"]}
                for j in used:
                    exp = {k: sorted(spec[scopes[j]["name"]][k]["pub"]) for k in range(4)}
                    s["uses"].append(gen_use(rng, scopes[j]["name"], exp, own, fixed, hist))
            trial = {"scopes": scopes + [s]}
            spec = c06.spec_tables(trial)
            if not c06.own_clash(spec, name):
                break
        else:
            s["uses"] = []
            spec = c06.spec_tables({"scopes": scopes + [s]})
        imported = sorted({n for k in range(4) for n in spec[name][k]["all"]} - {d["name"] for d in s["decls"]})
        if is_mod and not def_pub:
            for n in imported:
                r = rng.random()
                if r < 0.6:
                    s["pub_names"].append(n)
                elif r < 0.7:
                    s["priv_names"].append(n)
        # ---- references through the names of the scope
        tn = sorted(spec[name][K_TYPE]["all"])
        for d in s["decls"]:
            if d["kind"] in (K_VAR, K_TYPE) and tn and rng.random() < 0.6:
                # (a type extends only imported types: no cycles of extension among the scope's own types)
                cands = [t for t in tn if d["kind"] == K_VAR or t not in {x["name"] for x in s["decls"]}]
                d["ref"] = rng.choice(cands) if cands else None
        if not is_mod:
            pn = sorted(spec[name][K_PROC]["all"])
            s["calls"] = rng.sample(pn, min(len(pn), rng.randint(0, 3)))
        scopes.append(s)
    g = {"id": idx, "stream": "ext", "scopes": scopes, "nested": [], "n_a": n_a}
    classify_inputs(c06, g, hist)
    return g


def gen_use(rng, m, exp, own, fixed, hist):
    """one USE statement of module `m` whose exports (per kind) are `exp`; local names of renames come from the
    same pools as the entities (so they coincide with names the used module, or the using scope's other
    imports, know with another meaning) or are fresh"""
    allnames = [(k, n) for k in range(4) for n in exp[k]]
    r = rng.random()
    if not allnames or r < 0.2:
        return {"mod": m, "only": False, "items": [], "nature": None}
    if r < 0.35 and fixed:  # rename list without ONLY (legal; honoured since 4394651)
        picks = rng.sample(allnames, min(len(allnames), rng.choice([1, 1, 2])))
        return {"mod": m, "only": False, "items": [[local_name(rng, k, n, own), n] for k, n in picks], "nature": None}
    picks = rng.sample(allnames, min(len(allnames), rng.choice([1, 2, 2, 3, 4])))
    # namesakes of the scope's own entities are wanted in the list (they must be renamed)
    picks += [x for x in allnames if x[1] in own and x not in picks and rng.random() < 0.6]
    items = []
    for k, n in picks:
        items.append([local_name(rng, k, n, own), n] if n in own or rng.random() < 0.55 else [n, n])
    return {"mod": m, "only": True, "items": items, "nature": None}


def local_name(rng, k, n, own):
    """local name for the remote entity `n`.  When the using scope owns an entity called `n` itself (legal: the
    import is renamed, so the two never meet under one identifier) the local name avoids the scope's own names."""
    r = rng.random()
    if r < 0.7:
        cands = [x for x in POOL[k] if x not in own] if n in own else POOL[k]
        if cands:
            return rng.choice(cands)  # may equal n (a rename to itself), may be another entity's name
    return f"{LETTER[k]}_l{rng.randrange(3)}"


def classify_inputs(c06, g, hist):
    """input-distribution histogram of the dimensions this stream exists for"""
    spec = c06.spec_tables(g)
    by = {s["name"]: s for s in g["scopes"]}
    for s in g["scopes"]:
        for k in range(4):
            for l, ents in spec[s["name"]][k]["pub" if s["is_mod"] else "all"].items():
                for (m, n) in ents:
                    if m != s["name"] and s["project"] == "A":
                        bump(hist, "ext:A-module-re-exports:" + ("renamed" if n != l else "same-name"))
                        if n != l and any(d["name"] == n and d["kind"] == k for d in s["decls"]):
                            bump(hist, "ext:A-module-re-exports-renamed-and-owns-entity-of-the-original-name")
                        if n != l and any(d["name"] == l for d in by[m]["decls"]):
                            bump(hist, "ext:A-module-re-exports-under-a-name-its-owner-uses-for-another-entity")
        if s["project"] == "B":
            for u in s["uses"]:
                if by[u["mod"]]["project"] == "A":
                    form = ("only" if u["only"] else "all") + ("+rename" if any(l != r for l, r in u["items"]) else "")
                    bump(hist, "ext:use-of-external-module:" + form)
                    loc = {l for l, r in u["items"] if l != r}
                    rem = {r for l, r in u["items"]}
                    if loc & rem:
                        bump(hist, "ext:rename-list-swaps-or-shifts-names")
            for k in range(4):
                for l, ents in spec[s["name"]][k]["all"].items():
                    for (m, n) in ents:
                        if by[m]["project"] == "A":
                            bump(hist, "ext:name-in-B-denotes-entity-of-A:" + LETTER[k])


def render_files(c06, rng, g):
    for s in g["scopes"]:
        s["decl_name"] = c06.rnd_case(rng, s["name"]) if s["is_mod"] else s["name"]
        for u in s["uses"]:
            c06.render_use(rng, u)
    fa, fb = {}, {}
    for i, s in enumerate(g["scopes"]):
        (fa if s["project"] == "A" else fb)[f"{'a' if s['project'] == 'A' else 'b'}{i}.f90"] = c06.render_scope(rng, s, [])
    g["files_a"], g["files_b"] = fa, fb


def run_pair(c06, impl, d: Path, g, order_seed):
    """the real two steps; returns an observation in the shape of `Impl.run` (entities as `module.name`)"""
    import random
    fp, sf = impl.fp, impl.sf
    from ford.external_project import dump_modules

    rng = random.Random(order_seed)
    for sub in ("a_src", "a_doc", "b_src"):
        p = d / sub
        p.mkdir(exist_ok=True)
        for q in p.iterdir():
            q.unlink()
    orig_find = fp.find_all_files
    orig_corr = sf.FortranCodeUnit.correlate
    order = []

    def logging_correlate(this, project):
        if isinstance(this, (sf.FortranModule, sf.FortranProgram)):
            order.append(this.name.lower())
        return orig_corr(this, project)

    def build(src, files, **kw):
        paths = []
        for fn, text in files.items():
            (src / fn).write_text(text)
            paths.append(src / fn)
        paths.reverse()  # dependency order reversed: the worst case for a naive reader
        if rng.random() < 0.5:
            rng.shuffle(paths)
        sf.namelist = sf.NameSelector()
        fp.find_all_files = lambda settings: list(paths)
        with common.quiet():
            settings = impl.Settings(src_dir=[src], preprocess=False, dbg=False, warn=False, quiet=True, graph=False,
                                     search=False, incl_src=False, display=["public", "protected", "private"],
                                     proc_internals=True, **kw)
            project = fp.Project(settings)
            project.correlate()
        return project

    sf.FortranCodeUnit.correlate = logging_correlate
    try:
        pa = build(d / "a_src", g["files_a"], externalize=True)
        order_a = list(order)
        del order[:]
        with common.quiet():
            dump_modules(pa, path=d / "a_doc")
        # identity of A's entities in B: the URL of their page in A's documentation
        urls = {}
        for m in pa.modules:
            for lst in LISTS:
                for e in getattr(m, lst):
                    urls[str(e.get_url())] = f"{m.name.lower()}.{e.name.lower()}"
            # the specifics of generic interfaces (`<g>_impl`; FORD lists them in all_procs / pub_procs of the
            # module when it classifies the interface as generic; `strip_impl` drops them on both sides)
            for itf in m.interfaces:
                for r in list(getattr(itf, "routines", None) or []) + ([itf.procedure] if getattr(itf, "procedure", None) is not None else []):
                    if hasattr(r, "get_url"):
                        urls.setdefault(str(r.get_url()), f"{m.name.lower()}.{r.name.lower()}")
        obs_a = observe(impl, pa, None, None)
        pb = build(d / "b_src", g["files_b"], external={"a": str(d / "a_doc")})
        order_b = list(order)
        obs_b = observe(impl, pb, urls, d / "a_doc")
    except Exception as e:  # noqa
        return {"error": f"{type(e).__name__}: {str(e)[:200]}"}
    finally:
        fp.find_all_files = orig_find
        sf.FortranCodeUnit.correlate = orig_corr
    n_loaded = sum(1 for s in g["scopes"] if s["project"] == "A")
    exts = [str(m.name) for m in pb.extModules]
    return {"order_a": order_a, "order_b": order_b, "order": order_a + order_b,
            "tables": {**obs_a["tables"], **obs_b["tables"]}, "refs": {**obs_a["refs"], **obs_b["refs"]},
            "stubs": exts[:len(exts) - n_loaded] if n_loaded <= len(exts) else exts,
            "loaded": exts[len(exts) - n_loaded:] if n_loaded <= len(exts) else []}


def observe(impl, project, urls, doc):
    sf = impl.sf

    def ent(o):
        if isinstance(o, str) or o is None:
            return None
        if hasattr(o, "external_url"):
            if urls is None:
                return "external?" + str(o.external_url)
            try:
                rel = str(Path(str(o.external_url)).relative_to(doc))
            except ValueError:
                rel = str(o.external_url)
            return urls.get(rel, "unknown-url?" + rel)
        return impl.ent(o)

    def ent_k(o, k):
        ok = {K_TYPE: isinstance(o, sf.FortranType), K_VAR: isinstance(o, sf.FortranVariable),
              K_PROC: not isinstance(o, (sf.FortranType, sf.FortranVariable)),
              K_ABS: not isinstance(o, (sf.FortranType, sf.FortranVariable))}[k]
        return str(ent(o)) + ("" if ok else "#not-of-kind-" + LETTER[k])

    tables, refs = {}, {}
    for sc in list(project.modules) + list(project.programs):
        n = sc.name.lower()
        per = {}
        for k, (a, p) in enumerate((("all_procs", "pub_procs"), ("all_absinterfaces", "pub_absints"),
                                    ("all_types", "pub_types"), ("all_vars", "pub_vars"))):
            per[k] = {"all": {nm: ent_k(o, k) for nm, o in getattr(sc, a, {}).items()},
                      "pub": {nm: ent_k(o, k) for nm, o in (getattr(sc, p, None) or {}).items()}
                      if isinstance(sc, sf.FortranModule) else {}}
        tables[n] = per
        r = {}
        for v in sc.variables:
            if v.proto:
                r["var:" + v.name.lower()] = ent(v.proto[0])
        for t in sc.types:
            if t.extends is not None:
                r["ext:" + t.name.lower()] = ent(t.extends)
        if hasattr(sc, "calls"):
            r["calls"] = sorted({("?" + c.lower()) if isinstance(c, str) else ent(c) if hasattr(c, "name")
                                 else "?" + str(c[-1] if isinstance(c, (list, tuple)) and c else c).lower() for c in sc.calls})
        refs[n] = r
    return {"tables": tables, "refs": refs}


def oracle(c06, g, obs):
    """the standard's rules on the merged program; returns None or a description of the first deviation"""
    exp = c06.single(c06.spec_tables(g))
    got = c06.strip_impl(obs["tables"])
    why = c06.diff_tables(exp, got)
    if why:
        return "standard vs implementation: " + why
    er = c06.expected_refs(g, exp)
    for n in er:
        for key in er[n]:
            if er[n][key] != obs["refs"].get(n, {}).get(key):
                return f"reference {n}/{key}: expected {er[n][key]} observed {obs['refs'].get(n, {}).get(key)}"
    if not c06.is_topo({"scopes": [s for s in g["scopes"] if s["project"] == "A"], "nested": []}, obs["order_a"]):
        return f"correlation order {obs['order_a']} of the external project is not a topological order"
    return None


def model_request(c06, g, obs, fixed):
    decl = {s["name"]: s.get("decl_name", s["name"]) for s in g["scopes"]}
    fields = []
    for s in g["scopes"]:
        fields += c06.model_fields(s, decl)
    return ["c06.runxfixed" if fixed else "c06.runx", " ".join(decl.get(n, n) for n in obs["order_a"]),
            " ".join(decl.get(n, n) for n in obs["order_b"]), " ".join(obs["stubs"]), str(g["n_a"])] + fields
