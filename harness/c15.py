"""C15 - options mean the same in every configuration format, with CLI precedence.

Streams
  micro    : meta_preprocessor, convert_setting, normalise_path, int(), str.split()
             against their Lean mirrors on random inputs (exact comparison).
  single   : every field of the regenerated schema x representative / boundary values of
             its type x {metadata, fpm.toml, --config}.
  combo    : random subsets of options combined, plus command-line options, plus "mixed"
             runs (part of the options in the file, overriding values in --config),
             plus a re-run from another working directory with a relative project path.
  bad      : one unknown key or one ill-typed value added to an option set, per format.
  layout   : (round 6) where the options are taken from: a project file with a metadata block or its own manifest,
             manifests of other packages and text files for the `{!file!}` include workaround lying in the other
             directories, FORD started from 4-5 working directories with absolute / relative / redundant spellings
             of the project path; compared with `c15.effl` (dirname, regenerated lookup table, manifest states,
             include step); oracles O3, O6 (incl. the included text, looked up from the project file), O2.

For every run of the real `ford.initialize()` the Lean model (`c15.eff`) is run on the same
inputs and the canonical observations are compared (correspondence).  The property oracle
is evaluated on the implementation's observations only:
  O1 all formats of one abstract option set give the same effective settings,
  O2 a command-line value wins over --config, which wins over the file, which wins over defaults,
  O3 the result does not depend on the working directory,
  O4 an unknown key is reported and does not abort,
  O5 an ill-typed value is rejected with a message naming the option,
  O6 an option written in a settings file / --config and *not* given on the command line is
     effective with the written value (file options override defaults; an absent switch does
     not override the file) - the expected value is computed from the abstract value alone.
"""
from __future__ import annotations

import contextlib
import dataclasses
import io
import os
import random
import sys
from pathlib import Path, PurePath

from . import common
from .common import Driver, Report, lean_prove

PROP = "C15"
US, RS, GS, FS = "\x1f", "\x1e", "\x1d", "\x1c"

try:
    import tomllib
except ModuleNotFoundError:  # pragma: no cover
    import tomli as tomllib


# --------------------------------------------------------------------------
# canonical value encoding (shared vocabulary with Dispatch/C15.lean)
# --------------------------------------------------------------------------


def enc_atom(v) -> str:
    if isinstance(v, bool):
        return "B1" if v else "B0"
    if isinstance(v, int):
        return f"I{v}"
    if isinstance(v, str):
        return "S" + v
    if isinstance(v, PurePath):
        return "P" + str(v)
    if dataclasses.is_dataclass(v) and hasattr(v, "extension"):
        return "E" + v.extension + GS + v.comment + ((GS + v.lexer) if v.lexer is not None else "")
    if isinstance(v, dict) and all(isinstance(k, str) and isinstance(x, str) for k, x in v.items()):
        return "T" + FS.join(k + GS + x for k, x in v.items())
    return "?" + repr(v)


def enc_val(v) -> str:
    if v is None:
        return "N"
    if isinstance(v, list):
        return "L" + US.join(enc_atom(x) for x in v)
    if isinstance(v, dict):
        return "D" + US.join(str(k) + RS + enc_atom(x) for k, x in v.items())
    return enc_atom(v)


def encodable(v) -> bool:
    return "?" not in enc_val(v)[:1] and all(not p.startswith("?") for p in enc_val(v)[1:].split(US)) \
        and not any((RS + "?") in p for p in enc_val(v).split(US))


def canon(key: str, enc: str) -> str:
    """order-insensitive canonical form: dict entries sorted; `extensions` comes out of a set"""
    if enc.startswith("D") and len(enc) > 1:
        return "D" + US.join(sorted(enc[1:].split(US)))
    if key == "extensions" and enc.startswith("L") and len(enc) > 1:
        return "L" + US.join(sorted(enc[1:].split(US)))
    return enc


# --------------------------------------------------------------------------
# the implementation side
# --------------------------------------------------------------------------


class _SubprocessShim:
    """Replaces the name `subprocess` inside ford/__init__.py only: the preprocessor probe
    (third-party program) is not part of the property."""
    import subprocess as _sp

    CalledProcessError = _sp.CalledProcessError

    @staticmethod
    def run(*a, **k):
        return None


# directories of the layout stream (relative to <scratch>/lay); "" is the root of the tree
LAY_DIRS = ["", "pkg", "pkg/doc", "other", "other/sub", "empty"]


class Impl:
    def __init__(self, ford, root: Path):
        self.ford = ford
        import ford.settings as S

        self.S = S
        self.fields = [f.name for f in dataclasses.fields(S.ProjectSettings)]
        self.root = root
        self.n = 0

    def run(self, md_lines, toml_text, config, argv, cwd_mode=0):
        """Lay the project out and run ford.initialize().  Returns (obs, log) where obs is
        ("ok", {key: canon}, extras, warnings_text) or ("err", name, key, message)."""
        ford = self.ford
        self.n += 1
        proj = self.root / "proj"
        proj.mkdir(exist_ok=True)
        (proj / "p.md").write_text("\n".join(md_lines) + "\n\nProject text.\n" if md_lines else "Project text.\n")
        fpm = proj / "fpm.toml"
        if toml_text is not None:
            fpm.write_text(toml_text)
        elif fpm.exists():
            fpm.unlink()
        if cwd_mode == 0:
            cwd, addr = self.root, str(proj / "p.md")
        elif cwd_mode == 1:
            cwd, addr = self.root, "proj/p.md"
        elif cwd_mode == 2:
            cwd, addr = proj, "p.md"
        else:
            other = self.root / "elsewhere" / "deep"
            other.mkdir(parents=True, exist_ok=True)
            cwd, addr = other, "../../proj/p.md"
        return self._start(cwd, addr, argv, config)

    def _start(self, cwd, addr, argv, config):
        """`cd cwd; ford <argv> [--config config] addr` up to the end of ford.initialize()"""
        ford = self.ford
        args = ["ford", addr] + list(argv)
        if config is not None:
            args += ["--config", config]
        old_argv, old_cwd = sys.argv, os.getcwd()
        buf = io.StringIO()
        saved_sub = ford.subprocess
        ford.subprocess = _SubprocessShim
        data = None
        try:
            os.chdir(cwd)
            sys.argv = args
            with contextlib.redirect_stdout(buf), contextlib.redirect_stderr(buf):
                data, _docs = ford.initialize()
            res = self.observe(data, buf.getvalue())
        except SystemExit as e:
            res = ("err", "SystemExit", "", str(e.code)[:200])
        except BaseException as e:  # noqa
            res = self.map_error(e)
        finally:
            ford.subprocess = saved_sub
            sys.argv = old_argv
            os.chdir(old_cwd)
            pf = getattr(data, "project_file", None) if data is not None else None
            if hasattr(pf, "close"):
                pf.close()
        return res

    def lay_out(self, proj_rel, md_lines, manifests, files=None):
        """(Re)create the directory tree `<root>/lay` of the layout stream: the project file
        `<proj_rel>/ford.md` and, per directory, what `fpm.toml` is there (`None` = nothing, `"<dir>"` = a
        directory of that name, else the text of the file)."""
        import shutil

        lay = self.root / "lay"
        if lay.exists():
            shutil.rmtree(lay)
        for rel in LAY_DIRS:
            (lay / rel).mkdir(parents=True, exist_ok=True)
        (lay / proj_rel / "ford.md").write_text(
            "\n".join(md_lines) + "\n\nProject text.\n" if md_lines else "Project text.\n")
        for rel, text in manifests.items():
            if text is None:
                continue
            f = lay / rel / "fpm.toml"
            if text == "<dir>":
                f.mkdir()
            else:
                f.write_text(text)
        for rel, text in (files or {}).items():
            f = lay / rel
            f.parent.mkdir(parents=True, exist_ok=True)
            with open(f, "w", newline="") as fh:
                fh.write(text)
        return lay

    def run_layout(self, lay, cwd_rel, addr, argv, config=None):
        self.n += 1
        return self._start(lay / cwd_rel if cwd_rel != "<scratch>" else self.root, addr, argv, config)

    def observe(self, data, log):
        obs = {}
        for k in self.fields:
            obs[k] = canon(k, enc_val(getattr(data, k, "<missing>")))
        extras = {}
        for k, v in vars(data).items():
            if k not in obs and k not in ("project_file", "config"):
                extras[k] = canon(k, enc_val(v))
        return ("ok", obs, extras, log)

    @staticmethod
    def map_error(e):
        msg = str(e)
        t = type(e).__name__
        import re

        def q(pat):
            m = re.search(pat, msg)
            return m.group(1) if m else ""

        if "Could not convert option" in msg and "to int" in msg:   # repaired variant (fixes/C15-md-int-names-option.diff)
            return ("err", "intBad", "", msg)
        if "Could not convert option" in msg and "expected a single value" in msg:
            return ("err", "boolMulti", q(r"option '([^']*)'"), msg)
        if "Could not convert option" in msg:
            return ("err", "boolBad", q(r"option '([^']*)'"), msg)
        if "invalid literal for int()" in msg:
            return ("err", "intBad", "", msg)
        if "Error setting option" in msg:
            return ("err", "dictSep", q(r"option '([^']*)'"), msg)
        if "Unexpected format for 'extra_filetype'" in msg:
            return ("err", "eftBad", "", msg)
        if t == "TypeError" and "unexpected keyword argument" in msg:
            return ("err", "unknownKw", q(r"argument '([^']*)'"), msg)
        if "Fixed-form extension" in msg:
            return ("err", "extClash", "", msg)
        if "also appears in external mods" in msg:
            return ("err", "modClash", "", msg)
        if "are the same" in msg:
            return ("err", "docmarkClash", "", msg)
        if "is a subdirectory of output directory" in msg:
            return ("err", "srcInOut", "", msg)
        if t == "TOMLDecodeError":
            return ("err", "tomlDecode", "", msg)
        return ("err", "crash:" + t, "", msg[:300])


# --------------------------------------------------------------------------
# the model side
# --------------------------------------------------------------------------


def model_request(dirp, pkg, toml_kw, md_lines, cfg_kw, cli_kv, cmd="c15.eff"):
    r = [cmd, dirp, pkg]
    for kw in (toml_kw,):
        if kw is None:
            r += ["0", "0"]
        else:
            r += ["1", str(len(kw))]
            for k, v in kw.items():
                r += [k, enc_val(v)]
    r += [str(len(md_lines))] + list(md_lines)
    if cfg_kw is None:
        r += ["0", "0"]
    else:
        r += ["1", str(len(cfg_kw))]
        for k, v in cfg_kw.items():
            r += [k, enc_val(v)]
    r += [str(len(cli_kv))]
    for k, v in cli_kv:
        r += [k, enc_val(v)]
    return r


def parse_model(resp, fields):
    if resp[0] == "ok":
        obs, extras, warns = {}, {}, []
        for f in resp[1:]:
            if f.startswith("w:"):
                warns.append(f[2:])
            elif f.startswith("f:"):
                k, _, v = f[2:].partition("=")
                (obs if k in fields else extras)[k] = canon(k, v)
        return ("ok", obs, extras, warns)
    if resp[0] == "err":
        return ("err", resp[1], resp[2] if len(resp) > 2 else "", "")
    return ("bad", *resp)


# --------------------------------------------------------------------------
# abstract options and their three spellings
# --------------------------------------------------------------------------

# Representative and *boundary* spellings of each type: leading / trailing punctuation (dots, dashes,
# quotes), mixed case, characters that are syntax in one of the formats (':', '=', '#', '"', ';', '[').
# A value must be writable in all three formats: no leading / trailing blanks, no empty list item.
WORDS = ["alpha", "Beta", "x1", "a b", "v:1", "k=v", "it's", 'say "hi"', "50%off", "#tag", "a,b", "[x]", "e\\f",
         "http://h.org/p?q=1", "ünï", "0", "true", "a  b", "-n", ".dot", "..", "...", "trail.", "UPPER", "'q'", '"dq"',
         "-", "{t}", "x;y"]
PATHS = ["src", "./src", "a/b", "../up", "a//b/./c", "x/../y", "sub dir/f", "/abs/dir", "/abs/../r", ".", "a/.", "deep/er/est/",
         ".hidden", "a/.hid/b", "..twodots", "UPPER/Case", "a.b/c.d"]
EXTS = ["f90", "F90", "f", "for", "F", "inc", "f77", "FOR", "fpp", "f03", ".f90", "f90.in", "f-x", "Ff"]
MARKS = ["!", ">", "*", "|", "<", "#", "~", "", "!!", "!>", "."]
FT_EXTS = ["cpp", "sh", "py", "inc", "c", ".inc", "..x", "F90", "c++", "h.in", "x_", "-m", "k:v", "Ü"]
FT_COMMENTS = ["//", "#", "!", "--", ";", "!>", "%", "C", "'", "..", ".c", "REM"]
FT_LEXERS = ["bash", "python", "fortran.FortranFixedLexer", "c++", ".x", "C"]
DICT_KEYS = ["a", "key2", "my_mod", "iso_c_binding", "K", "with space", "m-1", ".dot", "a.b", "-dash", "ISO_C_BINDING",
             "'q'", "trail."]
DICT_VALS = ["v", "http://x.org/a:b", "a = b", "", "two words", "q=1", ".lead", "UPPER", "'quoted'", '"dq"', "trail.",
             "./rel/doc", "-"]
DISPLAY = ["public", "private", "protected", "PUBLIC", "Private", "none"]


def gen_str(rng, key):
    if key in ("docmark", "docmark_alt", "predocmark", "predocmark_alt"):
        return rng.choice(MARKS)
    if key in ("license", "doc_license"):
        return rng.choice(["by", "MIT", "By-NC-sa", "gfdl", "custom licence", "", "bsd", "ISC"])
    if key == "sort":
        return rng.choice(["src", "alpha", "permission", "type-alpha"])
    n = rng.choice([1, 1, 1, 2, 3])
    return "\n".join(rng.choice(WORDS[:-1] if rng.random() < 0.97 else WORDS) for _ in range(n)) if n > 1 else \
        rng.choice(WORDS if rng.random() < 0.1 else WORDS[:-1] + [""])


def default_spellings(key, tag, default, sentinels=()):
    """Boundary values of an option that come from the code rather than from its type: the option's
    own *default* written out explicitly (a user may well write `favicon: favicon.png` or
    `src_dir: ./src`), and every constant the code compares the option against (the regenerated
    sentinel table of `normalise_paths`) - for paths in the spellings that name the same file
    (`x`, `./x`, `x/`, `.//x`, `sub/../x`).  Written values, so: what the property says about any
    written value holds for them.  Only values writable in all three formats."""
    out = []
    if tag in ("path", "optPath"):
        cands = ([str(default)] if isinstance(default, PurePath) else []) + [sn for f, _, sn, _ in sentinels if f == key]
        for d in dict.fromkeys(cands):
            out += [d, "./" + d, ".//" + d, "sub/../" + d] + ([d + "/"] if not d.endswith("/") else [])
    elif tag in ("str", "optStr"):
        if isinstance(default, str) and default == default.strip():
            out.append(default)
    elif tag in ("bool", "int"):
        if isinstance(default, (bool, int)):
            out.append(default)
    elif tag in ("listStr", "plainList", "listPath"):
        if isinstance(default, list) and default and all(isinstance(x, (str, PurePath)) and str(x).strip() == str(x) and str(x)
                                                         for x in default):
            out.append([str(x) for x in default])
            if tag == "listPath":
                out.append(["./" + str(x) for x in default])
    elif tag == "dictStr":
        if isinstance(default, dict) and default and all(isinstance(x, str) for x in default.values()):
            out.append(dict(default))
    return out


def gen_value(rng, key, tag, specials=()):
    """abstract value: Python object in the TOML data model; `specials`: the option's code-derived
    boundary values (default_spellings), drawn now and then"""
    if specials and rng.random() < 0.12:
        return rng.choice(specials)
    if tag == "bool":
        return rng.random() < 0.5
    if tag == "int":
        return rng.choice([0, 1, 2, 7, 10, -3, 10000, 10 ** 12, -1, 2 ** 31, 2 ** 63, -(2 ** 31) - 1])
    if tag in ("str", "optStr"):
        return gen_str(rng, key)
    if tag in ("path", "optPath"):
        return rng.choice(PATHS)
    if tag in ("listStr", "plainList"):
        pool = EXTS if "extensions" in key else DISPLAY if key == "display" else [w for w in WORDS if w and "\n" not in w]
        return [rng.choice(pool) for _ in range(rng.choice([1, 1, 2, 3, 5]))]
    if tag == "listPath":
        return [rng.choice(PATHS) for _ in range(rng.choice([1, 1, 2, 3]))]
    if tag == "dictStr":
        ks = rng.sample(DICT_KEYS, rng.choice([1, 2, 3]))
        return {k: rng.choice(DICT_VALS) for k in ks}
    if tag == "dictEft":
        ks = rng.sample(FT_EXTS, rng.choice([1, 2, 3, 4]))
        return [dict(extension=k, comment=rng.choice(FT_COMMENTS),
                     **({"lexer": rng.choice(FT_LEXERS)} if rng.random() < 0.5 else {}))
                for k in ks]
    raise ValueError(tag)


def md_lines_for(rng, key, tag, v, sep):
    """metadata spelling (list of physical lines) of an abstract value"""
    kk = key if rng.random() < 0.8 else key.upper() if rng.random() < 0.5 else key.capitalize()
    ind = rng.choice(["", "", " ", "   "])
    gap = rng.choice([" ", " ", "", "  ", "\t"])
    if tag == "bool":
        s = rng.choice(["true", "True", "TRUE", "tRuE"] if v else ["false", "False", "FALSE", "fAlSe"])
        vals = [s]
    elif tag == "int":
        s = str(v)
        if v >= 1000 and rng.random() < 0.3:
            s = f"{v:_}"
        elif v >= 0 and rng.random() < 0.15:
            s = "00" + s
        if v >= 0 and rng.random() < 0.2:
            s = "+" + s
        vals = [s]
    elif tag in ("str", "optStr", "path", "optPath"):
        vals = v.split("\n")
    elif tag in ("listStr", "listPath", "plainList"):
        vals = list(v)
    elif tag == "dictStr":
        vals = [k + rng.choice(["", " ", "  "]) + sep + rng.choice(["", " "]) + x for k, x in v.items()]
    elif tag == "dictEft":
        vals = [rng.choice([" ", "  ", "\t"]).join([d["extension"], d["comment"]] + ([d["lexer"]] if "lexer" in d else []))
                for d in v]
    else:
        raise ValueError(tag)
    out = [f"{ind}{kk}:{gap}{vals[0]}" + rng.choice(["", " "])]
    for x in vals[1:]:
        out.append(rng.choice(["    ", "     ", "        "]) + x + rng.choice(["", "  "]))
    return out


def toml_str(s: str) -> str:
    out = []
    for ch in s:
        if ch == '"':
            out.append('\\"')
        elif ch == "\\":
            out.append("\\\\")
        elif ch == "\n":
            out.append("\\n")
        elif ch == "\t":
            out.append("\\t")
        elif ord(ch) < 32:
            out.append(f"\\u{ord(ch):04x}")
        else:
            out.append(ch)
    return '"' + "".join(out) + '"'


def toml_key(k: str) -> str:
    import re

    return k if re.fullmatch(r"[A-Za-z0-9_-]+", k) else toml_str(k)


def toml_val(v) -> str:
    if isinstance(v, bool):
        return "true" if v else "false"
    if isinstance(v, int):
        return str(v)
    if isinstance(v, float):
        return repr(v)
    if isinstance(v, str):
        return toml_str(v)
    if isinstance(v, list):
        return "[" + ", ".join(toml_val(x) for x in v) + "]"
    if isinstance(v, dict):
        return "{" + ", ".join(f"{toml_key(k)} = {toml_val(x)}" for k, x in v.items()) + "}"
    raise ValueError(v)


def toml_text_for(kw: dict) -> str:
    return "name = \"demo\"\n\n[extra.ford]\n" + "".join(f"{toml_key(k)} = {toml_val(v)}\n" for k, v in kw.items())


def config_for(kw: dict) -> str:
    return ";".join(f"{toml_key(k)} = {toml_val(v)}" for k, v in kw.items())


def toml_data(rng, opts, scalar_ok=True):
    """the TOML-level dict of an abstract option list; a one-element list may be written as a
    lone string (documented shorthand) - recorded in `hints`"""
    kw, hints = {}, set()
    for key, tag, v in opts:
        if tag in ("listStr", "listPath") and len(v) == 1 and scalar_ok and rng.random() < 0.35:
            kw[key] = v[0]
            hints.add(("scalar", key))
        else:
            kw[key] = v
    return kw, hints


# --------------------------------------------------------------------------
# oracle helpers (defined from the property statement, not from the model)
# --------------------------------------------------------------------------

# fields whose effective value is documented to depend on another option
COUPLED = {
    "exclude_dir": {"output_dir"}, "project_url": {"output_dir"}, "extensions": {"fpp_extensions"},
    "fpp_extensions": {"preprocess"}, "relative": {"project_url"}, "md_base_dir": set(), "directory": set(),
}
# options whose handling in __post_init__ is more than storing the value
POSTINIT_SENSITIVE = {"extensions", "fpp_extensions", "output_dir", "exclude_dir", "extra_mods",
                      "extra_filetypes", "project_url"}
VALIDATION_ERRS = {"extClash", "modClash", "docmarkClash"}


def cli_wins(dest, exp, obs: dict) -> bool:
    """O2: the effective value of an option given on the command line is the command-line value.  `exclude_dir` is one of
    the options whose effective value is documented to be derived (COUPLED: it always includes the output directory, so
    that a run never documents what an earlier run wrote): there the command-line items, followed by nothing but the
    effective output directory, is what "wins" means."""
    got = obs.get(dest)
    if got == exp:
        return True
    if dest == "exclude_dir" and obs.get("output_dir"):
        out = obs["output_dir"]
        return got == (exp + US + out if len(exp) > 1 else exp[:1] + out)
    return False


def strip_time(obs):
    """creation_date is strftime-d with the current time unless it has no directive"""
    if obs[0] != "ok":
        return obs[:3]
    o = dict(obs[1])
    if "%" in o.get("creation_date", ""):
        o["creation_date"] = "<time>"
    elif o.get("creation_date", "").startswith("S2") and len(o["creation_date"]) > 20:
        o["creation_date"] = "<time>"
    return ("ok", o, dict(obs[2]))


def expected_cli(proj: Path, dest, kind, tag, vals):
    """what the property says the effective value of a CLI-given option is"""
    def norm(p):
        return "P" + os.path.normpath(os.path.join(str(proj), p))

    if kind == "storeTrue":
        return "B1"
    if kind == "storeFalse":
        return "B0"
    if kind == "store":
        return norm(vals) if tag in ("path", "optPath") else "S" + vals
    if tag == "listPath":
        return "L" + US.join(norm(p) for p in vals)
    if tag == "dictStr":
        d = {}
        for s in vals:
            k, _, x = s.partition("=")
            d[k.strip()] = x.strip()
        return canon(dest, "D" + US.join(k + RS + "S" + x for k, x in d.items()))
    return canon(dest, "L" + US.join("S" + x for x in vals))


def file_expectation(proj: Path, key, tag, v, obs: dict, licenses: dict, intrinsic=()):
    """O6.  What the property says the effective value of an option is that is written in a
    settings file (or --config) and not given on the command line: the written value, in the
    option's declared type, relative paths taken from the project directory.  Computed from the
    abstract value only.  For the options whose effective value is documented to be *derived*
    (display is case-insensitive, extensions includes fpp_extensions, exclude_dir includes the
    output directory, extra_mods includes the intrinsic modules, a licence name stands for its
    licence text, an empty project_url means "relative") the written items must be contained.
    Returns None when satisfied, else a description of what was expected - or a pair
    (known-finding class, description) when the failing input is, by its shape, in a listed class
    (`intrinsic`: names of the built-in module table, for the class of C15-extra-mods-intrinsic-wins)."""
    def norm(p):
        return "P" + os.path.normpath(os.path.join(str(proj), p))

    if key == "directory":
        return None   # not an option: the settings object's record of the project directory, always recomputed
    got = obs.get(key)
    items = set(got[1:].split(US)) if got and got[0] in "LD" and len(got) > 1 else set()
    if tag == "bool":
        exp = "B1" if v else "B0"
    elif tag == "int":
        exp = f"I{v}"
    elif tag in ("str", "optStr"):
        exp = "S" + v
        if key in ("license", "doc_license") and v.lower() in licenses:
            exp = "S" + licenses[v.lower()]
        if key == "project_url" and v == "":
            return None
        if key == "creation_date" and "%" in v:
            return None
    elif tag in ("path", "optPath"):
        exp = norm(v)
    elif tag in ("listStr", "plainList", "listPath"):
        want = [norm(x) if tag == "listPath" else "S" + x for x in v]
        if key == "display":
            want = ["S" + x.lower() for x in v]
        if key == "fpp_extensions" and obs.get("preprocess") != "B1":
            want = []
        if key in ("extensions", "exclude_dir"):
            missing = [w for w in want if w not in items]
            return f"items {missing!r} of the written list" if missing else None
        exp = canon(key, "L" + US.join(want))
    elif tag == "dictStr":
        d = {}
        for k, x in v.items():
            d[k] = x
        want = [k + RS + "S" + x for k, x in d.items()]
        if key == "extra_mods":
            missing = [w for w in want if w not in items]
            if missing and all(w.split(RS)[0] in intrinsic for w in missing):
                return ("C15-extra-mods-intrinsic-wins", f"entries {missing!r} of the written table")
            return f"entries {missing!r} of the written table" if missing else None
        exp = canon(key, "D" + US.join(want))
    elif tag == "dictEft":
        d = {}
        for ft in v:
            d[ft["extension"]] = ft
        exp = canon(key, "D" + US.join(
            e + RS + "E" + e + GS + ft["comment"] + ((GS + ft["lexer"]) if ft.get("lexer") is not None else "")
            for e, ft in d.items()))
    else:
        return None
    return None if got == exp else exp


# --------------------------------------------------------------------------
# streams
# --------------------------------------------------------------------------


class Ctx:
    def __init__(self, rep, impl, drv, tables, rng, proj, pkg):
        self.rep, self.impl, self.drv, self.t, self.rng = rep, impl, drv, tables, rng
        self.proj, self.pkg = proj, pkg
        self.fields = {n: tag for n, tag, _ in tables["schema"]}
        self.cli = {e[0]: (e[1], e[2]) for e in tables["cli"]}
        self.specials = {n: default_spellings(n, tag, d, tables.get("sentinels", ())) for n, tag, d in tables["schema"]}
        self.pending = []   # (model request, impl obs, description)
        self.inc_repaired = False  # variant of the include workaround (decided in run())
        self.eff_cmd = "c15.eff"   # "c15.effr": variant `repaired` of the extra_mods merge (decided in run())
        self.hist = {}
        self.samples = []
        self.distinct = set()
        self.evals = 0
        self.n_unmodelled = 0
        self.n_corr_bad = 0
        self.n_oracle_fail = 0

    def count(self, k, n=1):
        self.hist[k] = self.hist.get(k, 0) + n

    def run(self, md_lines, toml_kw, cfg_kw, cli, cwd_mode=0, desc=None):
        """one run of the implementation + queue the model request"""
        toml_text = toml_text_for(toml_kw) if toml_kw is not None else None
        cfg = config_for(cfg_kw) if cfg_kw is not None else None
        argv, cli_kv = [], []
        for dest, (kind, flags) in self.cli.items():
            if dest not in cli:
                continue
            vals = cli[dest]
            fl = flags[self.rng.randrange(len(flags))]
            if kind == "append":
                for x in vals:
                    argv += [fl, x]
                cli_kv.append((dest, list(vals)))
            elif kind == "store":
                argv += [fl, vals]
                cli_kv.append((dest, vals))
            elif kind == "storeTrue":
                argv += [fl]
                cli_kv.append((dest, True))
            elif kind == "storeFalse":
                argv += [fl]
                cli_kv.append((dest, False))
        obs = self.impl.run(md_lines, toml_text, cfg, argv, cwd_mode)
        self.evals += 1
        # the model receives what tomllib makes of the texts (tomllib is not modelled)
        model_ok = True
        t_kw = c_kw = None
        try:
            if toml_text is not None:
                t_kw = tomllib.loads(toml_text).get("extra", {}).get("ford")
            if cfg is not None:
                c_kw = tomllib.loads("\n".join(cfg.split(";")))
        except tomllib.TOMLDecodeError:
            model_ok = False
        if model_ok and all(encodable(v) for kw in (t_kw, c_kw) if kw for v in kw.values()):
            req = model_request(str(self.proj), self.pkg, t_kw, md_lines, c_kw, cli_kv, self.eff_cmd)
            self.pending.append((req, obs, desc or {}))
        else:
            self.count("model:not-applicable(toml text not parseable)")
            if obs[0] == "ok":  # (an error while loading the file comes first and is legitimate)
                self.rep.tie_broken("correspondence: --config text not parseable by tomllib but the run succeeded",
                                    {"desc": desc, "impl": obs[:3]})
        return obs

    def flush(self):
        resps = self.drv.batch([p[0] for p in self.pending])
        for (req, obs, desc), resp in zip(self.pending, resps):
            mo = parse_model(resp, self.fields)
            if mo[0] == "err" and mo[1] == "unmodelled":
                self.n_unmodelled += 1
                if desc.get("stream") == "layout" and desc.get("include"):
                    self.count("model:unmodelled(include statement outside the modelled fragment)")
                    if os.environ.get("C15_DEBUG"):
                        print("UNMODELLED-INCLUDE", desc.get("md"), desc.get("cwd"), file=sys.stderr)
                else:
                    self.count("model:unmodelled(type confusion)")
                continue
            ok = False
            if mo[0] == "ok" and obs[0] == "ok":
                a, b = strip_time(obs), strip_time(("ok", mo[1], mo[2]))
                ok = a == b
                if ok:
                    # unknown-key warnings: the model's list must be what the log reports
                    for w in mo[3]:
                        if w not in obs[3]:
                            ok = False
                why = "" if ok else "; ".join(
                    f"{k}: impl {a[1].get(k)!r} model {b[1].get(k)!r}" for k in sorted(set(a[1]) | set(b[1]))
                    if a[1].get(k) != b[1].get(k))[:600] + ("" if a[2] == b[2] else f" extras impl {a[2]} model {b[2]}")
            elif mo[0] == "err" and obs[0] == "err":
                ok = (mo[1], mo[2]) == (obs[1], obs[2])
                why = f"impl error {obs[1:3]} model error {mo[1:3]}"
            else:
                why = f"impl {obs[0]} {obs[1] if obs[0] == 'err' else ''} {obs[3][:200] if obs[0] == 'err' else ''} / model {mo[0]} {mo[1] if mo[0] == 'err' else ''}"
            self.count("corr:" + (obs[1] if obs[0] == "err" else "ok"))
            if not ok:
                self.n_corr_bad += 1
                self.rep.tie_broken(f"correspondence effective settings: {why}",
                                    {"stream": "eff", "desc": desc, "request": req[:60], "why": why})
        self.pending = []


def classify_config_diff(opts, hints, kw, ref_obs):
    """Known-finding class of a --config disagreement, from the *input*; None = not a known class."""
    for key, tag, v in opts:
        def strs(x):
            if isinstance(x, str):
                yield x
            elif isinstance(x, list):
                for y in x:
                    yield from strs(y)
            elif isinstance(x, dict):
                for k2, y in x.items():
                    yield k2
                    yield from strs(y)
        if any(";" in s for s in strs(v)):
            return "C15-config-semicolon"
    for key, tag, v in opts:
        if key in POSTINIT_SENSITIVE:
            return "C15-config-raw"
        if key == "display" and any(x != x.lower() for x in v):
            return "C15-config-raw"
        if ("scalar", key) in hints:
            return "C15-config-raw"
    if ref_obs[0] == "err" and ref_obs[1] in VALIDATION_ERRS:
        return "C15-config-raw"
    return None


def well_typed_case(cx: Ctx, opts, cli, tag):
    """run one abstract option set in every format, check O1-O3"""
    rng, rep = cx.rng, cx.rep
    seps = cx.t["seps"]
    md = ["---"] if rng.random() < 0.7 else []
    for key, t, v in opts:
        md += md_lines_for(rng, key, t, v, seps.get(key, "="))
    if md and md[0] == "---" and rng.random() < 0.8:
        md.append(rng.choice(["---", "...", "--- "]))
    kw, hints = toml_data(rng, opts)
    desc = {"stream": tag, "options": [(k, t, v) for k, t, v in opts], "cli": cli, "toml": kw}
    o_md = cx.run(md, None, None, cli, 0, dict(desc, fmt="md", md=md))
    o_toml = cx.run([], kw, None, cli, 0, dict(desc, fmt="toml"))
    o_cfg = cx.run([], None, kw, cli, 0, dict(desc, fmt="config"))
    runs = {"md": o_md, "toml": o_toml, "config": o_cfg}
    # mixed: all options in the file with *other* values for some keys, the real ones in --config
    if len(opts) >= 2 and tag == "combo":
        over = [o for o in opts if rng.random() < 0.5] or [opts[0]]
        base = []
        for key, t, v in opts:
            # overridden by --config; options that are cross-validated when the file is loaded stay
            # in the file with their value (an invalid *file* is rejected whatever --config says -
            # also when the clash is with the *default* of an option that only --config sets)
            cross = "docmark" in key or "extensions" in key or key in ("extra_mods", "external")
            if (key, t, v) in over and (cross or rng.random() < 0.7):
                base.append((key, t, v if cross else gen_value(rng, key, t, cx.specials.get(key, ()))))
            elif (key, t, v) not in over:
                base.append((key, t, v))
        ckw = {k: kw[k] for k, _, _ in over}
        bkw, bh = toml_data(rng, base, scalar_ok=False)
        runs["toml+config"] = cx.run([], bkw, ckw, cli, 0, dict(desc, fmt="toml+config", base=bkw, config=ckw))
        desc["mixed_base"] = bkw
        desc["mixed_config"] = ckw
    # O3: another working directory, relative project path
    fmt3 = rng.choice(["md", "toml", "config"])
    mode = rng.choice([1, 2, 3])
    o3 = cx.run(md if fmt3 == "md" else [], kw if fmt3 == "toml" else None, kw if fmt3 == "config" else None,
                cli, mode, dict(desc, fmt=fmt3, cwd_mode=mode))
    key_sig = (tuple((k, repr(v)) for k, _, v in opts), tuple(sorted(cli)))
    cx.distinct.add(common.digest(key_sig))
    for k, t, _ in opts:
        cx.count("tag:" + t)
    cx.count("n_options:" + str(min(len(opts), 6)))
    cx.count("cli_options:" + str(len(cli)))
    if len(cx.samples) < 3 and len(opts) >= 2:
        cx.samples.append({"md": md, "toml": kw, "config": config_for(kw), "cli": cli})
    ref = strip_time(o_md)
    # ---- O1
    for f, o in runs.items():
        if f == "md":
            continue
        if strip_time(o) != ref:
            cls = None
            if "config" in f:
                cls = classify_config_diff(opts, hints, kw, ref)
            a, b = ref, strip_time(o)
            if a[0] == "ok" and b[0] == "ok":
                diff = {k: (a[1].get(k), b[1].get(k)) for k in a[1] if a[1].get(k) != b[1].get(k)}
                if a[2] != b[2]:
                    diff["<extra attributes>"] = (a[2], b[2])
            else:
                diff = {"md": a[:3] if a[0] == "err" else "ok", f: b[:3] if b[0] == "err" else "ok"}
            cx.n_oracle_fail += 1
            rep.failing_input(dict(desc, oracle="O1 formats agree", formats=("md", f), md=md,
                                   config=config_for(kw), difference=diff), cls)
    # ---- O2: a command-line value wins
    for f, o in runs.items():
        if o[0] != "ok":
            continue
        for dest, vals in cli.items():
            kind = cx.cli[dest][0]
            if dest not in cx.fields:
                continue   # reported by cli_single_stream (an option that sets no settings field)
            exp = expected_cli(cx.proj, dest, kind, cx.fields[dest], vals)
            if not cli_wins(dest, exp, o[1]):
                cx.n_oracle_fail += 1
                rep.failing_input(dict(desc, oracle="O2 command line wins", fmt=f, option=dest,
                                       expected=exp, observed=o[1].get(dest)), None)
    # ---- O6: what is written in the file / --config and not given on the command line is effective
    for f, o in runs.items():
        if o[0] != "ok":
            continue
        for key, t, v in opts:
            if key in cli:
                continue
            miss = file_expectation(cx.proj, key, t, v, o[1], cx.t["licenses"], cx.t["intrinsic"])
            if miss is not None:
                cx.n_oracle_fail += 1
                cls = None
                if isinstance(miss, tuple):
                    cls, miss = miss
                if "config" in f:
                    cls = classify_config_diff(opts, hints, kw, ref)
                rep.failing_input(dict(desc, oracle="O6 written value is effective when the option is absent from the command line",
                                       fmt=f, option=key, written=v, expected=miss, observed=o[1].get(key), md=md,
                                       config=config_for(kw)), cls)
    # ---- O3
    if strip_time(o3) != strip_time(runs[fmt3]):
        cx.n_oracle_fail += 1
        rep.failing_input(dict(desc, oracle="O3 independent of working directory", fmt=fmt3, cwd_mode=mode,
                               a=strip_time(runs[fmt3])[:2], b=strip_time(o3)[:2]), None)
    return runs


def defaults_oracle(cx: Ctx, baseline, opts, cli, runs):
    """O2 (defaults part): options nobody mentioned keep their default"""
    touched = {k for k, _, _ in opts} | set(cli)
    o = runs["md"]
    if o[0] != "ok" or baseline[0] != "ok":
        return
    for k, v in o[1].items():
        if k in touched or (k in COUPLED and (COUPLED[k] & touched or not COUPLED[k])):
            continue
        b = baseline[1].get(k)
        if strip_time(("ok", {k: v}, {}))[1] != strip_time(("ok", {k: b}, {}))[1] and k != "creation_date":
            cx.n_oracle_fail += 1
            cx.rep.failing_input({"oracle": "O2 defaults", "option": k, "default": b, "observed": v,
                                  "options": opts, "cli": cli}, None)


def cli_single_stream(cx: Ctx, baseline):
    """O2 per command-line option: every settings-carrying option of the parser, given alone on an
    otherwise empty project, sets a settings option to the given value, and - when it is not given -
    leaves all of them at their defaults (the baseline run)."""
    for dest, (kind, flags) in cx.cli.items():
        tag = cx.fields.get(dest)
        if kind in ("storeTrue", "storeFalse"):
            val = True
        elif kind == "store":
            val = "a/b" if tag in ("path", "optPath") else "r1"
        elif kind == "append":
            val = ["../up", "a/b"] if tag == "listPath" else ["p1 = http://a.org/x"] if tag == "dictStr" else ["A", "b"]
        else:
            continue   # action outside the table's vocabulary: cli_table_sound does not check any more
        desc = {"stream": "cli-single", "option": flags, "dest": dest, "value": val}
        o = cx.run([], None, None, {dest: val}, 0, desc)
        cx.count("cli-single")
        if o[0] != "ok":
            continue
        if tag is None:
            cx.n_oracle_fail += 1
            cx.rep.failing_input(dict(desc, oracle="O2 a command-line option must set a settings option",
                                      observed=f"sets attribute {dest!r}, which is not a field of ProjectSettings",
                                      extras=o[2]), None)
            continue
        exp = expected_cli(cx.proj, dest, kind, tag, val)
        got = o[1].get(dest)
        if not cli_wins(dest, exp, o[1]):
            cx.n_oracle_fail += 1
            cx.rep.failing_input(dict(desc, oracle="O2 command line wins", expected=exp, observed=got), None)


BAD_MD = {
    "bool": [["maybe"], ["yes"], ["true", "false"], [""], ["1"]],
    "int": [["x"], ["1.5"], [""], ["ten"], ["0x10"]],
    "dictStr": [["no separator here"], ["good = 1", "bad"]],
    "dictEft": [["onlyone"], ["a b c d"]],
}


def bad_toml_value(rng, tag):
    """a value of the wrong TOML type for the tag"""
    if tag == "bool":
        return rng.choice(["true", "yes", 1, ["true"]])
    if tag == "int":
        return rng.choice(["x", "12", [1], True])
    if tag in ("str", "optStr"):
        return rng.choice([5, True, ["a", "b"], {"a": "b"}])
    if tag in ("path", "optPath"):
        return rng.choice([5, True, ["a"]])
    if tag in ("listStr", "listPath", "plainList"):
        return rng.choice([5, [1, 2], {"a": "b"}, True])
    if tag == "dictStr":
        return rng.choice(["a = b", ["a = b"], 5])
    if tag == "dictEft":
        return rng.choice(["cpp //", ["cpp //"], 5, [{"extension": "c"}]])
    return 5


def names_option(msg: str, key: str) -> bool:
    """the message names the option (its name, or the singular of a plural name, in quotes or as a word)"""
    import re

    cands = {key}
    if key.endswith("s"):
        cands.add(key[:-1])
    return any(re.search(r"(?<![A-Za-z0-9_])" + re.escape(c) + r"(?![A-Za-z0-9_])", msg) for c in cands)


def bad_case(cx: Ctx, opts, baseline_runs):
    """add one unknown key or one ill-typed value to an option set; O4 / O5 per format"""
    rng, rep = cx.rng, cx.rep
    seps = cx.t["seps"]
    kw, _ = toml_data(rng, opts, scalar_ok=False)
    md = ["---"]
    for key, t, v in opts:
        md += md_lines_for(rng, key, t, v, seps.get(key, "="))
    used = {k for k, _, _ in opts}
    if rng.random() < 0.4:
        # ---------------- unknown key
        uk = rng.choice(["nosuchkey", "src-dir", "projekt", "extra_filetype", "x1"])
        val = rng.choice(["1", "some text", "true"])
        pos = rng.randrange(len(opts) + 1)
        md_bad = ["---"]
        for i, (key, t, v) in enumerate(opts):
            if i == pos:
                md_bad.append(f"{uk}: {val}")
            md_bad += md_lines_for(rng, key, t, v, seps.get(key, "="))
        if pos == len(opts):
            md_bad.append(f"{uk}: {val}")
        items = list(kw.items())
        items.insert(pos, (uk, val))
        kw_bad = dict(items)
        desc = {"stream": "bad", "kind": "unknown-key", "key": uk, "options": opts}
        cx.count("bad:unknown-key")
        for f, o, ref in (("md", cx.run(md_bad + ["---"], None, None, {}, 0, dict(desc, fmt="md", md=md_bad)), baseline_runs["md"]),
                          ("toml", cx.run([], kw_bad, None, {}, 0, dict(desc, fmt="toml", toml=kw_bad)), baseline_runs["toml"]),
                          ("config", cx.run([], None, kw_bad, {}, 0, dict(desc, fmt="config", toml=kw_bad)), baseline_runs["config"])):
            if ref[0] != "ok":
                continue
            cls = {"md": None, "toml": "C15-toml-unknown-key-aborts", "config": "C15-config-raw"}[f]
            if o[0] != "ok":
                cx.n_oracle_fail += 1
                rep.failing_input(dict(desc, oracle="O4 unknown key must not abort", fmt=f, observed=o[:3], message=o[3][:200]), cls)
            elif uk not in o[3].replace("\n", "") or strip_time(o) != strip_time(ref):
                cx.n_oracle_fail += 1
                rep.failing_input(dict(desc, oracle="O4 unknown key must be reported and otherwise ignored", fmt=f,
                                       reported=uk in o[3], extras=o[2], log=o[3][:200]), cls)
        return
    # ---------------- ill-typed value
    cand = [(k, t) for k, t in cx.fields.items() if t in ("bool", "int", "dictStr", "dictEft") and k not in used]
    key, tag = rng.choice(cand)
    cx.count("bad:illtyped-md:" + tag)
    lines = rng.choice(BAD_MD[tag])
    md_bad = md + [f"{key}: {lines[0]}"] + ["    " + x for x in lines[1:]] + ["---"]
    desc = {"stream": "bad", "kind": "ill-typed", "key": key, "tag": tag, "options": opts}
    o = cx.run(md_bad, None, None, {}, 0, dict(desc, fmt="md", md=md_bad))
    if o[0] == "ok" or not names_option(o[3], key):
        cx.n_oracle_fail += 1
        cls = "C15-md-int-unnamed" if (tag == "int" and o[0] == "err" and o[1] == "intBad") else None
        rep.failing_input(dict(desc, oracle="O5 ill-typed value must be rejected naming the option", fmt="md",
                               md=md_bad, observed=o[0], message=(o[3][:200] if o[0] == "err" else "accepted")), cls)
    # toml / config: a value of the wrong TOML type for any tag
    cand = [(k, t) for k, t in cx.fields.items() if t not in ("noInit", "other") and k not in used and k != "directory"]
    key, tag = rng.choice(cand)
    bv = bad_toml_value(rng, tag)
    cx.count("bad:illtyped-toml:" + tag)
    kw_bad = dict(kw)
    kw_bad[key] = bv
    desc = {"stream": "bad", "kind": "ill-typed", "key": key, "tag": tag, "value": bv, "options": opts}
    for f, o in (("toml", cx.run([], kw_bad, None, {}, 0, dict(desc, fmt="toml", toml=kw_bad))),
                 ("config", cx.run([], None, kw_bad, {}, 0, dict(desc, fmt="config", toml=kw_bad)))):
        if o[0] == "ok" or not names_option(o[3], key):
            cx.n_oracle_fail += 1
            cls = {"toml": "C15-toml-not-type-checked", "config": "C15-config-raw"}[f]
            rep.failing_input(dict(desc, oracle="O5 ill-typed value must be rejected naming the option", fmt=f,
                                   observed=o[0], message=(o[3][:200] if o[0] == "err" else "accepted")), cls)



# --------------------------------------------------------------------------
# layout stream (round 6): where the options are taken from
# --------------------------------------------------------------------------


def manifest_state(text):
    """The harness's own reading of one `fpm.toml` (from the property statement: the options are "the `[extra.ford]`
    table of fpm.toml"): (state, keyword table)"""
    if text is None or text == "<dir>":
        return "absent", None
    try:
        data = tomllib.loads(text)
    except tomllib.TOMLDecodeError:
        return "invalid", None
    if "extra" not in data:
        return "noExtra", None
    if not isinstance(data["extra"], dict) or "ford" not in data["extra"]:
        return "noFord", None
    return "ford", data["extra"]["ford"]


def read_lines(path):
    """what `IncludePreprocessor` gets from a file: `readlines()` (text mode, utf-8), line ends stripped"""
    with open(path, "r", encoding="utf-8") as fh:
        return [x.rstrip("\r\n") for x in fh.readlines()]


def layout_request(cmd, lay, cwd, addr, pkg, manifests, md_lines, cli_kv, files=None, inc_repaired=False):
    r = [cmd, str(cwd), addr, pkg, "1" if inc_repaired else "0"]
    ents = []
    for rel, text in manifests.items():
        st, kw = manifest_state(text)
        if st == "absent":
            continue
        ents.append((os.path.normpath(str(lay / rel)), st, kw or {}))
    r.append(str(len(ents)))
    for d, st, kw in ents:
        r += [d, st, str(len(kw))]
        for k, v in kw.items():
            r += [k, enc_val(v)]
    r.append(str(len(files or {})))
    for rel in (files or {}):
        ls = read_lines(lay / rel)
        r += [os.path.normpath(str(lay / rel)), str(len(ls))] + ls
    r += [str(len(md_lines))] + list(md_lines)
    r += ["0", "0"]
    r += [str(len(cli_kv))]
    for k, v in cli_kv:
        r += [k, enc_val(v)]
    return r


def addr_spellings(rng, lay, cwd_abs: Path, pf_abs: Path):
    """ways of naming the project file on the command line from the working directory"""
    rel = os.path.relpath(pf_abs, cwd_abs)
    head, _, name = rel.rpartition("/")
    messy = [("./" + rel), (head + "//" + name if head else "./" + name),
             ((head + "/./" + name) if head else "././" + name),
             os.path.join("..", cwd_abs.name, rel) if cwd_abs != lay.parent and cwd_abs.name else rel]
    return {"abs": str(pf_abs), "rel": rel, "messy": rng.choice(messy)}


def cli_argv(cx, cli):
    argv, cli_kv = [], []
    for dest, (kind, flags) in cx.cli.items():
        if dest not in cli:
            continue
        vals = cli[dest]
        fl = flags[cx.rng.randrange(len(flags))]
        if kind == "append":
            for x in vals:
                argv += [fl, x]
            cli_kv.append((dest, list(vals)))
        elif kind == "store":
            argv += [fl, vals]
            cli_kv.append((dest, vals))
        elif kind == "storeTrue":
            argv += [fl]
            cli_kv.append((dest, True))
        elif kind == "storeFalse":
            argv += [fl]
            cli_kv.append((dest, False))
    return argv, cli_kv


DISTRACTOR_KINDS = ["ford", "ford", "ford", "ford", "ford-empty", "noFord", "noFord2", "noExtra", "invalid", "<dir>", "emptyfile"]


def distractor_text(cx, kind, usable):
    """an fpm.toml of another package: (text, abstract options or None)"""
    rng = cx.rng
    if kind == "ford":
        chosen = rng.sample(usable, rng.choice([1, 2, 3]))
        opts = []
        for n, t in chosen:
            v = gen_value(rng, n, t, cx.specials.get(n, ()))
            if n == "creation_date":
                v = v.replace("%", "pc")
            opts.append((n, t, v))
        kw, _ = toml_data(rng, opts, scalar_ok=False)
        return toml_text_for(kw), opts
    return {"ford-empty": 'name = "other"\n[extra.ford]\n', "noFord": 'name = "other"\n[extra]\nfoo = 1\n',
            "noFord2": '[extra.fordx]\nproject = "no"\n[extra.other.ford]\nproject = "neither"\n',
            "noExtra": 'name = "other"\n[ford]\nproject = "not this table"\n[build]\nauto-tests = true\n',
            "invalid": "this is [not toml\n", "<dir>": "<dir>", "emptyfile": ""}[kind], None



INC_OPTIONS = ["summary", "author", "author_description", "version", "project", "email", "website", "revision"]
INC_NAMES = ["inc.md", "inc.md", "incs/inc.md", "./inc.md", "../up.md", "missing.md", "other.md", "<abs>"]
INC_STYLES = {"one": "{T}", "multi": "{T}\nline two\n", "empty": "", "crlf": "{T}\r\nsecond\r\n", "nl": "{T}\n"}


def include_files(style):
    """text files lying in every directory of the layout; the content names the directory, so that a file
    taken from the wrong directory shows"""
    files = {}
    for d in LAY_DIRS:
        pre = (d + "/") if d else ""
        for rel, tag in (("inc.md", "INC"), ("incs/inc.md", "SUBINC"), ("up.md", "UP"), ("other.md", "OTHER")):
            files[pre + rel] = INC_STYLES[style].replace("{T}", f"{tag}[{d or 'root'}]")
    files["other/absfile.md"] = "ABS\n"
    return files


def gen_include_value(rng, lay):
    def stmt():
        name = rng.choice(INC_NAMES)
        if name == "<abs>":
            name = str(lay / "other" / rng.choice(["absfile.md", "up.md", "nosuch.md"]))
        return "{!" + rng.choice(["", " ", "  "]) + name + rng.choice(["", " "]) + "!}"
    lines = [stmt() + rng.choice(["", "", " tail", "."])]
    for _ in range(rng.choice([0, 0, 0, 1, 2])):
        lines.append(rng.choice(["plain second", "see " + stmt() + " end", stmt(), "a { b ! c"]))
    return "\n".join(lines)


def expected_include(proj_abs: Path, base_written, value: str):
    """Oracle side (documentation: `{!file!}` "will be replaced by the contents of file"; md_base_dir is "the directory
    relative to which any included Markdown files' paths are specified", default the directory containing the project
    file; and, from the property, a relative md_base_dir is relative to the project file)."""
    import re
    base = os.path.normpath(os.path.join(str(proj_abs), base_written if base_written is not None else "."))
    out = []
    for line in value.split("\n"):
        m = re.match(r"^(.*?)\{!\s*(\S+?)\s*!\}(.*)$", line)
        if not m:
            out.append(line)
            continue
        pre, name, post = m.groups()
        f = os.path.normpath(os.path.join(base, name))
        if os.path.isfile(f):
            text = read_lines(f) or [""]
            text[0] = pre + text[0]
            text[-1] = text[-1] + post
            out += text
        else:
            out.append(pre + post)
    return "\n".join(out)


def layout_case(cx: Ctx, usable, stored=None):
    """One project (options in the metadata block, or in the manifest next to the project file), manifests of other
    packages lying in the other directories, FORD started from several working directories with several spellings of
    the project file's path.
      O3  every start gives the same result (settings, or the same error class)
      O6  what the project's own source says is effective, relative paths from the project file's directory
      O2  a command-line option wins, from every working directory
    + exact correspondence of every start with the model (`c15.effl`: dirname, lookup table, manifest states)."""
    rng, rep = cx.rng, cx.rep
    if stored is None:
        proj_rel = rng.choice(["pkg/doc", "pkg/doc", "pkg", "other/sub"])
        fmt = rng.choice(["md", "md", "toml"])
        chosen = rng.sample(usable, rng.choice([1, 2, 3, 4]))
        opts = []
        for n, t in chosen:
            v = gen_value(rng, n, t, cx.specials.get(n, ()))
            if n == "creation_date":
                v = v.replace("%", "pc")
            opts.append((n, t, v))
        seps = cx.t["seps"]
        md, manifests, files, inc = [], {}, {}, {}
        if fmt == "md":
            md = ["---"]
            for key, t, v in opts:
                md += md_lines_for(rng, key, t, v, seps.get(key, "="))
            if rng.random() < 0.45:
                # the (deprecated) include workaround of the metadata format: a string option whose value opens with `{!file!}`
                style = rng.choice(sorted(INC_STYLES))
                files = include_files(style)
                cand = [k for k in INC_OPTIONS if k in cx.fields and k not in [o[0] for o in opts]]
                if "md_base_dir" not in [o[0] for o in opts] and rng.random() < 0.5:
                    bv = rng.choice(["incs", ".", "./incs", "..", "other", str(cx.impl.root / "lay" / "other")])
                    opts.append(("md_base_dir", "path", bv))
                    md += md_lines_for(rng, "md_base_dir", "path", bv, "=")
                for key in rng.sample(cand, rng.choice([1, 1, 2])):
                    v = gen_include_value(rng, cx.impl.root / "lay")
                    inc[key] = v
                    vl = v.split("\n")
                    md += [f"{key}: {vl[0]}"] + ["    " + x for x in vl[1:]]
                cx.count("layout:include:" + style)
            md.append(rng.choice(["---", "..."]))
            own = rng.choice([None, None, None, None, "<dir>", "noExtra", "noFord", "noFord2", "emptyfile", "invalid"])
            manifests[proj_rel] = None if own is None else distractor_text(cx, own, usable)[0]
            own_kind = "none" if own is None else own
        else:
            kw, _ = toml_data(rng, opts, scalar_ok=False)
            manifests[proj_rel] = toml_text_for(kw)
            own_kind = "ford"
        others = [d for d in LAY_DIRS if d != proj_rel]
        with_ford = []
        for d in others:
            if rng.random() < 0.6:
                kind = rng.choice(DISTRACTOR_KINDS)
                manifests[d] = distractor_text(cx, kind, usable)[0]
                cx.count("layout:elsewhere:" + kind)
                if kind == "ford":
                    with_ford.append(d)
        if not with_ford:
            d = rng.choice(others)
            manifests[d] = distractor_text(cx, "ford", usable)[0]
            cx.count("layout:elsewhere:ford")
            with_ford.append(d)
        cli = gen_cli(cx) if rng.random() < 0.3 else {}
        starts = [("<scratch>", "abs")]
        pool = [(d, st) for d in LAY_DIRS for st in ("abs", "rel", "messy")]
        starts += rng.sample(pool, 2)
        starts.append((rng.choice(with_ford), rng.choice(["abs", "rel", "messy"])))
        if proj_rel not in [c for c, _ in starts]:
            starts.append((proj_rel, "rel"))
        cx.count("layout:own-source:" + fmt + "/" + own_kind)
    else:
        proj_rel, fmt, md, manifests, cli, starts = (stored[k] for k in ("project_dir", "fmt", "md", "manifests", "cli", "starts"))
        files, inc = stored.get("files") or {}, stored.get("include") or {}
        opts = [tuple(o) for o in stored["options"]]
        starts = [tuple(x) for x in starts]
    lay = cx.impl.root / "lay"
    pf_abs = lay / proj_rel / "ford.md"
    proj_abs = Path(os.path.normpath(str(lay / proj_rel)))
    desc = {"stream": "layout", "project_dir": proj_rel, "fmt": fmt, "options": [list(o) for o in opts], "md": md,
            "manifests": manifests, "cli": cli, "starts": [list(x) for x in starts], "files": files, "include": inc}
    argv, cli_kv = cli_argv(cx, cli)
    base_written = next((v for k, _, v in opts if k == "md_base_dir"), None)
    # decidable class of C15-md-include-base-dir-cwd: an include statement + a *relative* md_base_dir in the metadata
    inc_class = "C15-md-include-base-dir-cwd" if (inc and base_written is not None and not base_written.startswith("/")) else None
    results = []
    cx.impl.lay_out(proj_rel, md, manifests, files)
    for cwd_rel, style in starts:
        cwd_abs = cx.impl.root if cwd_rel == "<scratch>" else Path(os.path.normpath(str(lay / cwd_rel)))
        addr = style if style not in ("abs", "rel", "messy") else addr_spellings(rng, lay, cwd_abs, pf_abs)[style]
        obs = cx.impl.run_layout(lay, cwd_rel, addr, argv)
        cx.evals += 1
        cx.count("layout:start:" + ("project-dir" if cwd_abs == proj_abs else "scratch" if cwd_rel == "<scratch>" else
                                    "cwd-has-ford-table" if manifest_state(manifests.get(cwd_rel))[0] == "ford" else
                                    "cwd-other-manifest" if manifests.get(cwd_rel) is not None else "cwd-no-manifest")
                 + "/" + (style if style in ("abs", "rel", "messy") else "stored"))
        d1 = dict(desc, cwd=cwd_rel, addr=addr)
        kws = [manifest_state(t)[1] for t in manifests.values()]
        if all(encodable(v) for kw in kws if kw for v in kw.values()):
            cmd = "c15.efflr" if cx.eff_cmd == "c15.effr" else "c15.effl"
            cx.pending.append((layout_request(cmd, lay, cwd_abs, addr, cx.pkg, manifests, md, cli_kv, files, cx.inc_repaired), obs, d1))
        results.append((cwd_rel, addr, obs))
    cx.distinct.add(common.digest(("layout", proj_rel, fmt, repr(opts), repr(sorted(manifests.items())), repr(starts))))
    ref_cwd, ref_addr, ref = results[0]
    # ---- O3: the same project file, the same files: the same result from every working directory
    for cwd_rel, addr, o in results[1:]:
        a, b = strip_time(ref), strip_time(o)
        if a != b:
            if a[0] == "ok" and b[0] == "ok":
                diff = {k: (a[1].get(k), b[1].get(k)) for k in a[1] if a[1].get(k) != b[1].get(k)}
            else:
                diff = {ref_cwd: a[:3] if a[0] == "err" else "ok", cwd_rel: b[:3] if b[0] == "err" else "ok",
                        "message": (o[3][:200] if o[0] == "err" else ref[3][:200] if ref[0] == "err" else "")}
            cx.n_oracle_fail += 1
            cls = inc_class if (a[0] == "ok" and b[0] == "ok" and set(diff) <= set(inc)) else None
            rep.failing_input(dict(desc, oracle="O3 independent of working directory (same project file, same files on disk)",
                                   start_a={"cwd": ref_cwd, "project_file": ref_addr},
                                   start_b={"cwd": cwd_rel, "project_file": addr,
                                            "fpm.toml in that working directory": manifests.get(cwd_rel)},
                                   difference=diff), cls)
            break
    # ---- O6 / O2 on every start
    for cwd_rel, addr, o in results:
        if o[0] != "ok":
            continue
        bad = False
        for key, t, v in opts:
            if key in cli:
                continue
            miss = file_expectation(proj_abs, key, t, v, o[1], cx.t["licenses"], cx.t["intrinsic"])
            if miss is not None:
                cls = None
                if isinstance(miss, tuple):
                    cls, miss = miss
                cx.n_oracle_fail += 1
                rep.failing_input(dict(desc, oracle="O6 what the project's own settings source says is effective, relative paths from "
                                                    "the project file's directory", cwd=cwd_rel, project_file=addr, option=key,
                                       written=v, expected=miss, observed=o[1].get(key)), cls)
                bad = True
                break
        for key, v in inc.items():
            if bad or key in cli:
                continue
            exp = "S" + expected_include(proj_abs, base_written, v)
            if o[1].get(key) != exp:
                cx.n_oracle_fail += 1
                rep.failing_input(dict(desc, oracle="O6 an included file is looked up relative to md_base_dir, which is relative to the "
                                                    "project file (default: the project file's directory), whatever the working directory",
                                       cwd=cwd_rel, project_file=addr, option=key, written=v, md_base_dir=base_written,
                                       expected=exp, observed=o[1].get(key)), inc_class)
                bad = True
        for dest, vals in cli.items():
            if dest not in cx.fields or bad:
                continue
            exp = expected_cli(proj_abs, dest, cx.cli[dest][0], cx.fields[dest], vals)
            if not cli_wins(dest, exp, o[1]):
                cx.n_oracle_fail += 1
                rep.failing_input(dict(desc, oracle="O2 command line wins", cwd=cwd_rel, project_file=addr, option=dest,
                                       expected=exp, observed=o[1].get(dest)), None)
                bad = True
        if bad:
            break
    return results


def probe_include_base(impl, root: Path) -> bool:
    """variant of the include workaround: is a relative `md_base_dir` of the metadata taken from the project file's
    directory (repaired) or from the working directory (as is)?  A wrong decision shows up as a correspondence
    disagreement, never as a pass."""
    p = root / "probe-inc" / "proj"
    (p / "sub").mkdir(parents=True, exist_ok=True)
    (p / "sub" / "x.md").write_text("probe")
    old = os.getcwd()
    try:
        os.chdir(root / "probe-inc")
        with common.quiet():
            st, _ = impl.S.load_markdown_settings("proj", "---\nmd_base_dir: sub\nsummary: {!x.md!}\n---\n", "p.md")
        return st.summary == "probe"
    except Exception:  # noqa
        return False
    finally:
        os.chdir(old)


def include_micro(cx: Ctx, n):
    """the model's reading of one line (`c15.incline`) against `markdown_include`'s `INC_SYNTAX`: `plain` = no match;
    `inc pre name post` = exactly one match, `split()` gives [pre, name, post], `sub('')` gives pre + post; `other`
    (outside the modelled fragment) claims nothing and is counted."""
    from markdown_include.include import INC_SYNTAX
    rng = cx.rng
    pieces = ["{!", "!}", "{", "!", "}", " ", "  ", "inc.md", "a/b.md", "x", "~", "$H", "see", ".", "\t", "{!a!}", "{! b !}", "!!", "{{"]
    lines = ["".join(rng.choice(pieces) for _ in range(rng.choice([1, 2, 3, 4, 5, 7]))) for _ in range(n)]
    resps = cx.drv.batch([["c15.incline", l] for l in lines])
    bad = 0
    for l, r in zip(lines, resps):
        r = list(r)
        ms = list(INC_SYNTAX.finditer(l))
        ok = True
        if r[0] == "plain":
            ok = not ms
        elif r[0] == "inc":
            r = r + [""] * (4 - len(r))
            ok = len(ms) == 1 and INC_SYNTAX.split(l) == r[1:4] and INC_SYNTAX.sub("", l) == r[1] + r[3]
        cx.count("micro:incline:" + r[0])
        if not ok:
            bad += 1
            if bad <= 3:
                cx.rep.tie_broken(f"correspondence include syntax: line {l!r} model {r} regex {[m.group(0) for m in ms]}",
                                  {"stream": "micro-incline", "line": l})
    return len(lines), bad


def dirname_micro(cx: Ctx, n):
    """`os.path.dirname` + resolution of the project directory against `c15.dirname` (exact)"""
    rng = cx.rng
    segs = ["a", "doc", "..", ".", "", "p.md", "x y", ".h", "ford.md", "b.c"]
    reqs, exp = [], []
    for _ in range(n):
        k = rng.choice([0, 1, 1, 2, 3, 4])
        addr = ("/" if rng.random() < 0.3 else "") + "/".join(rng.choice(segs) for _ in range(k + 1))
        if rng.random() < 0.1:
            addr = rng.choice(["/", "//", "///a", "a/", "a//", "/a", "p.md", "./p.md", "../p.md", "//a//b"])
        cwd = "/" + "/".join(rng.choice(["w", "pkg", "deep", "x"]) for _ in range(rng.choice([1, 2, 3])))
        if addr.startswith("//") and not addr.startswith("///"):
            continue   # POSIX: exactly two leading slashes are kept by normpath (assumption: no leading '//')
        reqs.append(["c15.dirname", cwd, addr])
        d = os.path.dirname(addr)
        exp.append(["ok", d, os.path.normpath(os.path.join(cwd, d))])
    bad = 0
    for rq, e, r in zip(reqs, exp, cx.drv.batch(reqs)):
        if list(r) != e:
            bad += 1
            if bad <= 3:
                cx.rep.tie_broken(f"correspondence dirname: {rq[1:]} impl {e} model {r}", {"stream": "micro-dirname", "request": rq})
    cx.count("micro:dirname", len(reqs))
    return len(reqs), bad


def gen_cli(cx: Ctx):
    rng = cx.rng
    cli = {}
    for dest, (kind, _) in cx.cli.items():
        if rng.random() > 0.18:
            continue
        tag = cx.fields.get(dest)
        if kind in ("storeTrue", "storeFalse"):
            cli[dest] = True
        elif kind == "store":
            cli[dest] = rng.choice(PATHS) if tag in ("path", "optPath") else rng.choice(["r1", "v 2", "1.0"])
        elif kind == "append":
            if tag == "listPath":
                cli[dest] = [rng.choice(PATHS) for _ in range(rng.choice([1, 2]))]
            elif tag == "dictStr":
                cli[dest] = [f"{k}{rng.choice(['=', ' = '])}{v}" for k, v in
                             zip(rng.sample(["p1", "p2", "lib"], 2), ["http://a.org/x", "../other/doc"])][: rng.choice([1, 2])]
            else:
                pool = EXTS if dest == "extensions" else ["A", "b=1", "x.f90", "C D"]
                cli[dest] = [rng.choice(pool) for _ in range(rng.choice([1, 2]))]
    return cli


# --------------------------------------------------------------------------
# micro streams
# --------------------------------------------------------------------------


def micro(cx: Ctx, n):
    import ford.settings as S
    import ford.utils as U
    from typing import Dict, List, Optional

    rng, rep, drv = cx.rng, cx.rep, cx.drv
    reqs, exp = [], []
    # meta_preprocessor on junk
    alpha = ["key", "K2", "a-b", "_x", ":", ": ", " ", "    ", "\t", "---", "...", "v", "x y", "", "-", ".", "é"]
    for _ in range(n):
        lines = ["".join(rng.choice(alpha) for _ in range(rng.randint(0, 5))) for _ in range(rng.randint(0, 6))]
        lines = [l for l in lines if not any(c in l for c in "\r\x0b\x0c")]
        meta, rest = U.meta_preprocessor(list(lines))
        reqs.append(["c15.meta"] + lines)
        exp.append(["ok", str(len(meta))] + [k + "=" + US.join(v) for k, v in meta.items()] + rest)
    # int() and str.split()
    ia = "0123456789_+- x"
    for _ in range(n):
        s = "".join(rng.choice(ia) for _ in range(rng.randint(0, 6)))
        reqs.append(["c15.conv", "int", "graph_maxdepth", enc_val([s])])
        try:
            exp.append(["ok", enc_val(S.convert_setting(int, "graph_maxdepth", [s]))])
        except ValueError:
            exp.append(["err", "intBad", ""])
        w = "".join(rng.choice([" ", "\t", "a", "//", "#", "b"]) for _ in range(rng.randint(0, 7)))
        reqs.append(["c15.splitws", w])
        exp.append(["ok"] + w.split())
    # normalise_path
    segs = ["a", "b", "..", ".", "", "c d", "x.y"]
    base = cx.proj
    for _ in range(n):
        p = "/".join(rng.choice(segs) for _ in range(rng.randint(0, 5)))
        if rng.random() < 0.2:
            p = "/" + p
        if p.startswith("//"):
            p = p[1:]
        reqs.append(["c15.norm", str(base), p])
        exp.append(["ok", str(U.normalise_path(base, p))])
    # convert_setting on metadata-shaped and command-line-shaped values
    types = {"bool": bool, "int": int, "str": str, "optStr": Optional[str], "path": Path, "optPath": Optional[Path],
             "listStr": List[str], "listPath": List[Path], "dictStr": Dict[str, str],
             "dictEft": Dict[str, S.ExtraFileType], "plainList": list}
    pool = ["true", "False", "x", "a = b", "k: v", "c //", "py # python", "1", "", "a b c d", "no", " = ", "a==b", "k =", "-4", "1_0",
            ".inc !", "..x ; .lex", "F90\t!>", " .k = .v ", "'q': \"v\"", "007", ".true.", "TRUE ", "-", ".a.b  c.d"]
    for _ in range(n):
        tag = rng.choice(list(types))
        key = rng.choice(["alias", "external", "extra_mods"]) if tag == "dictStr" else "somekey"
        shape = rng.random()
        if shape < 0.7:
            v = [rng.choice(pool) for _ in range(rng.choice([1, 1, 2, 3]))]
        elif shape < 0.8:
            v = rng.choice(pool)
        elif shape < 0.9:
            v = rng.random() < 0.5
        else:
            v = rng.choice([3, {"a": "b"}, [], Path("p/q")])
        reqs.append(["c15.conv", tag, key, enc_val(v)])
        try:
            with common.quiet():
                r = S.convert_setting(types[tag], key, v)
            exp.append(["ok", canon(key, enc_val(r))])
        except BaseException as e:  # noqa
            m = Impl.map_error(e)
            exp.append(["err", m[1], m[2]])
    got = drv.batch(reqs)
    bad = 0
    for r, e, g in zip(reqs, exp, got):
        if g[:2] == ["err", "unmodelled"]:
            cx.count("micro:unmodelled")
            md_shaped = r[0] == "c15.conv" and r[3].startswith("L") and len(r[3]) > 1 and \
                all(x.startswith("S") for x in r[3][1:].split(US))
            if not md_shaped or (e[0] == "err" and e[1].startswith("crash:")):
                continue  # the model only promises to follow metadata-shaped values (lists of strings)
        if g and g[0] == "ok" and len(g) == 2 and r[0] == "c15.conv":
            g = ["ok", canon(r[2], g[1])]
        if e != g:
            bad += 1
            rep.tie_broken(f"correspondence micro/{r[0]}: model {g[:6]} vs implementation {e[:6]} on {r[1:6]!r}",
                           {"stream": "micro", "request": r, "impl": e, "model": g})
    cx.count("micro:requests", len(reqs))
    return len(reqs), bad


# --------------------------------------------------------------------------


def replay_known(cx: Ctx, rep):
    """Replay the witnesses of the listed findings on the implementation (DESIGN 3.4)."""
    ins = {}
    o_md = cx.run(["---", "display: PUBLIC", "---"], None, None, {}, 0, {"replay": "config-raw/md"})
    o_cf = cx.run([], None, {"display": ["PUBLIC"]}, {}, 0, {"replay": "config-raw/config"})
    if o_md[0] == "ok" and o_cf[0] == "ok" and o_md[1]["display"] != o_cf[1]["display"]:
        rep.failing_input({"witness": "display=['PUBLIC'] via metadata vs --config", "md": o_md[1]["display"],
                           "config": o_cf[1]["display"]}, "C15-config-raw")
        ins["C15-config-raw"] = True
    o = cx.run([], {"nosuchkey": 1}, None, {}, 0, {"replay": "toml-unknown"})
    if o[0] == "err":
        rep.failing_input({"witness": "[extra.ford] nosuchkey = 1", "observed": o[:4]}, "C15-toml-unknown-key-aborts")
    o = cx.run([], {"graph_maxdepth": "x"}, None, {}, 0, {"replay": "toml-illtyped"})
    if o[0] == "ok":
        rep.failing_input({"witness": "[extra.ford] graph_maxdepth = \"x\"", "observed": o[1]["graph_maxdepth"]},
                          "C15-toml-not-type-checked")
    o = cx.run(["---", "graph_maxdepth: x", "---"], None, None, {}, 0, {"replay": "md-int"})
    if o[0] == "err" and not names_option(o[3], "graph_maxdepth"):
        rep.failing_input({"witness": "graph_maxdepth: x", "message": o[3][:200]}, "C15-md-int-unnamed")
    ik = next(iter(cx.t["intrinsic"]), None)
    if ik is not None:
        url = "http://example.com/own-doc"
        for f, o in (("md", cx.run(["---", f"extra_mods: {ik}: {url}", "---"], None, None, {}, 0, {"replay": "extra-mods/md"})),
                     ("toml", cx.run([], {"extra_mods": {ik: url}}, None, {}, 0, {"replay": "extra-mods/toml"}))):
            if o[0] == "ok" and (ik + RS + "S" + url) not in o[1]["extra_mods"].split(US) \
                    and not o[1]["extra_mods"].startswith("D" + ik + RS + "S" + url):
                rep.failing_input({"witness": f"extra_mods: {ik}: {url}", "fmt": f, "observed": o[1]["extra_mods"][:300]},
                                  "C15-extra-mods-intrinsic-wins")
    # C15-md-include-base-dir-cwd: relative md_base_dir of the metadata + an include statement, started elsewhere
    usable = [(n_, t_) for n_, t_, _ in cx.t["schema"] if t_ not in ("noInit", "other")]
    layout_case(cx, usable, stored={
        "project_dir": "pkg/doc", "fmt": "md", "cli": {}, "manifests": {},
        "md": ["---", "md_base_dir: incs", "summary: {!inc.md!}", "---"],
        "options": [["md_base_dir", "path", "incs"]], "include": {"summary": "{!inc.md!}"},
        "files": include_files("one"), "starts": [["pkg/doc", "rel"], ["pkg", "rel"], ["<scratch>", "abs"]]})
    o_md = cx.run(["---", "project: a;b", "---"], None, None, {}, 0, {"replay": "semicolon/md"})
    o_cf = cx.run([], None, {"project": "a;b"}, {}, 0, {"replay": "semicolon/config"})
    if o_md[0] == "ok" and o_cf[0] != "ok":
        rep.failing_input({"witness": "--config 'project = \"a;b\"'", "observed": o_cf[:4]}, "C15-config-semicolon")


def replay_file(cx: Ctx, rep, lean, path):
    """Re-run the concrete inputs stored in a replay file: every stored option set is run again
    in all formats (oracles O1-O3), stored metadata / tables of `bad` cases are re-run as given."""
    import json

    data = json.loads(Path(path).read_text())
    cases = data.get("cases") or data.get("first_disagreements") or []
    n = 0
    for c in cases:
        c = c.get("desc", c)
        if c.get("stream") in ("single", "combo") and c.get("options"):
            opts = [tuple(o) for o in c["options"]]
            well_typed_case(cx, opts, c.get("cli") or {}, "combo")
            n += 1
        elif c.get("stream") == "layout" and c.get("manifests") is not None:
            usable = [(n_, t_) for n_, t_, _ in cx.t["schema"] if t_ not in ("noInit", "other")]
            layout_case(cx, usable, stored=c)
            n += 1
        elif c.get("stream") == "bad":
            key = c.get("key", "")
            for fmt in ("md", "toml", "config"):
                if fmt == "md" and c.get("md"):
                    o = cx.run(c["md"] + (["---"] if c["md"][-1] != "---" else []), None, None, {}, 0, c)
                elif fmt != "md" and c.get("toml"):
                    o = cx.run([], c["toml"] if fmt == "toml" else None, c["toml"] if fmt == "config" else None, {}, 0, c)
                else:
                    continue
                n += 1
                print(f"replay {fmt}: {o[0]} {o[1] if o[0] == 'err' else ''} {(o[3][:160] if o[0] == 'err' else '')!r}")
                if c.get("kind") == "ill-typed" and c.get("fmt") == fmt and (o[0] == "ok" or not names_option(o[3], key)):
                    cls = {"toml": "C15-toml-not-type-checked", "config": "C15-config-raw"}.get(fmt) or \
                        ("C15-md-int-unnamed" if o[0] == "err" and o[1] == "intBad" else None)
                    rep.failing_input(dict(c, oracle="O5 (replay)", observed=o[:3]), cls)
                if c.get("kind") == "unknown-key" and c.get("fmt") == fmt and (o[0] != "ok" or key not in o[3]):
                    cls = {"md": None, "toml": "C15-toml-unknown-key-aborts", "config": "C15-config-raw"}[fmt]
                    rep.failing_input(dict(c, oracle="O4 (replay)", observed=o[:3]), cls)
    cx.flush()
    cx.drv.close()
    rep.coverage.update(evaluations=cx.evals, distinct_nontrivial=len(cx.distinct), replayed_cases=n,
                        rule="replay of stored cases", samples=cx.samples,
                        traces_validated_against_impl=cx.evals - cx.n_unmodelled,
                        correspondence_disagreements=cx.n_corr_bad, oracle_failures=cx.n_oracle_fail,
                        input_histogram=dict(sorted(cx.hist.items())))
    return rep.finish(lean)


def run(tier: str, seed: int, replay: str | None = None) -> int:
    rep = Report(PROP, tier, seed)
    from translate import c15 as tr

    holder = {}

    def translate():
        holder["t"] = tr.translate()

    lean = lean_prove(PROP, translate=translate, thorough=(tier == "thorough"))
    for b in lean.broken():
        rep.tie_broken("proof: " + b)
    ford = common.import_ford()
    # (translate() failed = already a broken tie; the oracle is still evaluated on the implementation)
    tables = holder.get("t") or tr.extract(strict=False)
    rng = random.Random(seed * 7919 + 15)
    drv = Driver()
    quick = tier == "quick"
    n_micro = 1500 if quick else 15000
    n_combo = 260 if quick else 4000
    n_bad = 160 if quick else 2500
    n_layout = 170 if quick else 2500
    reps_single = 3 if quick else 12
    with common.scratch_dir() as d0:
        d = Path(os.path.realpath(d0))
        impl = Impl(ford, d)
        proj = d / "proj"
        proj.mkdir()
        pkg = str(Path(ford.__file__).resolve().parent)
        cx = Ctx(rep, impl, drv, tables, rng, proj, pkg)
        # variant of the model (DESIGN 2.1): does a project entry of extra_mods win over INTRINSIC_MODS?
        # (a wrong decision here shows up as a correspondence disagreement, never as a pass)
        ik = next(iter(tables["intrinsic"]), None)
        if ik is not None:
            try:
                with common.quiet():
                    if impl.S.ProjectSettings(extra_mods={ik: "probe"}).extra_mods.get(ik) == "probe":
                        cx.eff_cmd = "c15.effr"
            except Exception:  # noqa
                pass
        cx.count("variant:extra_mods-" + ("repaired" if cx.eff_cmd == "c15.effr" else "asIs"))
        cx.inc_repaired = probe_include_base(impl, d)
        cx.count("variant:include-base-" + ("repaired" if cx.inc_repaired else "asIs"))
        if replay:
            return replay_file(cx, rep, lean, replay)
        ev_micro, bad_micro = micro(cx, n_micro)
        baseline = cx.run([], None, None, {}, 0, {"stream": "baseline"})
        if baseline[0] != "ok":
            rep.tie_broken(f"the empty project file does not load: {baseline[:4]}")
        replay_known(cx, rep)
        cli_single_stream(cx, baseline)
        cx.flush()
        # ---- single: every field x values x formats
        usable = [(n, t) for n, t, _ in tables["schema"] if t not in ("noInit", "other")]
        for name, tag in usable:
            for _ in range(reps_single):
                v = gen_value(rng, name, tag)
                if name == "creation_date":
                    v = v.replace("%", "pc")
                opts = [(name, tag, v)]
                runs = well_typed_case(cx, opts, {}, "single")
                defaults_oracle(cx, baseline, opts, {}, runs)
            # the option's default written out explicitly / the constants the code compares it with
            for v in cx.specials.get(name, ()):
                if name == "creation_date":
                    v = v.replace("%", "pc")
                opts = [(name, tag, v)]
                cx.count("single:default-spelling")
                runs = well_typed_case(cx, opts, {}, "single")
                defaults_oracle(cx, baseline, opts, {}, runs)
            cx.flush()
        # ---- combo
        for k in range(n_combo):
            m = rng.choice([2, 2, 3, 4, 6, 10])
            chosen = rng.sample(usable, m)
            opts = []
            for name, tag in chosen:
                v = gen_value(rng, name, tag, cx.specials.get(name, ()))
                if name == "creation_date":
                    v = v.replace("%", "pc")
                opts.append((name, tag, v))
            cli = gen_cli(cx) if rng.random() < 0.7 else {}
            runs = well_typed_case(cx, opts, cli, "combo")
            defaults_oracle(cx, baseline, opts, cli, runs)
            if k % 50 == 49:
                cx.flush()
        cx.flush()
        # ---- bad
        for k in range(n_bad):
            chosen = rng.sample([u for u in usable if u[0] not in POSTINIT_SENSITIVE and u[0] != "display"
                                 and "docmark" not in u[0] and "extensions" not in u[0]], rng.choice([0, 1, 2]))
            opts = [(n, t, gen_value(rng, n, t)) for n, t in chosen]
            opts = [(n, t, (v.replace("%", "pc").replace(";", ",") if isinstance(v, str) else v)) for n, t, v in opts]
            opts = [o for o in opts if ";" not in repr(o[2])]
            kw, _ = toml_data(rng, opts, scalar_ok=False)
            md = ["---"]
            for key, t, v in opts:
                md += md_lines_for(rng, key, t, v, tables["seps"].get(key, "="))
            base_runs = {"md": cx.run(md + ["---"], None, None, {}, 0, {"stream": "bad-base", "md": md}),
                         "toml": cx.run([], kw, None, {}, 0, {"stream": "bad-base", "toml": kw}),
                         "config": cx.run([], None, kw, {}, 0, {"stream": "bad-base", "toml": kw})}
            bad_case(cx, opts, base_runs)
            if k % 50 == 49:
                cx.flush()
        cx.flush()
        # ---- layout (round 6): source selection, several working directories, manifests elsewhere
        ev_dn, bad_dn = dirname_micro(cx, 300 if quick else 3000)
        ev_in, bad_in = include_micro(cx, 400 if quick else 4000)
        ev_micro += ev_dn + ev_in
        bad_micro += bad_dn + bad_in
        for k in range(n_layout):
            layout_case(cx, usable)
            if k % 40 == 39:
                cx.flush()
        cx.flush()
    drv.close()
    rep.coverage.update(
        evaluations=cx.evals + ev_micro,
        distinct_nontrivial=len(cx.distinct),
        rule="an evaluation is one run of ford.initialize() (or one micro request); non-trivial = a well-typed abstract "
             "option set with at least one option, run in all three formats, or one layout case (project + manifests elsewhere + "
             "text files + 4-5 starts from different working directories); distinct by digest of (options, values, CLI dests) / "
             "of the whole layout",
        samples=cx.samples,
        traces_validated_against_impl=cx.evals + ev_micro - cx.n_unmodelled,
        correspondence_disagreements=cx.n_corr_bad + bad_micro,
        unmodelled_skipped=cx.n_unmodelled,
        oracle_failures=cx.n_oracle_fail,
        input_histogram=dict(sorted(cx.hist.items())),
        schema_fields=len(tables["schema"]),
        cli_options=len(tables["cli"]),
    )
    rep.assumptions += [
        "tomllib and argparse are on the implementation side only: the model receives tomllib's parse of the same text "
        "and the options given on the command line; it builds argparse's namespace itself from the regenerated "
        "(dest, action, default) cliTable",
        "the preprocessor probe in parse_arguments is stubbed (name `subprocess` inside ford/__init__.py)",
        "creation_date is compared only when it contains no strftime directive",
        "ASCII whitespace only (str.strip / str.split on other Unicode spaces not modelled); no '$' in paths (expandvars), "
        "no symlinks below the project directory, no leading '//'",
        "layout stream (round 6): the file system the model sees is the list of fpm.toml files the harness wrote (state = the "
        "harness's own tomllib reading: absent / not TOML / no [extra] / no [extra.ford] / the table) and the text files it "
        "wrote (lines as Python's readlines() returns them); directories exist, no symlinks, no '~' or '$' in names",
        "include workaround of the metadata format: modelled exactly on the documented shape `pre{! name !}post` (one statement "
        "per line, included files free of include statements); any other text containing `{!` is `unmodelled` (counted); "
        "markdown_include's regex is compared with the model's line reader in the micro stream `incline`; include values are "
        "generated for the metadata format only (fpm.toml / --config keep the text literally - a documented, deprecated "
        "difference between the formats that oracle O1 is not asked about)",
        "Python type confusions downstream of an ill-typed TOML / --config value are `unmodelled` (skipped in the "
        "correspondence, counted); the oracle still evaluates them",
    ]
    return rep.finish(lean)
