"""C06 - USE association imports exactly the accessible names.

Streams
  micro   : USE_RE / ONLY_RE / RENAME_RE / get_used_entities against their Lean mirrors
            (`parseUseStmt`, `onlyMatch`, `renameSearch`, `getUsed . mkUse`) on random strings.
  graph   : generated module graphs (chains / diamonds of re-export, default public/private,
            access statements on imported names, every USE form, several USEs of one module,
            every entity kind, every list of access keywords of a module variable - PUBLIC /
            PRIVATE / PROTECTED alone and combined, in both orders, as attributes and/or as
            statements, in default-public and default-private modules) rendered to Fortran files ->
            real `Project(settings)` + `project.correlate()` in-process ->
            (a) correspondence: every all_* / pub_* table of every scope equals the Lean
                `Use.run` on the same statements, run in the order FORD really correlated,
            (b) property oracle: tables and resolved references equal the standard's
                accessibility rules, evaluated by an independent Datalog-style fixpoint,
                Contained procedures (module procedure + internal procedure) with USE statements of
                their own are part of both: about half of those USE statements import an entity under
                an identifier the host already knows with another meaning (host declares a namesake /
                `only: hostname => remote` / rename without ONLY), where use association must hide host
                association (F2018 19.5.1.4; model `runN`, theorem nested_tables_exact_partial).
            (d) binding (round 4): which module a USE statement refers to.  Project modules are also
                called like the entries of `settings.extra_mods` (the built-in iso_fortran_env, omp_lib,
                mpi, ... stubs and entries the project adds itself), spelled in any case, and are used
                plain, with `non_intrinsic` and - for the standard's intrinsic names - with `intrinsic`
                (which must NOT refer to the project's module, F2018 14.2.2).  Oracle: the USE is bound to
                the project's own module (observed `uses` of the scope) and imports from it; model
                `bindName` / `bindG` (lean/FordModel/UseBind.lean), micro stream `c06.bind` against the
                real `find_used_modules`.
            (e) interface bodies (round 4): bodies of unnamed, generic and abstract interface blocks with USE
                statements of their own and dummy arguments of an imported type - scopes without host
                association; external subroutines and contained procedures of programs.
            (f) one identifier, two kinds (round 5): derived types with a user-defined constructor (generic
                interface of the type's name) - an entry of pub_procs and one of pub_types under one key; every
                USE form must deliver both (model `getUsedAll`, theorem shared_identifier_imported_in_every_kind;
                micro stream `c06.used4`: the real get_used_entities with all four tables sharing identifiers).
            (c) order: FORD's correlation order is a topological order, USE statements of contained
                procedures included (model `isTopo` / `isTopoN`);
                same tables for every permutation of the file order (all permutations for a
                sub-sample of projects with <= 4 files, random permutations otherwise).
"""
from __future__ import annotations

import importlib
import itertools
import json
import random
import types
from pathlib import Path

from . import common
from .common import Driver, Report, lean_prove

PROP = "C06"
KIND_TABLES = [("all_procs", "pub_procs"), ("all_absinterfaces", "pub_absints"),
               ("all_types", "pub_types"), ("all_vars", "pub_vars")]
K_PROC, K_ABS, K_TYPE, K_VAR = 0, 1, 2, 3

F_RENAME = "C06-rename-without-only"
F_EMPTY = "C06-empty-only-imports-all"
F_PRIV = "C06-private-imported-reexported"
F_TWICE = "C06-only-remote-listed-twice"
F_PROT = "C06-protected-private-exported"
F_INTR = "C06-intrinsic-nature-binds-project-module"
F_ABSUSE = "C06-abstract-interface-body-use-unbound"
F_GENDEP = "C06-generic-interface-body-use-not-a-dependency"
ALL_FEATURES = (F_RENAME, F_EMPTY, F_PRIV, F_TWICE, F_PROT, F_INTR, F_ABSUSE, F_GENDEP)

# F2018 16.10.2 / 17.2 / 18.2: the intrinsic modules of the standard (a processor may add others).  A
# USE statement with module nature INTRINSIC is generated only for these names.
STD_INTRINSIC = ("iso_fortran_env", "iso_c_binding", "ieee_arithmetic", "ieee_exceptions", "ieee_features")
# names of the ExternalModule stubs every project gets (keys of ProjectSettings().extra_mods of the
# working tree, read at run time by `run`; this is only the fall-back when that fails)
EXT_POOL = list(STD_INTRINSIC)


def refers_to_project(u, mods, sw=frozenset()):
    """F2018 14.2.2: does USE statement `u` refer to the (nonintrinsic) module of the project called
    u["mod"]?  Without module nature, or with NON_INTRINSIC: yes when the project has such a module
    (a name that is both intrinsic and nonintrinsic refers to the nonintrinsic module); with
    INTRINSIC: never.  `sw`: defects to emulate."""
    if u["mod"] not in mods:
        return False
    return u.get("nature") != "intrinsic" or F_INTR in sw


def decl_accs(d):
    """access keywords of declaration `d` as FORD meets them: [[letter, inline], ...] with the
    keywords of the attribute list (left to right) before those given by access / PROTECTED
    statements (source order).  Letters: u public, r private, t protected.
    (`acc`: the single keyword of graphs stored by earlier versions of this harness.)"""
    if "accs" in d:
        return d["accs"]
    return [[d["acc"], bool(d.get("acc_inline"))]] if d.get("acc") else []


def acc_letters(d):
    return "".join(a for a, _ in decl_accs(d))


def std_accessible(d, def_pub):
    """F2018 8.5.2: the PUBLIC / PRIVATE attribute of the entity (declaration or access statement,
    in any order), else the default accessibility of the module.  PROTECTED (8.5.15) is not an
    accessibility: it only restricts where the entity may be defined."""
    letters = acc_letters(d)
    if "u" in letters:
        return True
    if "r" in letters:
        return False
    return def_pub


def protected_over_private(d, def_pub):
    """class of C06-protected-private-exported: PROTECTED is the last access keyword FORD meets for
    an entity that is private"""
    letters = acc_letters(d)
    return letters.endswith("t") and not std_accessible(d, def_pub)


# --------------------------------------------------------------------------
# independent implementation of the standard's rules (property oracle)
# --------------------------------------------------------------------------


def admitted_locals(use, remote, sw):
    """Local names under which `remote` becomes accessible through USE statement `use`
    (Fortran 2018 14.2.2: rename-list / only-list).  `sw` = defects to emulate."""
    items = use["items"]
    if use["only"]:
        if not items and F_EMPTY in sw:
            return {remote}
        locs = [l for (l, r) in items if r == remote]
        if F_TWICE in sw and locs:
            return {locs[-1]}
        return set(locs)
    locs = {l for (l, r) in items if r == remote}
    if F_RENAME in sw:
        return {remote}
    return locs if locs else {remote}


def root_of(graph, n):
    """the module / program whose `correlate` reaches the contained procedure or interface body `n`"""
    by = {x["name"]: x for x in graph.get("nested", [])}
    while n in by:
        n = by[n]["host"]
    return n


def spec_tables(graph, sw=frozenset(), order=None):
    """Least fixpoint of
         sees(S,k,n,e)    <- S declares e=(S,n) of kind k
         sees(S,k,l,e)    <- S uses N through u, exports(N,k,r,e), l in admitted(u,r)
         exports(M,k,n,e) <- M declares n, accessibility of n is not private
         exports(M,k,l,e) <- M imports (l,e), l not declared private in M,
                             (default accessibility of M is public or l declared public)
       then, stratum by stratum from the outermost contained procedure inwards (F2018 19.5.1.4,
       host association):
         sees(P,k,l,e)    <- host(P) sees (k,l,e), and l is neither the name of an entity
                             declared in P nor of an entity P obtains by USE (of ANY kind:
                             class-1 identifiers share one namespace) - a local or
                             use-associated identifier hides the host's.
       The body of an interface block (`ibody`) is a scope of its own WITHOUT host association
       (F2018 19.5.1.4: "an interface body ... has access to entities from its host only via IMPORT"):
       it sees exactly what its USE statements give it.
       Defect emulation only: F_ABSUSE - the USE statements of abstract interface bodies are ignored;
       F_GENDEP with `order` (the order in which the implementation correlated the modules) - a USE in a
       body of a generic interface whose root module was correlated before the used module sees only
       what that module declares itself, not yet what it re-exports.
    returns {scope: {k: {"all": {name: set(ent)}, "pub": {...}}}}"""
    scopes = {s["name"]: s for s in graph["scopes"] + graph.get("nested", [])}
    pos = {n: i for i, n in enumerate(order or [])}
    early = set()  # (scope, used module): import from the declared exports only
    if F_GENDEP in sw and order:
        for s in graph.get("nested", []):
            if s.get("ibody") == "generic":
                r = root_of(graph, s["name"])
                for u in s["uses"]:
                    if r in pos and u["mod"] in pos and pos[r] < pos[u["mod"]]:
                        early.add((s["name"], u["mod"]))
    mods = {n for n, s in scopes.items() if s["is_mod"]}
    sees = {n: [dict() for _ in range(4)] for n in scopes}
    imps = {n: [dict() for _ in range(4)] for n in scopes}
    exps = {n: [dict() for _ in range(4)] for n in scopes}

    def add(tab, name, ent):
        s = tab.setdefault(name, set())
        if ent in s:
            return False
        s.add(ent)
        return True

    for n, s in scopes.items():
        for d in s["decls"]:
            ent = (n, d["name"])
            add(sees[n][d["kind"]], d["name"], ent)
            accessible = std_accessible(d, s["def_pub"]) or (F_PROT in sw and protected_over_private(d, s["def_pub"]))
            if s["is_mod"] and accessible:
                add(exps[n][d["kind"]], d["name"], ent)
    exps0 = {n: [{nm: set(es) for nm, es in t.items()} for t in per] for n, per in exps.items()}
    changed = True
    while changed:
        changed = False
        for n, s in scopes.items():
            for u in s["uses"]:
                if not refers_to_project(u, mods, sw):
                    continue
                if s.get("ibody") == "abstract" and F_ABSUSE in sw:
                    continue
                src = exps0 if (n, u["mod"]) in early else exps
                for k in range(4):
                    for r, ents in list(src[u["mod"]][k].items()):
                        for l in admitted_locals(u, r, sw):
                            for e in list(ents):
                                if add(imps[n][k], l, e):
                                    changed = True
                                add(sees[n][k], l, e)
            if not s["is_mod"]:
                continue
            for k in range(4):
                for l, ents in imps[n][k].items():
                    private = l in s["priv_names"] and F_PRIV not in sw
                    public = s["def_pub"] or l in s["pub_names"]
                    if public and not private:
                        for e in ents:
                            if add(exps[n][k], l, e):
                                changed = True
    # host association, outermost first (graph["nested"] lists a host before its children)
    for s in graph.get("nested", []):
        n, h = s["name"], s.get("host")
        if not h or h not in sees or s.get("ibody"):
            continue
        hidden = {d["name"] for d in s["decls"]} | {l for k in range(4) for l in imps[n][k]}
        for k in range(4):
            for nm, ents in sees[h][k].items():
                if nm not in hidden:
                    for e in ents:
                        add(sees[n][k], nm, e)
    # ("own": the identifiers of kind k the scope declares or obtains by USE, i.e. before host association)
    own = {n: [{d["name"] for d in s["decls"] if d["kind"] == k} | set(imps[n][k]) for k in range(4)]
           for n, s in scopes.items()}
    return {n: {k: {"all": sees[n][k], "pub": exps[n][k] if scopes[n]["is_mod"] else {}, "own": own[n][k]} for k in range(4)}
            for n in scopes}


def has_clash(spec, graph):
    """A name that denotes two entities in one scope (any kind: class-1 names share one
    namespace): not a legal program, outside the property's domain."""
    return any(own_clash(spec, n) for n in spec)


def two_meanings(kes):
    """`kes`: the (kind, entity) pairs one identifier denotes in a scope.  More than one is a clash,
    except for the one pair Fortran allows under a single identifier (F2018 15.4.3.4.1: "a generic
    name may be the same as a derived type name"): a derived type and the generic interface of the same
    name declared next to it (its user-defined constructor) - the same (scope, name) seen as a
    procedure and as a type."""
    if len(kes) <= 1:
        return False
    return len({e for _, e in kes}) > 1 or {k for k, _ in kes} != {K_PROC, K_TYPE}


def features(graph):
    mods = {s["name"] for s in graph["scopes"] if s["is_mod"]}
    f = set()
    for s in graph["scopes"] + graph.get("nested", []):
        for u in s["uses"]:
            if u["mod"] not in mods:
                continue
            if u.get("nature") == "intrinsic":
                f.add(F_INTR)
            if s.get("ibody") == "abstract":
                f.add(F_ABSUSE)
            if s.get("ibody") == "generic" and root_of(graph, s["name"]) in mods:
                f.add(F_GENDEP)
            if not u["only"] and u["items"]:
                f.add(F_RENAME)
            if u["only"] and not u["items"]:
                f.add(F_EMPTY)
            if u["only"]:
                rem = [r for _, r in u["items"]]
                if len(set(rem)) < len(rem):
                    f.add(F_TWICE)
        if s["is_mod"] and s["def_pub"] and s["priv_names"]:
            f.add(F_PRIV)
        if s["is_mod"] and any(protected_over_private(d, s["def_pub"]) for d in s["decls"]):
            f.add(F_PROT)
    return f


def single(spec):
    """{scope:{k:{all:{name:"mod.name"}}}} from the set-valued spec (names with one entity)."""
    out = {}
    for n, per in spec.items():
        out[n] = {}
        for k in range(4):
            out[n][k] = {w: {nm: ".".join(sorted(es)[0]) for nm, es in per[k][w].items()} for w in ("all", "pub")}
    return out


# --------------------------------------------------------------------------
# generator
# --------------------------------------------------------------------------

KIND_LETTER = {K_PROC: "s", K_ABS: "a", K_TYPE: "t", K_VAR: "v"}


def rnd_case(rng, s):
    r = rng.random()
    if r < 0.6:
        return s
    if r < 0.8:
        return s.upper()
    return "".join(c.upper() if rng.random() < 0.5 else c for c in s)


def sp(rng, zero_ok=True):
    return rng.choice(["", " ", " ", "  "] if zero_ok else [" ", " ", "  "])


def render_use(rng, u):
    """statement text for abstract use `u` (adds u['stmt'])"""
    form = rng.random()
    mod = rnd_case(rng, u["mod"])
    kw = rnd_case(rng, "use")
    if u.get("nature"):
        head = f"{kw}{sp(rng)},{sp(rng)}{rnd_case(rng, u['nature'])}{sp(rng)}::{sp(rng)}{mod}"
    elif form < 0.8:
        head = f"{kw}{sp(rng, False)}{mod}"
    else:
        head = f"{kw}{sp(rng)}::{sp(rng)}{mod}"
    items = []
    for l, r in u["items"]:
        if l == r and not u.get("force_arrow"):
            items.append(rnd_case(rng, l))
        else:
            items.append(f"{rnd_case(rng, l)}{sp(rng)}=>{sp(rng)}{rnd_case(rng, r)}")
    lst = (sp(rng) + "," + sp(rng)).join(items)
    if u["only"]:
        rest = f"{sp(rng)},{sp(rng)}{rnd_case(rng, 'only')}{sp(rng)}:{sp(rng)}{lst}"
    elif items:
        rest = f"{sp(rng)},{sp(rng)}{lst}"
    else:
        rest = ""
    u["stmt"] = (head + rest).rstrip()
    return u["stmt"]


def gen_graph(rng, idx, hist):
    """Abstract project: scopes in dependency order (scope i uses only modules j < i)."""
    nmod = rng.choice([1, 2, 2, 3, 3, 3, 4, 4, 5, 6])
    with_prog = rng.random() < 0.6
    shape = rng.choice(["chain", "diamond", "random", "random"])
    scopes = []
    nested = []
    exported = {}  # module -> {k: set(names)} per the standard (kept incrementally for name choice)
    clashy = rng.random() < 0.06
    defects = rng.random() < 0.30  # allow known-defect forms in this project
    # the scopes that are not modules: an external (top-level) subroutine and / or a main program; FORD
    # appends both to the list of containers after the ordered modules
    others = (["subroutine"] if rng.random() < 0.25 else []) + (["program"] if with_prog else [])
    total = nmod + len(others)
    final, extra_mods = gen_names(rng, nmod, hist)
    natures = {}  # (index of the root scope, index of the used module) -> module nature of every such USE

    def nature_of(i, j):
        """one module nature per (module or program with its contained procedures, used module): a
        scoping unit shall not access an intrinsic and a nonintrinsic module of the same name"""
        if (i, j) not in natures:
            r = rng.random()
            if final[f"m{j}"] in STD_INTRINSIC and defects and r < 0.5:
                natures[i, j] = "intrinsic"  # refers to the intrinsic module, not to the project's (known defect)
            else:
                natures[i, j] = "non_intrinsic" if r < 0.65 and final[f"m{j}"] in EXT_POOL or r < 0.12 else None
            if final[f"m{j}"] in EXT_POOL or final[f"m{j}"] in {k.lower() for k in extra_mods}:
                key = f"use-of-module-named-like-extra_mods-entry:{natures[i, j] or 'no-nature'}"
                hist[key] = hist.get(key, 0) + 1
        return natures[i, j]

    taken_names = set(final.values())
    unknown_pool = [n for n in EXT_POOL + [k.lower() for k in extra_mods] + ["nosuchmod"] if n not in taken_names]
    for i in range(total):
        is_mod = i < nmod
        unit = "module" if is_mod else others[i - nmod]
        name = f"m{i}" if is_mod else "prog" if unit == "program" else f"nxt{i}"
        def_pub = rng.random() < 0.6 if is_mod else True
        s = {"name": name, "is_mod": is_mod, "def_pub": def_pub, "decls": [], "uses": [],
             "pub_names": [], "priv_names": [], "calls": [], "unit": unit}
        if unit == "subroutine":
            hist["scope:external-subroutine"] = hist.get("scope:external-subroutine", 0) + 1
        # ---- uses
        if i > 0:
            avail = list(range(min(i, nmod)))
            if shape == "chain":
                used = [avail[-1]]
            elif shape == "diamond" and i >= 3:
                used = rng.sample(avail, 2)
            else:
                used = rng.sample(avail, rng.randint(0 if i < total - 1 else 1, min(3, len(avail))))
            if rng.random() < 0.08 and unknown_pool:  # a module that is not in the project (stub / unknown)
                un = rng.choice(unknown_pool)
                s["uses"].append({"mod": un, "only": False, "items": [],
                                  "nature": rng.choice(["intrinsic", None]) if un in STD_INTRINSIC else None})
            for j in used:
                m = f"m{j}"
                nstm = 2 if rng.random() < 0.2 else 1
                for _ in range(nstm):
                    s["uses"].append(gen_use(rng, m, exported[m], i, len(s["uses"]), defects, clashy, scopes[j]))
                    s["uses"][-1]["nature"] = nature_of(i, j)
        # ---- imported names so far (standard), to place access statements
        graph_so_far = {"scopes": scopes + [s]}
        spec = spec_tables(graph_so_far)
        imported = sorted({n for k in range(4) for n in spec[name][k]["all"]})
        if is_mod:
            for n in imported:
                if not def_pub:
                    r = rng.random()
                    if r < 0.5:
                        s["pub_names"].append(n)
                    elif r < 0.6:
                        s["priv_names"].append(n)
                elif defects and rng.random() < 0.15:
                    s["priv_names"].append(n)
        # ---- declarations
        nd = rng.randint(1, 5)
        for q in range(nd):
            kind = rng.choice([K_PROC, K_PROC, K_ABS, K_TYPE, K_TYPE, K_VAR, K_VAR])
            if not is_mod and kind == K_ABS and rng.random() < 0.5:
                kind = K_VAR
            dn = f"{KIND_LETTER[kind]}{i}{chr(97 + q)}"
            if clashy and imported and rng.random() < 0.3:
                dn = rng.choice(imported)
                if any(d["name"] == dn for d in s["decls"]):
                    continue
                # input normal form: access statements about declared names live in the declaration
                s["pub_names"] = [x for x in s["pub_names"] if x != dn]
                s["priv_names"] = [x for x in s["priv_names"] if x != dn]
            d = {"name": dn, "kind": kind, "accs": gen_accs(rng, kind, def_pub, defects, hist) if is_mod else [],
                 "form": rng.choice(["sub", "fun", "gen", "ifc"] if not clashy else ["sub", "fun", "gen"]) if kind == K_PROC else "",
                 "ref": None}
            s["decls"].append(d)
            if kind == K_TYPE and dn.startswith("t") and rng.random() < (0.3 if is_mod else 0.15):
                # a user-defined constructor: generic interface with the NAME OF THE TYPE (F2018 15.4.3.4.1).
                # One identifier, two entities of different kinds (FORD: an entry of all_procs / pub_procs
                # and one of all_types / pub_types); an access statement names the identifier, i.e. both.
                d["accs"] = [[a, False] for a, _ in d["accs"]]
                s["decls"].append({"name": dn, "kind": K_PROC, "accs": [list(a) for a in d["accs"]], "form": "gen",
                                   "ref": None, "ctor": True})
                hist["type-with-constructor:" + ("module" if is_mod else "program")] = \
                    hist.get("type-with-constructor:" + ("module" if is_mod else "program"), 0) + 1
        # ---- references through imported names (types of variables, extends, calls)
        tnames = sorted(spec[name][K_TYPE]["all"])
        hidden = sorted({n for j in range(min(i, nmod)) for d in scopes[j]["decls"] if d["kind"] == K_TYPE for n in [d["name"]]})
        for d in s["decls"]:
            if d["kind"] in (K_VAR, K_TYPE) and rng.random() < 0.5 and (tnames or hidden):
                d["ref"] = rng.choice(tnames) if tnames and rng.random() < 0.7 else rng.choice(hidden or tnames)
        if not is_mod:
            pn = sorted(n for n in spec[name][K_PROC]["all"] if n not in spec[name][K_TYPE]["all"])
            hp = sorted({d["name"] for j in range(nmod) for d in scopes[j]["decls"] if d["kind"] == K_PROC and not d.get("ctor")})
            for _ in range(rng.randint(0, 3)):
                if pn and rng.random() < 0.7:
                    s["calls"].append(rng.choice(pn))
                elif hp:
                    s["calls"].append(rng.choice(hp))
        # ---- a declaration that has the same name (and kind) as an entity exported by a module this
        #      module does not use: legal, and a contained procedure may `use` that module, whereupon
        #      the use-associated entity hides this host-associated one (F2018 19.5.1.4)
        twin = None
        if is_mod and i >= 1 and not clashy and rng.random() < 0.22:
            used_here = {u["mod"] for u in s["uses"]}
            # (names the known defect classes would make visible here are avoided as well, so that
            #  the namesake never collides with a spuriously imported entity)
            taken = set(imported) | {d["name"] for d in s["decls"]}
            for sw in switch_sets(graph_so_far):
                loose = spec_tables(graph_so_far, sw)
                taken |= {n for k in range(4) for n in loose[name][k]["all"]}
            cands = [(j, k, r) for j in range(i) if f"m{j}" not in used_here
                     for k in range(4) for r in exported[f"m{j}"][k]
                     if r not in taken and not r.startswith("n") and not any(r in exported[f"m{j}"][k2] for k2 in range(4) if k2 != k)]
            if cands:
                j, k, r = rng.choice(cands)
                # (always private: a public namesake would only make later modules ambiguous)
                s["decls"].append({"name": r, "kind": k, "accs": [["r", k in (K_VAR, K_TYPE) and rng.random() < 0.5]],
                                   "form": rng.choice(["sub", "fun"]) if k == K_PROC else "", "ref": None, "twin": True})
                twin = (j, k, r)
                hist["twin-decl:" + KIND_LETTER[k]] = hist.get("twin-decl:" + KIND_LETTER[k], 0) + 1
        scopes.append(s)
        if is_mod:
            spec = spec_tables({"scopes": scopes})
            exported[name] = {k: sorted(spec[name][k]["pub"]) for k in range(4)}
        if i >= 1 and not clashy and (twin or rng.random() < (0.4 if is_mod else 0.25)):
            gen_nested(rng, i, s, scopes, nested, exported, defects, hist, twin, nature_of, nmod)
        if i >= 1 and not clashy:
            gen_bodies(rng, i, s, scopes, nested, exported, defects, hist, nature_of, min(i, nmod))
    hist["shape:" + shape] = hist.get("shape:" + shape, 0) + 1
    hist[f"modules:{nmod}"] = hist.get(f"modules:{nmod}", 0) + 1
    return {"id": idx, "scopes": scopes, "nested": nested, "final_names": final, "extra_mods": extra_mods}


def gen_names(rng, nmod, hist):
    """final names of the modules m0..m<n-1> (permuted, so that alphabetical order - toposort's
    tie-break - is unrelated to the dependency order) and the project's own `extra_mods` setting.
    Some modules are called like an ExternalModule stub that FORD keeps next to the project's modules:
    a built-in entry of extra_mods (the project ships its own omp_lib / mpi / iso_fortran_env ...) or
    an entry the project configured itself."""
    names = [f"m{j}" for j in range(nmod)]
    shuffled = list(names)
    rng.shuffle(shuffled)
    final = dict(zip(names, shuffled))
    extra_mods = {}
    r = rng.random()
    if r < 0.30:
        for m, n in zip(rng.sample(names, min(nmod, rng.choice([1, 1, 2]))), rng.sample(EXT_POOL, 2)):
            final[m] = n
            hist["module-named-like:built-in-extra_mods-entry"] = hist.get("module-named-like:built-in-extra_mods-entry", 0) + 1
    if rng.random() < 0.15:
        for q in range(rng.choice([1, 1, 2])):
            if rng.random() < 0.6:
                n = rnd_case(rng, final[rng.choice(names)])  # the project lists one of its own modules
                hist["module-named-like:configured-extra_mods-entry"] = hist.get("module-named-like:configured-extra_mods-entry", 0) + 1
            else:
                n = rnd_case(rng, f"xlib{q}")
            if n.lower() not in {k.lower() for k in extra_mods}:
                extra_mods[n] = f"https://example.org/{n.lower()}"
    return final, extra_mods


def switch_sets(graph):
    """every combination of the known defect classes that are PRESENT in the project (a switch whose
    class is absent changes nothing; F_GENDEP needs the implementation's order and only removes names)"""
    feats = sorted(features(graph) - {F_GENDEP})
    return [frozenset(c) for r in range(len(feats) + 1) for c in itertools.combinations(feats, r)]



def gen_accs(rng, kind, def_pub, defects, hist):
    """access keywords of a module entity, in the order FORD meets them, each either in the
    attribute list of the declaration (variables and types) or in a statement of its own.
    Variables also get PROTECTED, alone and together with PUBLIC / PRIVATE in both orders and in
    both kinds of module (accessibility is decided by PUBLIC / PRIVATE / the default, never by
    PROTECTED).  The two forms in which the unchanged code exports a private variable (PROTECTED
    last on a private entity, finding C06-protected-private-exported) only in `defects` projects."""
    r = rng.random()
    if kind != K_VAR:
        letters = "r" if r < 0.25 else "u" if r < 0.5 else ""
    elif r < 0.20:
        letters = "r"
    elif r < 0.40:
        letters = "u"
    elif r < 0.47:
        letters = "t" if def_pub or (defects and rng.random() < 0.5) else "ut"
    elif r < 0.55:
        letters = rng.choice(["ut", "ut", "tu"])
    elif r < 0.58:
        letters = "rt" if defects and rng.random() < 0.5 else "tr"
    else:
        letters = ""
    can_inline = kind in (K_VAR, K_TYPE)
    if not can_inline:
        ninl = 0
    elif len(letters) == 2:
        ninl = rng.choice([0, 1, 2, 2])
    else:
        ninl = 1 if rng.random() < 0.5 else 0
    if "t" in letters:
        key = "access:" + letters + ("/default-public" if def_pub else "/default-private")
        hist[key] = hist.get(key, 0) + 1
    return [[a, i < ninl] for i, a in enumerate(letters)]


def own_clash(spec, name):
    """does one identifier denote two entities (of any kind) in scope `name`?"""
    seen = {}
    for k in range(4):
        for nm, ents in spec[name][k]["all"].items():
            for e in ents:
                seen.setdefault(nm, set()).add((k, e))
    return any(two_meanings(v) for v in seen.values())


def hides_across_kinds(spec, graph, name):
    """does the contained procedure `name` declare or use-associate an identifier as an entity of one kind
    while its host knows that identifier (also) as an entity of ANOTHER kind which the procedure does not
    declare or use-associate?  The standard hides the host's identifier altogether; FORD keeps one table
    per kind and leaves the host's other-kind entry visible.  That is host association proper (the scoping
    property, hypothesis `SameKindHiding` of the theorems), so such programs are not generated.  It can
    only arise where one identifier has two kinds: a derived type with its constructor."""
    ns = next((x for x in graph.get("nested", []) if x["name"] == name), None)
    if ns is None or ns.get("ibody") or ns.get("host") not in spec:
        return False
    here, up = spec[name], spec[ns["host"]]
    mine = set().union(*(here[k]["own"] for k in range(4)))
    return any(l in up[k]["all"] and l not in here[k]["own"] for k in range(4) for l in mine)


def own_clash_any(graph, name):
    """... by the standard's rules or under any combination of the known defect classes (the
    classification of a failing project needs single-valued tables for each of them); likewise
    hiding across kinds"""
    for sw in switch_sets(graph):
        spec = spec_tables(graph, sw)
        if own_clash(spec, name) or hides_across_kinds(spec, graph, name):
            return True
    return False


def gen_nested(rng, i, s, scopes, nested, exported, defects, hist, twin=None, nature_of=lambda i, j: None, navail=None):
    """module procedure n<i>a (and, mostly, its internal procedure n<i>b) with USE statements of
    their own: the module then depends on those modules only through get_deps' recursion.
    About half of these USE statements import an entity under an identifier that is already
    visible in the host (declared there, or imported there from another module): use association
    must then hide the host-associated entity, for every kind of entity and every USE form."""
    levels = 2 if rng.random() < 0.7 else 1
    host = s["name"]
    used_at_module_level = {u["mod"] for u in s["uses"]}
    twin_level = rng.randrange(levels) if twin else None
    first = len(nested)

    def bump(key):
        hist[key] = hist.get(key, 0) + 1

    for lv in range(levels):
        nm = f"n{i}{'ab'[lv]}"
        ns = {"name": nm, "is_mod": False, "def_pub": True, "host": host, "decls": [], "uses": [],
              "pub_names": [], "priv_names": [], "calls": [], "level": lv + 1}
        nested.append(ns)
        (s if lv == 0 else nested[-2])["decls"].append(
            {"name": nm, "kind": K_PROC, "accs": [], "form": "sub", "ref": None, "inner": nm})
        cands = [j for j in range(i if navail is None else min(i, navail))]
        fresh = [j for j in cands if f"m{j}" not in used_at_module_level]
        deepest = lv == levels - 1
        nuse = 0
        if twin_level == lv:
            # the module whose entity has a namesake in the host module, in a form that admits it
            j, k, r = twin
            exp = exported[f"m{j}"]
            u = {"mod": f"m{j}", "only": False, "items": [], "nature": nature_of(i, j)}
            if rng.random() < 0.6:
                others = sorted({n for kk in range(4) for n in exp[kk]} - {r})
                u["only"] = True
                u["items"] = [[r, r]] + [[n, n] for n in rng.sample(others, min(len(others), rng.randint(0, 2)))]
                rng.shuffle(u["items"])
            ns["uses"].append(u)
            nuse += 1
            if own_clash_any({"scopes": scopes, "nested": nested}, nm):
                ns["uses"].pop()  # (only with a type + constructor in play: hiding across kinds)
                nuse -= 1
            else:
                bump("nested-shadow:namesake-" + ("only" if u["only"] else "all"))
        if deepest or rng.random() < 0.5 or nuse:
            for t in range(rng.choice([1, 1, 1, 2]) - nuse):
                j = rng.choice(fresh) if fresh and rng.random() < 0.7 else rng.choice(cands)
                u = gen_use(rng, f"m{j}", exported[f"m{j}"], i, 7 + 2 * lv + t, defects, False, scopes[j])
                u["nature"] = nature_of(i, j)
                ns["uses"].append(u)
                nuse += 1
                if own_clash_any({"scopes": scopes, "nested": nested}, nm):
                    ns["uses"].pop()  # two USEs of one scope would give one identifier two entities
                    nuse -= 1
                    continue
                if rng.random() < 0.55:
                    shadow_by_rename(rng, u, ns, scopes, nested, exported, defects, bump)
        if nuse:
            bump("nested-use-level:%d" % (lv + 1))
        host = nm
    # references through the names each procedure sees (types of locals, calls), preferring the
    # identifiers whose meaning differs from the host's
    spec = spec_tables({"scopes": scopes, "nested": nested})
    for ns in nested[first:]:
        here, up = spec[ns["name"]], spec[ns["host"]]
        deepest = ns is nested[-1]

        def differs(k, n):
            return here[k]["all"].get(n) != up[k]["all"].get(n)

        tn = sorted(here[K_TYPE]["all"])
        pn = sorted(n for n in here[K_PROC]["all"] if not n.startswith("n") and n not in here[K_TYPE]["all"])
        tn_d = [n for n in tn if differs(K_TYPE, n)]
        pn_d = [n for n in pn if differs(K_PROC, n)]
        for q in range(rng.randint(0, 2) if deepest else rng.randint(0, 1)):
            if tn:
                ns["decls"].append({"name": f"z{i}{ns['level']}{q}", "kind": K_VAR, "accs": [], "form": "",
                                    "ref": rng.choice(tn_d) if tn_d and rng.random() < 0.6 else rng.choice(tn)})
        for _ in range(rng.randint(0, 2) if deepest else rng.randint(0, 1)):
            if pn:
                ns["calls"].append(rng.choice(pn_d) if pn_d and rng.random() < 0.6 else rng.choice(pn))


def gen_bodies(rng, i, s, scopes, nested, exported, defects, hist, nature_of, navail):
    """USE statements inside interface bodies: of an (unnamed) interface block, of a generic interface
    and of an abstract interface declared in scope `s`.  Each such body is a scope of its own: it
    obtains names ONLY through its USE statements (no host association without IMPORT); a dummy
    argument is declared with a type it imports.  `find_used_modules` and `get_deps` have to reach
    these statements through `entity.interfaces` / the interface's routines."""
    for d in list(s["decls"]):
        if d.get("inner") or d.get("twin") or not (d["kind"] == K_ABS or (d["kind"] == K_PROC and d["form"] in ("gen", "ifc"))):
            continue
        if rng.random() > 0.4:
            continue
        sort = "abstract" if d["kind"] == K_ABS else "generic" if d["form"] == "gen" else "plain"
        if sort == "abstract" and not defects:
            continue  # the unchanged code never binds these (known defect form)
        if sort == "generic" and s["is_mod"] and not defects and rng.random() < 0.5:
            continue
        nm = d["name"] + "_impl" if sort == "generic" else d["name"]
        ns = {"name": nm, "is_mod": False, "def_pub": True, "host": s["name"], "decls": [], "uses": [],
              "pub_names": [], "priv_names": [], "calls": [], "level": 1, "ibody": sort, "argrefs": []}
        nested.append(ns)
        used_here = {u["mod"] for u in s["uses"]}
        cands = list(range(navail))
        fresh = [j for j in cands if f"m{j}" not in used_here]
        for t in range(rng.choice([1, 1, 2])):
            j = rng.choice(fresh) if fresh and rng.random() < 0.6 else rng.choice(cands)
            u = gen_use(rng, f"m{j}", exported[f"m{j}"], i, 20 + 3 * len(nested) + t, defects, False, scopes[j])
            u["nature"] = nature_of(i, j)
            ns["uses"].append(u)
            if own_clash_any({"scopes": scopes, "nested": nested}, nm):
                ns["uses"].pop()
        if not ns["uses"]:
            nested.pop()
            continue
        d["body"] = nm
        spec = spec_tables({"scopes": scopes, "nested": nested})
        tn = sorted(spec[nm][K_TYPE]["all"])
        for q in range(rng.randint(0, 2)):
            if tn:
                ns["argrefs"].append(rng.choice(tn))
        key = f"interface-body-with-use:{sort}/{'module' if s['is_mod'] else 'program'}"
        hist[key] = hist.get(key, 0) + 1


def shadow_by_rename(rng, u, ns, scopes, nested, exported, defects, bump):
    """give one entity imported by `u` a local name that is already visible in the host of `ns`
    with another meaning (same kind): `use m, only: hostname => remote` (or, among the defect
    forms, `use m, hostname => remote`).  Reverted when it would make an identifier ambiguous."""
    spec = spec_tables({"scopes": scopes, "nested": nested})
    hostsees = spec[ns["host"]]
    modexp = spec[u["mod"]] if u["mod"] in spec else None
    if modexp is None:
        return
    cands = []
    for k in range(4):
        for hn, hents in hostsees[k]["all"].items():
            if hn.startswith("n") or len(hents) != 1:
                continue
            if any(hn in hostsees[k2]["all"] for k2 in range(4) if k2 != k):
                continue
            for r, rents in modexp[k]["pub"].items():
                if len(rents) == 1 and rents != hents:
                    cands.append((k, hn, r))
    if not cands:
        return
    k, hn, r = rng.choice(sorted(cands))
    saved = (u["only"], [list(x) for x in u["items"]])
    if any(l == hn for l, _ in u["items"]):
        return
    if u["only"]:
        if any(rr == r for _, rr in u["items"]):
            u["items"] = [[hn, rr] if rr == r else [l, rr] for l, rr in u["items"]]
        else:
            u["items"].insert(rng.randint(0, len(u["items"])), [hn, r])
        form = "only"
    elif not u["items"] and not (defects and rng.random() < 0.4):
        u["only"] = True
        u["items"] = [[hn, r]]
        form = "only"
    else:  # rename list without ONLY: everything else of the module comes along
        u["items"] = [x for x in u["items"] if x[1] != r] + [[hn, r]]
        form = "bare"
    if own_clash_any({"scopes": scopes, "nested": nested}, ns["name"]):
        u["only"], u["items"] = saved
        return
    bump(f"nested-shadow:rename-{form}-{KIND_LETTER[k]}")


def gen_use(rng, m, exp, i, q, defects, clashy, mscope):
    names = sorted({n for k in range(4) for n in exp[k]})
    private = [d["name"] for d in mscope["decls"] if d["name"] not in names]
    r = rng.random()
    u = {"mod": m, "only": False, "items": []}

    # identifiers under which the module exports a derived type AND its constructor
    pairs = sorted(set(exp[K_PROC]) & set(exp[K_TYPE]))

    def pick(n):
        n = min(n, len(names))
        out = rng.sample(names, n) if n else []
        if out and pairs and rng.random() < 0.5 and not set(out) & set(pairs):
            out[rng.randrange(len(out))] = rng.choice(pairs)
        return out

    def loc(rem, z):
        if clashy and rng.random() < 0.3:
            return rng.choice(names + private + ["x"])
        return f"{rem[0]}x{i}{q}{z}"

    if r < 0.30 or not names:
        if not names and rng.random() < 0.5:
            u["only"] = True
            u["items"] = [[p, p] for p in private[:1]] or [["nosuch", "nosuch"]]
        return u
    if r < 0.55:  # only, plain names (sometimes a private or unknown name)
        u["only"] = True
        u["items"] = [[n, n] for n in pick(rng.randint(1, 3))]
        if private and rng.random() < 0.25:
            u["items"].append([private[0], private[0]])
        if rng.random() < 0.1:
            u["items"].append(["nosuch", "nosuch"])
        return u
    if r < 0.85:  # only with renames
        u["only"] = True
        for z, n in enumerate(pick(rng.randint(1, 3))):
            u["items"].append([loc(n, z), n] if rng.random() < 0.6 else [n, n])
        if private and rng.random() < 0.2:
            u["items"].append([f"px{i}{q}", private[0]])
        if defects and rng.random() < 0.3 and u["items"]:
            rem = u["items"][0][1]
            u["items"].append([f"{rem[0]}y{i}{q}", rem])  # same remote twice
        return u
    if not defects:
        return u
    if r < 0.95:  # renames without only
        for z, n in enumerate(pick(rng.randint(1, 2))):
            u["items"].append([loc(n, z), n])
        return u
    u["only"] = True  # `only:` with an empty list
    return u


# --------------------------------------------------------------------------
# rendering
# --------------------------------------------------------------------------

ACC_WORD = {"u": "public", "r": "private", "t": "protected"}


def render_proc(rng, ns, nested, ind):
    """contained subroutine `ns` with its USE statements, local variables, calls and internal procedure"""
    L = [f"{ind}subroutine {ns['name']}()"]
    for u in ns["uses"]:
        L.append(f"{ind}  " + (u.get("stmt") or render_use(rng, u)))
    child = None
    for d in ns["decls"]:
        if d["kind"] == K_VAR:
            ty = f"type({rnd_case(rng, d['ref'])})" if d["ref"] else "integer"
            L.append(f"{ind}  {ty} :: {d['name']}")
        elif d.get("inner"):
            child = next(x for x in nested if x["name"] == d["inner"])
    for c in ns["calls"]:
        L.append(f"{ind}  call {rnd_case(rng, c)}()")
    if child is not None:
        L.append(f"{ind}contains")
        L += render_proc(rng, child, nested, ind + "  ")
    L.append(f"{ind}end subroutine {ns['name']}")
    return L


def render_body(rng, d, nested, ind, head="subroutine"):
    """interface body of declaration `d`: `subroutine name(args)` (a function for the specific of a
    constructor: all specifics of a generic named like a type are functions) with the USE statements
    and typed dummy arguments of its scope (if it has one)"""
    nm = d["name"] + "_impl" if d["form"] == "gen" else d["name"]
    head, tail = ("integer function", "function") if d.get("ctor") else ("subroutine", "subroutine")
    b = next((x for x in nested if x["name"] == d.get("body")), None)
    if b is None:
        if d["form"] == "gen":
            return [f"{ind}{head} {nm}(x)", f"{ind}  integer :: x", f"{ind}end {tail} {nm}"]
        return [f"{ind}subroutine {nm}()", f"{ind}end subroutine {nm}"]
    args = [f"x{q}" for q in range(len(b["argrefs"]))] or (["x"] if d["form"] == "gen" else [])
    L = [f"{ind}{head} {nm}({', '.join(args)})"]
    for u in b["uses"]:
        L.append(f"{ind}  " + (u.get("stmt") or render_use(rng, u)))
    if not b["argrefs"] and args:
        L.append(f"{ind}  integer :: x")
    for a, t in zip(args, b["argrefs"]):
        L.append(f"{ind}  type({rnd_case(rng, t)}) :: {a}")
    L.append(f"{ind}end {tail} {nm}")
    return L


def render_scope(rng, s, nested=()):
    L = []
    unit = s.get("unit") or ("module" if s["is_mod"] else "program")
    L.append(f"module {s.get('decl_name', s['name'])}" if s["is_mod"] else
             f"program {s['name']}" if unit == "program" else f"subroutine {s['name']}()")
    for u in s["uses"]:
        L.append("  " + (u.get("stmt") or render_use(rng, u)))
    L.append("  implicit none")
    if s["is_mod"] and not s["def_pub"]:
        L.append("  private")
    elif s["is_mod"] and rng.random() < 0.3:
        L.append("  public")
    stmts = []
    for n in s["pub_names"]:
        stmts.append(f"  public :: {rnd_case(rng, n)}")
    for n in s["priv_names"]:
        stmts.append(f"  private :: {rnd_case(rng, n)}")
    body, contains = [], []
    own = []  # (declaration index, position among its statements, text): relative order is kept
    for di, d in enumerate(s["decls"]):
        n = d["name"]
        inline = ""
        for a, inl in decl_accs(d):
            if d.get("ctor"):
                break  # the access statements of the type name the identifier: they are the constructor's too
            word = rnd_case(rng, ACC_WORD[a])
            if inl and d["kind"] in (K_VAR, K_TYPE) and not any(o[0] == di for o in own):
                inline += f",{sp(rng)}{word}"
            else:
                own.append((di, sum(1 for o in own if o[0] == di), f"  {word} :: {rnd_case(rng, n)}"))
        if d["kind"] == K_VAR:
            ty = f"type({rnd_case(rng, d['ref'])})" if d["ref"] else "integer"
            body.append(f"  {ty}{inline} :: {n}")
        elif d["kind"] == K_TYPE:
            ext = f", extends({rnd_case(rng, d['ref'])})" if d["ref"] else ""
            body += [f"  type{inline}{ext} :: {n}", "    integer :: c_" + n, f"  end type {n}"]
        elif d["kind"] == K_ABS:
            body += ["  abstract interface"] + render_body(rng, d, nested, "    ") + ["  end interface"]
        elif d["form"] == "ifc":  # unnamed interface block: explicit interface of an external procedure
            body += ["  interface"] + render_body(rng, d, nested, "    ") + ["  end interface"]
        elif d.get("inner"):
            contains += render_proc(rng, next(x for x in nested if x["name"] == d["inner"]), nested, "  ")
        elif d["form"] == "sub":
            contains += [f"  subroutine {n}()", f"  end subroutine {n}"]
        elif d["form"] == "fun":
            contains += [f"  integer function {n}()", f"    {n} = 1", f"  end function {n}"]
        else:  # generic interface with an external-body specific
            body += [f"  interface {n}"] + render_body(rng, d, nested, "    ") + ["  end interface"]
    # access statements in random order, except that the statements about one entity keep theirs
    # (FORD applies them in source order and the keyword met last stays in its `permission`)
    mixed = [(None, 0, t) for t in stmts] + own
    rng.shuffle(mixed)
    for di in {o[0] for o in own}:
        pos = [i for i, o in enumerate(mixed) if o[0] == di]
        for i, o in zip(pos, sorted((mixed[i] for i in pos), key=lambda o: o[1])):
            mixed[i] = o
    L += [o[2] for o in mixed] + body
    for c in s["calls"]:
        L.append(f"  call {rnd_case(rng, c)}()")
    if contains:
        L += ["contains"] + contains
    L.append(f"end module {rnd_case(rng, s['name'])}" if s["is_mod"] else f"end {unit} {s['name']}")
    return "\n".join(L) + "\n"


def model_fields(s, decl=None):
    flags = ("M" if s["is_mod"] else "P") + ("U" if s["def_pub"] else "R")
    decls = []
    # dict order of FORD's all_procs: functions, subroutines, then (generic) interfaces; the other
    # kinds keep source order.  Only observable when an only-list maps two remote names to one local.
    rank = {"fun": 0, "sub": 1, "gen": 2, "ifc": 2}
    for d in sorted(s["decls"], key=lambda d: rank.get(d["form"], 0) if d["kind"] == K_PROC else 0):
        decls.append(f"{d['name']}:{d['kind']}:{acc_letters(d) or '-'}")
    return [(decl or {}).get(s["name"], s["name"]), flags, " ".join(s["pub_names"]), " ".join(s["priv_names"]), " ".join(decls),
            str(len(s["uses"]))] + [u["stmt"] for u in s["uses"]]


def nested_spec(graph, decl=None):
    """`root:host:name` of every contained procedure, hosts before their children"""
    by = {n["name"]: n for n in graph.get("nested", [])}
    decl = decl or {}
    out = []
    for n in graph.get("nested", []):
        root = n["host"]
        while root in by:
            root = by[root]["host"]
        out.append(f"{decl.get(root, root)}:{decl.get(n['host'], n['host'])}:{n['name']}" + (":i" if n.get("ibody") else ""))
    return " ".join(out)


# --------------------------------------------------------------------------
# the implementation, in-process
# --------------------------------------------------------------------------


class Impl:
    def __init__(self):
        self.ford = common.import_ford()
        import ford.fortran_project as fp
        import ford.sourceform as sf
        from ford.settings import ProjectSettings

        self.fp, self.sf, self.Settings = fp, sf, ProjectSettings

    def home(self, o):
        """name of the scope that declares `o`: the enclosing module / program, or the enclosing
        contained procedure that is a scope of the generated project (named n...)"""
        q = getattr(o, "parent", None)
        while q is not None and not isinstance(q, (self.sf.FortranModule, self.sf.FortranProgram)):
            if isinstance(q, self.sf.FortranProcedure) and q.name.lower().startswith("n"):
                break
            q = getattr(q, "parent", None)
        if q is None:  # (an interface body that lost its place in the tree)
            return "?"
        return q.name.lower() if q is not None else "?"

    def ent(self, o):
        return f"{self.home(o)}.{o.name.lower()}"

    def ent_of_kind(self, o, k):
        """entity held by a table of kind `k`; marked when the object cannot be an entity of that kind (a
        type in a table of procedures, an interface in a table of types ...): a derived type and its
        constructor share their name and their module, only the kind tells them apart"""
        sf = self.sf
        ok = {K_TYPE: isinstance(o, sf.FortranType), K_VAR: isinstance(o, sf.FortranVariable),
              K_PROC: not isinstance(o, sf.FortranType),
              K_ABS: not isinstance(o, (sf.FortranType, sf.FortranVariable))}[k]
        return self.ent(o) + ("" if ok else "#not-a-" + ("procedure", "abstract-interface", "type", "variable")[k])

    def bodies_of(self, host, wanted):
        """procedures that are bodies of interface blocks declared in `host` (unnamed, generic, abstract)"""
        out = []
        for itf in list(getattr(host, "interfaces", None) or []) + list(getattr(host, "absinterfaces", None) or []):
            procs = [itf.procedure] if getattr(itf, "procedure", None) is not None else list(getattr(itf, "routines", []))
            out += [q for q in procs if hasattr(q, "uses") and str(q.name).lower() in wanted]
        return out

    def run(self, d: Path, files: list[Path], extra_mods=None, bodies=()):
        # bodies: [host scope, name] of the interface bodies that are scopes of the generated project
        body_names = {b[1] for b in bodies}
        """Project over `files` in exactly this order (`extra_mods`: the project's own setting of that
        name); returns observation dict."""
        fp, sf = self.fp, self.sf
        sf.namelist = sf.NameSelector()
        orig_find = fp.find_all_files
        orig_corr = sf.FortranCodeUnit.correlate
        order = []

        def logging_correlate(this, project):
            if isinstance(this, (sf.FortranModule, sf.FortranProgram)) or (
                    isinstance(this, sf.FortranProcedure) and getattr(this, "parobj", None) == "sourcefile"):
                order.append(this.name.lower())
            return orig_corr(this, project)

        fp.find_all_files = lambda settings: list(files)
        sf.FortranCodeUnit.correlate = logging_correlate
        try:
            with common.quiet():
                settings = self.Settings(src_dir=[d], preprocess=False, dbg=False, warn=False, quiet=True,
                                         graph=False, search=False, incl_src=False,
                                         display=["public", "protected", "private"], proc_internals=True,
                                         extra_mods=dict(extra_mods or {}))
                project = fp.Project(settings)
                project.correlate()
        except Exception as e:  # noqa
            return {"error": f"{type(e).__name__}: {str(e)[:200]}"}
        finally:
            fp.find_all_files = orig_find
            sf.FortranCodeUnit.correlate = orig_corr
        obs = {"order": order, "tables": {}, "refs": {}, "binds": {},
               "exts": [str(m.name) for m in project.extModules],
               "decl_names": {m.name.lower(): m.name for m in project.modules}}
        units = list(project.modules) + list(project.programs)
        units += [q for q in project.procedures if getattr(q, "parobj", None) == "sourcefile" and q.name.lower().startswith("n")]
        for m in list(units):
            # contained procedures with USE statements (named n<i>a / n<i>b)
            for r in m.routines:
                if r.name.lower().startswith("n"):
                    units.append(r)
                    units += [q for q in r.routines if q.name.lower().startswith("n")]
            units += self.bodies_of(m, {b[1] for b in bodies if b[0] == m.name.lower()})
        for sc in units:
            n = sc.name.lower()
            per = {}
            for k, (a, p) in enumerate(KIND_TABLES):
                per[k] = {"all": {nm: self.ent_of_kind(o, k) for nm, o in getattr(sc, a, {}).items()},
                          "pub": {nm: self.ent_of_kind(o, k) for nm, o in (getattr(sc, p, None) or {}).items()}
                          if isinstance(sc, sf.FortranModule) else {}}
            obs["tables"][n] = per
            refs = {}
            for v in sc.variables:
                if v.proto:
                    refs["var:" + v.name.lower()] = None if isinstance(v.proto[0], str) else self.ent(v.proto[0])
            if n in body_names:  # typed dummy arguments of an interface body
                for v in getattr(sc, "args", []):
                    if getattr(v, "proto", None):
                        refs["arg:" + v.name.lower()] = None if isinstance(v.proto[0], str) else self.ent(v.proto[0])
            for t in sc.types:
                if t.extends is not None:
                    refs["ext:" + t.name.lower()] = None if isinstance(t.extends, str) else self.ent(t.extends)
            if hasattr(sc, "calls"):
                # (a unit that was never correlated still holds the raw call chains: lists of names)
                refs["calls"] = sorted({("?" + c.lower()) if isinstance(c, str) else self.ent(c) if hasattr(c, "name")
                                        else "?" + str(c[-1] if isinstance(c, (list, tuple)) and c else c).lower()
                                        for c in sc.calls})
            obs["refs"][n] = refs
            # what every USE statement of the scope was bound to (`uses` after correlate: the "Uses" list of
            # the page): a module of the project, or something else (external stub / unresolved name)
            binds = set()
            for m in getattr(sc, "uses", None) or ():
                if isinstance(m, (list, tuple)):
                    m = m[0]
                if isinstance(m, str):
                    binds.add("other:" + m.lower())
                elif any(m is pm for pm in project.modules):
                    binds.add("project:" + m.name.lower())
                else:
                    binds.add("other:" + str(getattr(m, "name", "?")).lower())
            obs["binds"][n] = sorted(binds)
        return obs


# Trees before 9594e8c ("keep declarations of a nested scope out of its host's ... name tables")
# share one dict between a scope and its contained procedures (C07's leak, not this property).
# Decided at run time by `detect_shared_dict_leak`; on trees without the leak nothing is masked.
SHARED_DICT_LEAK = False


def detect_shared_dict_leak(impl, d: Path) -> bool:
    """does a local variable of a contained procedure show up in its host's all_vars?"""
    sub = d / "leakprobe"
    sub.mkdir(exist_ok=True)
    f = sub / "probe.f90"
    f.write_text("module leakprobe_m\n  implicit none\ncontains\n  subroutine leakprobe_s()\n"
                 "    integer :: leakprobe_v\n  end subroutine leakprobe_s\nend module leakprobe_m\n")
    fp, sf = impl.fp, impl.sf
    sf.namelist = sf.NameSelector()
    orig_find = fp.find_all_files
    fp.find_all_files = lambda settings: [f]
    try:
        with common.quiet():
            settings = impl.Settings(src_dir=[sub], preprocess=False, dbg=False, warn=False, quiet=True,
                                     graph=False, search=False, incl_src=False,
                                     display=["public", "protected", "private"], proc_internals=True)
            project = fp.Project(settings)
            project.correlate()
        return "leakprobe_v" in project.modules[0].all_vars
    except Exception:  # noqa
        return False
    finally:
        fp.find_all_files = orig_find
        f.unlink()
        sub.rmdir()


def detect_abstract_body_bound(impl, d: Path) -> bool:
    """does `find_used_modules` reach the USE statements of an abstract interface body?  (replay of the
    witness of C06-abstract-interface-body-use-unbound; decides the model variant `bindNsU`)"""
    sub = d / "absprobe"
    sub.mkdir(exist_ok=True)
    f = sub / "probe.f90"
    f.write_text("module absprobe_a\n  integer :: absprobe_v\nend module absprobe_a\n"
                 "module absprobe_b\n  abstract interface\n    subroutine absprobe_s()\n      use absprobe_a\n"
                 "    end subroutine absprobe_s\n  end interface\nend module absprobe_b\n")
    try:
        obs = impl.run(sub, [f], None, [["absprobe_b", "absprobe_s"]])
        return "absprobe_v" in obs["tables"]["absprobe_s"][K_VAR]["all"]
    except Exception:  # noqa
        return False
    finally:
        f.unlink()
        sub.rmdir()


def mask(graph, tables):
    """On a tree with the shared-dict leak (see SHARED_DICT_LEAK): where a scope has a contained
    procedure with USE statements or locals, only its deepest procedure is observed for types,
    variables and abstract interfaces.  Otherwise the identity."""
    hosts = {n["host"] for n in graph.get("nested", [])} if SHARED_DICT_LEAK else set()
    out = {}
    for n, per in tables.items():
        out[n] = {}
        for k, t in per.items():
            out[n][k] = {"all": {} if (n in hosts and int(k) != K_PROC) else t["all"], "pub": t["pub"]}
    return out


def expected_refs(graph, tabs, leak=None):
    """References resolve through the scope's name tables (`tabs`: single-valued).
    `leak` (defect emulation only): observed tables; a type name that the emulated USE statements of
    an interface body do not provide is looked up in what the body's host was observed to know, as the
    implementation does (host association into interface bodies is C07's subject, not judged here)."""
    out = {}
    hosts = {n["host"] for n in graph.get("nested", [])} if SHARED_DICT_LEAK else set()
    for s in graph["scopes"] + graph.get("nested", []):
        refs = {}
        for d in s["decls"]:
            if d["ref"]:
                key = ("var:" if d["kind"] == K_VAR else "ext:") + d["name"]
                refs[key] = tabs[s["name"]][K_TYPE]["all"].get(d["ref"])
        for q, t in enumerate(s.get("argrefs", [])):
            e = tabs[s["name"]][K_TYPE]["all"].get(t)
            if e is None and leak is not None and s.get("host") in leak:
                e = leak[s["host"]].get(K_TYPE, leak[s["host"]].get(str(K_TYPE), {})).get("all", {}).get(t)
            refs[f"arg:x{q}"] = e
        if not s["is_mod"]:
            calls = set()
            for c in s["calls"]:
                if c in tabs[s["name"]][K_TYPE]["all"]:
                    # a label that (also) names a derived type is a constructor reference: FORD deliberately
                    # keeps those out of the call list ("Don't register variables or type contructors");
                    # what a CALL of such a label is linked to is the call-resolution property's business.
                    # (Never generated under the standard's tables; met only under defect emulation.)
                    continue
                e = tabs[s["name"]][K_PROC]["all"].get(c)
                calls.add(e if e else "?" + c)
            refs["calls"] = sorted(calls)
        if s["name"] in hosts:  # type names of a host are looked up in the dict it shares with its procedures
            refs = {k: v for k, v in refs.items() if k == "calls"}
        out[s["name"]] = refs
    return out


def expected_binds(graph, sw=frozenset()):
    """{scope: sorted set of "project:<module>" / "other:<name>"}: what each scope's USE statements
    refer to by the standard (`refers_to_project`)"""
    mods = {s["name"] for s in graph["scopes"] if s["is_mod"]}
    out = {}
    for s in graph["scopes"] + graph.get("nested", []):
        unbound = s.get("ibody") == "abstract" and F_ABSUSE in sw  # (defect emulation: never looked up)
        out[s["name"]] = sorted({("project:" if refers_to_project(u, mods, sw) and not unbound else "other:") + u["mod"]
                                 for u in s["uses"]})
    return out


def binds_of(graph, obs_binds):
    return {s["name"]: obs_binds.get(s["name"], []) for s in graph["scopes"] + graph.get("nested", [])}


def refs_of(graph, obs_refs):
    """observed references of the scopes the graph describes (same masking as expected_refs)"""
    hosts = {n["host"] for n in graph.get("nested", [])} if SHARED_DICT_LEAK else set()
    out = {}
    for s in graph["scopes"] + graph.get("nested", []):
        r = obs_refs.get(s["name"], {})
        out[s["name"]] = {k: v for k, v in r.items() if k == "calls"} if s["name"] in hosts else r
    return out


def parse_model(resp):
    if not resp or resp[0] != "ok":
        return {"error": resp}
    out = {}
    for f in resp[1:]:
        k, scope, a, p = f.split("|")
        per = out.setdefault(scope, {})
        per[int(k)] = {"all": dict(e.split("=") for e in a.split(" ") if e),
                       "pub": dict(e.split("=") for e in p.split(" ") if e)}
    return out


def diff_tables(a, b):
    """first difference between two {scope:{k:{all,pub}}} observations, or None"""
    for n in sorted(set(a) | set(b)):
        for k in range(4):
            for w in ("all", "pub"):
                x = (a.get(n) or {}).get(k, {}).get(w, {})
                y = (b.get(n) or {}).get(k, {}).get(w, {})
                if x != y:
                    for nm in sorted(set(x) | set(y)):
                        if x.get(nm) != y.get(nm):
                            return f"scope {n} table {KIND_TABLES[k][0 if w == 'all' else 1]} name {nm!r}: {x.get(nm)} vs {y.get(nm)}"
    return None


def is_topo(graph, order):
    """every scope once, each module after the project modules it and its contained procedures use"""
    mods = {s["name"] for s in graph["scopes"] if s["is_mod"]}
    pos = {n: i for i, n in enumerate(order)}
    if sorted(order) != sorted(s["name"] for s in graph["scopes"]):
        return False
    for s in graph["scopes"]:
        for u in s["uses"]:
            if refers_to_project(u, mods) and u["mod"] != s["name"] and pos[u["mod"]] > pos[s["name"]]:
                return False
    # the USE statements of contained procedures count as dependencies of their root (model `isTopoN`)
    by = {n["name"]: n for n in graph.get("nested", [])}
    for n in graph.get("nested", []):
        if n.get("ibody") in ("generic", "abstract"):
            # the known defect forms: whether the order matters is judged on the tables of the body
            continue
        root = n["host"]
        while root in by:
            root = by[root]["host"]
        for u in n["uses"]:
            if refers_to_project(u, mods) and u["mod"] != root and pos[u["mod"]] > pos[root]:
                return False
    return True


# --------------------------------------------------------------------------
# micro streams
# --------------------------------------------------------------------------


def detect_variant(impl) -> bool:
    """True when the working tree honours rename lists of a USE without ONLY
    (fixes/C06-rename-without-only.diff applied): replay of the finding's witness."""
    M = impl.sf.FortranModule
    fake = types.SimpleNamespace(ONLY_RE=M.ONLY_RE, RENAME_RE=M.RENAME_RE,
                                 pub_procs={}, pub_absints={}, pub_types={}, pub_vars={"v": "V"})
    try:
        res = M.get_used_entities(fake, ", w => v")[3]
    except Exception:  # noqa
        return False
    return dict(res) == {"w": "V"}


def micro_streams(impl, drv, rng, n, rep, hist, fixed=False):
    sf = impl.sf
    M = sf.FortranModule
    toks = [",", " ", "only", "ONLY", ":", "=>", "a", "b1", "_c", "x", "  ", "=", ">", "Only:", ", only:", "::", "(", "+"]
    utoks = ["use", "USE", " ", ",", "::", "intrinsic", "non_intrinsic", "NON_", "m", "M1", "only", ":", "a", "=>", "b", "  ", "user", "_"]
    reqs, exp = [], []
    for i in range(n):
        s = "".join(rng.choice(toks) for _ in range(rng.randint(0, 9)))
        if i % 3 == 0:
            s = rng.choice([", only:", ",only :", " , ONLY: ", ","]) + s
        m = M.ONLY_RE.match(s)
        reqs.append(["c06.only", s])
        exp.append(["ok", "1" if m else "0", M.ONLY_RE.sub("", s)])
        hist["micro:only-" + ("match" if m else "nomatch")] = hist.get("micro:only-" + ("match" if m else "nomatch"), 0) + 1
        m = M.RENAME_RE.search(s)
        reqs.append(["c06.rename", s])
        exp.append(["ok"] + (list(m.groups()) if m else []))
        # get_used_entities on a stand-in module object
        pool = ["a", "b1", "_c", "x", "only", "only:", ""]
        names = sorted(set(rng.sample(pool, rng.randint(0, 5))) - {""})
        fake = types.SimpleNamespace(ONLY_RE=M.ONLY_RE, RENAME_RE=M.RENAME_RE,
                                     pub_procs={nm: ("m", nm) for nm in names}, pub_absints={}, pub_types={}, pub_vars={})
        try:
            res = M.get_used_entities(fake, s)[0]
            e = ["ok"] + [f"{loc}={ent[1]}" for loc, ent in res.items()]
        except Exception as ex:  # noqa
            e = ["raised", type(ex).__name__]
        reqs.append(["c06.usedfixed" if fixed else "c06.used", s, " ".join(names)])
        exp.append(e)
        # ... and with all four export tables filled, sharing identifiers (a derived type and its constructor
        # are an entry of pub_types and one of pub_procs): each returned table must be the filter of its own
        # export table, whatever the others hold (model `getUsedAll`)
        four = [sorted(set(rng.sample(pool, rng.randint(0, 4))) - {""}) for _ in range(4)]
        fake4 = types.SimpleNamespace(ONLY_RE=M.ONLY_RE, RENAME_RE=M.RENAME_RE,
                                      **{p: {nm: (k, nm) for nm in four[k]} for k, (_, p) in enumerate(KIND_TABLES)})
        try:
            res4 = M.get_used_entities(fake4, s)
            e4 = ["ok"] + [f"{k}:{loc}={ent[1]}" + ("" if ent[0] == k else f"#from-table-{ent[0]}")
                           for k, t in enumerate(res4) for loc, ent in t.items()]
        except Exception as ex:  # noqa
            e4 = ["raised", type(ex).__name__]
        shared = len({nm for t in four for nm in t}) < sum(len(t) for t in four)
        hist["micro:used4-" + ("shared-identifiers" if shared else "disjoint")] = \
            hist.get("micro:used4-" + ("shared-identifiers" if shared else "disjoint"), 0) + 1
        reqs.append(["c06.used4fixed" if fixed else "c06.used4", s] + [" ".join(t) for t in four])
        exp.append(e4)
        line = "".join(rng.choice(utoks) for _ in range(rng.randint(1, 8)))
        if i % 2 == 0:
            line = rng.choice(["use ", "use::", "USE, intrinsic :: ", "use ,non_intrinsic::", "use,"]) + line
        m = sf.FortranContainer.USE_RE.match(line)
        reqs.append(["c06.usestmt", line])
        exp.append(["ok"] + (list(m.groups()) if m else []))
        hist["micro:use-" + ("match" if m else "nomatch")] = hist.get("micro:use-" + ("match" if m else "nomatch"), 0) + 1
    got = drv.batch(reqs)
    bad = 0
    for r, e, g in zip(reqs, exp, got):
        if r[0].startswith("c06.used"):
            # dict order is not observable downstream: compare as sorted sets
            e, g = [e[0]] + sorted(e[1:]), [g[0]] + sorted(g[1:])
        if e != g:
            bad += 1
            rep.tie_broken(f"correspondence micro/{r[0]}: model {g} vs implementation {e} on {r[1:]!r}",
                           {"stream": "micro", "request": r, "impl": e, "model": g})
    return len(reqs), bad


def bind_stream(impl, drv, rng, n, rep, hist):
    """the real `find_used_modules` on stand-in objects against the model's `bindName`: lists of
    project modules and of external modules with duplicates, names that differ only in case, names
    present in both lists (exact comparison of which candidate the USE ends up bound to)"""
    fp = impl.fp
    pool = [x.lower() for x in EXT_POOL[:2]] + ["a", "b1", "mod_x"]

    def variant(nm):
        return rnd_case(rng, nm)

    reqs, exp = [], []
    for i in range(n):
        mods = [types.SimpleNamespace(name=variant(rng.choice(pool)), where="p") for _ in range(rng.randint(0, 4))]
        exts = [types.SimpleNamespace(name=variant(rng.choice(pool)), where="e") for _ in range(rng.randint(0, 5))]
        name = variant(rng.choice(pool))
        ent = types.SimpleNamespace(uses=[[name, ""]], routines=[], interfaces=[])
        try:
            fp.find_used_modules(ent, mods, [], exts)
            b = ent.uses[0][0]
            e = ["ok", "u" if isinstance(b, str) else f"{b.where}:{b.name}"]
        except Exception as ex:  # noqa
            e = ["raised", type(ex).__name__]
        both = {m.name.lower() for m in mods} & {x.name.lower() for x in exts}
        key = "bind:" + ("name-in-both-lists" if name.lower() in both else e[1][0] if e[0] == "ok" else "raised")
        hist[key] = hist.get(key, 0) + 1
        reqs.append(["c06.bind", name, " ".join(m.name for m in mods), " ".join(x.name for x in exts)])
        exp.append(e)
    got = drv.batch(reqs)
    bad = 0
    for r, e, g in zip(reqs, exp, got):
        if e != g:
            bad += 1
            rep.tie_broken(f"correspondence micro/c06.bind: model {g} vs implementation {e} on {r[1:]!r}",
                           {"stream": "micro", "request": r, "impl": e, "model": g})
    return len(reqs), bad


# --------------------------------------------------------------------------
# one graph case
# --------------------------------------------------------------------------


def prepare(rng, graph):
    """render statements and files; returns {filename: text}, list of scopes per file"""
    # module names are permuted so that alphabetical order (toposort's tie-break) is unrelated
    # to the dependency order
    mods = [s["name"] for s in graph["scopes"] if s["is_mod"]]
    if graph.get("final_names"):
        ren = dict(graph["final_names"])  # decided by gen_graph (USE forms depend on the names)
    else:
        shuffled = list(mods)
        rng.shuffle(shuffled)
        ren = dict(zip(mods, shuffled))
    for s in graph["scopes"] + graph.get("nested", []):
        s["name"] = ren.get(s["name"], s["name"])
        if s["is_mod"]:
            # spelling of the name in the MODULE statement (FORD keeps it; names are compared lower-cased)
            s["decl_name"] = rnd_case(rng, s["name"])
        if s.get("host"):
            s["host"] = ren.get(s["host"], s["host"])
        for u in s["uses"]:
            u["mod"] = ren.get(u["mod"], u["mod"])
            render_use(rng, u)
    files = {}
    cur, k = [], 0
    for s in graph["scopes"]:
        cur.append(render_scope(rng, s, graph.get("nested", [])))
        if rng.random() < 0.8:
            files[f"f{k}.f90"] = "\n".join(cur)
            cur, k = [], k + 1
    if cur:
        files[f"f{k}.f90"] = "\n".join(cur)
    graph["files"] = files
    return files


def without_host_leak(graph, got, exp):
    """The body of an interface block has no host association (without IMPORT); whether FORD gives it
    the host's names anyway is the business of the scoping property (C07), not of USE association.
    So an entry of such a body's table that `exp` does not ask for AND that is the very entry of
    its host's table is not judged here; everything else (what the USE statements must give,
    anything spurious) is."""
    out = dict(got)
    for s in graph.get("nested", []):
        n, h = s["name"], s.get("host")
        if not s.get("ibody") or n not in got or h not in got:
            continue
        out[n] = {}
        for k, t in got[n].items():
            e = (exp.get(n) or {}).get(int(k), {}).get("all", {})
            hostt = got[h].get(k, {}).get("all", {})
            out[n][k] = {"all": {nm: v for nm, v in t["all"].items() if nm in e or hostt.get(nm) != v}, "pub": t["pub"]}
    return out


def oracle_case(graph, obs):
    """Property oracle on the implementation's observation.
    returns (status, why, finding_ids): status in ok / clash / fail"""
    strict = spec_tables(graph)
    if has_clash(strict, graph):
        return "clash", None, []
    exp = single(strict)
    got_raw = mask(graph, obs["tables"])
    got = without_host_leak(graph, got_raw, exp)
    got_refs = refs_of(graph, obs["refs"])
    got_binds = binds_of(graph, obs["binds"]) if "binds" in obs else None
    why = diff_tables(mask(graph, exp), got)
    if why is None and got_binds is not None:
        eb = expected_binds(graph)
        for n in eb:
            if eb[n] != got_binds[n]:
                why = f"scope {n}: USE statements refer to {eb[n]} but were bound to {got_binds[n]}"
                break
    if why is None:
        er = expected_refs(graph, exp)
        if er != got_refs:
            for n in er:
                for key in er[n]:
                    if er[n][key] != got_refs.get(n, {}).get(key):
                        why = f"reference {n}/{key}: expected {er[n][key]} observed {got_refs.get(n, {}).get(key)}"
                        break
            why = why or "resolved references differ"
    if why is None:
        return "ok", None, []
    # classification: is the deviation explained by the known defect classes present in the input?
    feats = sorted(features(graph))
    # the working tree may have repaired some of the classes: look for the set of present defect
    # classes that explains the observation completely (largest first)
    for size in range(len(feats), 0, -1):
        for sub in itertools.combinations(feats, size):
            e2 = single(spec_tables(graph, frozenset(sub), obs.get("order")))
            if diff_tables(mask(graph, e2), without_host_leak(graph, got_raw, e2)) is None \
                    and expected_refs(graph, e2, got_raw) == got_refs \
                    and (got_binds is None or expected_binds(graph, frozenset(sub)) == got_binds):
                blamed = []
                for f in sub:
                    less = single(spec_tables(graph, frozenset(set(sub) - {f}), obs.get("order")))
                    if diff_tables(less, e2) is not None or expected_refs(graph, less, got_raw) != expected_refs(graph, e2, got_raw) \
                            or expected_binds(graph, frozenset(set(sub) - {f})) != expected_binds(graph, frozenset(sub)):
                        blamed.append(f)
                return "fail", why, blamed or list(sub)
    return "fail", why, [None]


def run(tier: str, seed: int, replay: str | None = None) -> int:
    rep = Report(PROP, tier, seed)
    tr = importlib.import_module("translate.c06")
    lean = lean_prove(PROP, translate=lambda: tr.translate(common), thorough=(tier == "thorough"))
    for b in lean.broken():
        rep.tie_broken("proof: " + b)
    impl = Impl()
    rng = random.Random(seed * 104729 + 6)
    drv = Driver()
    hist: dict[str, int] = {}
    n_micro = 3000 if tier == "quick" else 20000
    n_graph = 800 if tier == "quick" else 6000
    n_allperm = 30 if tier == "quick" else 300
    fixed = detect_variant(impl)
    hist["variant:" + ("repaired-rename" if fixed else "as-is")] = 1
    ev_micro, bad_micro = micro_streams(impl, drv, rng, n_micro, rep, hist, fixed)
    global EXT_POOL
    try:  # names of the ExternalModule stubs every project of the working tree gets
        EXT_POOL = [str(k).lower() for k in impl.Settings().extra_mods] or list(STD_INTRINSIC)
    except Exception:  # noqa
        EXT_POOL = list(STD_INTRINSIC)
    ev_bind, bad_bind = bind_stream(impl, drv, rng, n_micro, rep, hist)
    ev_micro += ev_bind
    bad_micro += bad_bind

    graphs = []
    if replay:
        data = json.loads(Path(replay).read_text())
        for c in data.get("cases", []) + data.get("first_disagreements", []):
            if "graph" in c:
                graphs.append(c["graph"])
    fixed_files = bool(replay)
    for i in range(0 if replay else n_graph):
        graphs.append(gen_graph(rng, i, hist))

    distinct = set()
    samples = []
    n_corr_bad = n_oracle_fail = n_clash = n_runs = n_perm_cases = 0
    impl_obs = []
    with common.scratch_dir() as d:
        global SHARED_DICT_LEAK
        SHARED_DICT_LEAK = detect_shared_dict_leak(impl, d)
        abs_bound = detect_abstract_body_bound(impl, d)
        hist["abstract-interface-body-use:" + ("bound (repaired)" if abs_bound else "left unbound (as-is)")] = 1
        hist["host-tables:" + ("masked (shared-dict leak present)" if SHARED_DICT_LEAK else "observed")] = 1
        for gi, g in enumerate(graphs):
            files = g["files"] if fixed_files and "files" in g else prepare(rng, g)
            sub = d / f"g{gi % 16}"
            if sub.exists():
                for p in sub.iterdir():
                    p.unlink()
            sub.mkdir(exist_ok=True)
            paths = []
            for fn, text in files.items():
                (sub / fn).write_text(text)
                paths.append(sub / fn)
            # file orders: dependency order reversed (worst case for a naive reader), plus permutations
            orders = [list(reversed(paths))]
            if len(paths) <= 4 and n_perm_cases < n_allperm and len(paths) >= 3:
                orders = [list(p) for p in itertools.permutations(paths)]
                n_perm_cases += 1
                hist["all-permutations"] = hist.get("all-permutations", 0) + 1
            elif len(paths) > 1:
                o2 = list(paths)
                rng.shuffle(o2)
                orders.append(o2)
            first = None
            for oi, o in enumerate(orders):
                obs = impl.run(sub, o, g.get("extra_mods"), [[x["host"], x["name"]] for x in g.get("nested", []) if x.get("ibody")])
                n_runs += 1
                if "error" in obs:
                    rep.failing_input({"stream": "graph", "graph": g, "file_order": [p.name for p in o],
                                       "why": "implementation raised " + obs["error"]}, None)
                    n_oracle_fail += 1
                    break
                if not is_topo(g, obs["order"]):
                    rep.failing_input({"stream": "graph", "graph": g, "file_order": [p.name for p in o],
                                       "why": f"correlation order {obs['order']} is not a topological order of the USE graph"}, None)
                    n_oracle_fail += 1
                if first is None:
                    first = obs
                else:
                    w = diff_tables(first["tables"], obs["tables"]) or (None if first["refs"] == obs["refs"] else "resolved references differ") \
                        or (None if first["binds"] == obs["binds"] else "modules the USE statements are bound to differ")
                    if w:
                        n_oracle_fail += 1
                        rep.failing_input({"stream": "graph", "graph": g,
                                           "file_order": [p.name for p in o], "first_order": [p.name for p in orders[0]],
                                           "why": "tables depend on the order in which files are read: " + w}, None)
                        break
            impl_obs.append(first)
        # model, in the order FORD really used
        reqs = []
        for g, obs in zip(graphs, impl_obs):
            order = obs["order"] if obs and "order" in obs else [s["name"] for s in g["scopes"]]
            # module names as the MODULE statements spell them; the model's `bindG` is what makes the
            # (lower-cased) names in the USE statements meet them
            decl = {s["name"]: s.get("decl_name", s["name"]) for s in g["scopes"]}
            exts = obs["exts"] if obs and "exts" in obs else EXT_POOL + list(g.get("extra_mods") or {})
            fields = []
            for s in g["scopes"] + g.get("nested", []):
                fields += model_fields(s, decl)
            unreached = [] if abs_bound else [x["name"] for x in g.get("nested", []) if x.get("ibody") == "abstract"]
            reqs.append(["c06.runbfixed" if fixed else "c06.runb", " ".join(decl.get(n, n) for n in order),
                         nested_spec(g, decl), " ".join(exts), " ".join(unreached)] + fields)
        model = drv.batch(reqs)
        for g, obs, mo in zip(graphs, impl_obs, model):
            if obs is None or "error" in obs:
                continue
            feats = features(g)
            for f in feats:
                hist["feature:" + f] = hist.get("feature:" + f, 0) + 1
            strict_g = spec_tables(g) if any(d.get("ctor") for s in g["scopes"] for d in s["decls"]) else None
            for s in g["scopes"] + (g.get("nested", []) if strict_g else []):
                for u in s["uses"]:
                    form = ("only" if u["only"] else "all") + ("+rename" if any(l != r for l, r in u["items"]) else "") \
                        + ("" if u["items"] or not u["only"] else "-empty")
                    if not s.get("host"):
                        hist["use:" + form] = hist.get("use:" + form, 0) + 1
                    if strict_g and u["mod"] in strict_g:
                        # identifiers under which the used module exports a type together with its constructor
                        both = set(strict_g[u["mod"]][K_PROC]["pub"]) & set(strict_g[u["mod"]][K_TYPE]["pub"])
                        if both and (not u["only"] or any(r in both for _, r in u["items"])):
                            how = form + ("(renamed)" if any(r in both and l != r for l, r in u["items"]) else "")
                            hist["import-of-type+constructor:" + how] = hist.get("import-of-type+constructor:" + how, 0) + 1
                if s["is_mod"]:
                    hist["default:" + ("public" if s["def_pub"] else "private")] = hist.get("default:" + ("public" if s["def_pub"] else "private"), 0) + 1
            mt = parse_model(mo)
            # FORD adds the specific of a generic interface only when `generic`; drop model-only helper decls
            w = None if "error" in mt else diff_tables(mask(g, strip_impl(mt)), mask(g, strip_impl(obs["tables"])))
            if "error" in mt or w:
                n_corr_bad += 1
                rep.tie_broken(f"correspondence graph: model and implementation differ on graph {g['id']}: {w}",
                               {"stream": "graph", "graph": g, "why": w, "order": obs["order"]})
            obs_clean = dict(obs, tables=strip_impl(obs["tables"]))
            status, why, fids = oracle_case(g, obs_clean)
            if status == "clash":
                n_clash += 1
                continue
            pmods = {s["name"] for s in g["scopes"] if s["is_mod"]}
            nontrivial = any(u["mod"] in pmods for s in g["scopes"] for u in s["uses"])
            if nontrivial:
                distinct.add(common.digest([s["name"] for s in g["scopes"]] + [u["stmt"] for s in g["scopes"] for u in s["uses"]]
                                           + [g["files"]]))
            if status == "fail":
                n_oracle_fail += 1
                for fid in fids:
                    rep.failing_input({"stream": "graph", "graph": g, "why": why, "order": obs["order"],
                                       "observed": obs_clean["tables"], "features": sorted(feats)}, fid)
            elif len(samples) < 3 and len(g["scopes"]) >= 3 and nontrivial:
                samples.append({"files": g["files"], "order": obs["order"],
                                "tables": {n: {KIND_TABLES[k][0]: t[k]["all"] for k in range(4)} for n, t in obs_clean["tables"].items()}})
    # ---- stream `ext` (round 6): USE association through the export tables of an external project
    from . import c06_ext
    me = importlib.import_module(__name__)
    n_ext = 150 if tier == "quick" else 1500
    ext_graphs = []
    if replay:
        data = json.loads(Path(replay).read_text())
        ext_graphs = [c["graph"] for c in data.get("cases", []) + data.get("first_disagreements", [])
                      if c.get("stream") == "ext" and "graph" in c]
    rng_ext = random.Random(seed * 7919 + 606)
    for i in range(0 if replay else n_ext):
        g = c06_ext.gen_pair(me, rng_ext, i, hist, fixed)
        c06_ext.render_files(me, rng_ext, g)
        ext_graphs.append(g)
    n_ext_runs = n_ext_fail = n_ext_corr = 0
    ext_distinct = set()
    with common.scratch_dir() as d:
        ext_obs = [c06_ext.run_pair(me, impl, d, g, seed * 31 + gi) for gi, g in enumerate(ext_graphs)]
    ext_model = drv.batch([c06_ext.model_request(me, g, o, fixed) if "error" not in o else ["c06.parse", ""]
                           for g, o in zip(ext_graphs, ext_obs)])
    for g, o, mo in zip(ext_graphs, ext_obs, ext_model):
        n_ext_runs += 2
        if "error" in o:
            n_ext_fail += 1
            rep.failing_input({"stream": "ext", "graph": g, "why": "implementation raised " + o["error"]}, None)
            continue
        mt = parse_model(mo)
        w = "model error" if "error" in mt else diff_tables(strip_impl(mt), strip_impl(o["tables"]))
        if w:
            n_ext_corr += 1
            rep.tie_broken(f"correspondence ext: model (twoStep) and implementation differ on pair {g['id']}: {w}",
                           {"stream": "ext", "graph": g, "why": w, "order": o["order"]})
        why = c06_ext.oracle(me, g, o)
        if why:
            n_ext_fail += 1
            rep.failing_input({"stream": "ext", "graph": g, "why": why, "order": o["order"],
                               "observed": strip_impl(o["tables"])}, None)
        names_a = {s["name"] for s in g["scopes"] if s["project"] == "A"}
        if any(u["mod"] in names_a for s in g["scopes"] if s["project"] == "B" for u in s["uses"]):
            ext_distinct.add(common.digest([g["files_a"], g["files_b"]]))
        if len(samples) < 4 and not why and g["n_a"] >= 2 and not any(x.get("stream") == "ext" for x in samples):
            samples.append({"stream": "ext", "files_a": g["files_a"], "files_b": g["files_b"], "order": o["order"],
                            "tables_of_prog": {KIND_TABLES[k][0]: o["tables"].get("prog", {}).get(k, {}).get("all") for k in range(4)}})
    hist["ext:pairs"] = len(ext_graphs)
    n_runs += n_ext_runs
    n_corr_bad += n_ext_corr
    n_oracle_fail += n_ext_fail
    distinct |= ext_distinct
    drv.close()
    rep.coverage.update(
        evaluations=ev_micro + n_runs + len(graphs) + len(ext_graphs),
        distinct_nontrivial=len(distinct),
        rule="graph cases: a generated project counts as non-trivial when at least one scope USEs a module of the project; "
             "distinct by digest of (scopes, USE statements, rendered files); clash projects (one name, two entities) are "
             "compared with the model but excluded from the oracle and from this count",
        samples=samples,
        traces_validated_against_impl=len(graphs) + len(ext_graphs) + ev_micro,
        external_project_pairs=len(ext_graphs),
        external_project_pairs_distinct_nontrivial=len(ext_distinct),
        implementation_runs=n_runs,
        correspondence_disagreements=n_corr_bad + bad_micro,
        oracle_failures=n_oracle_fail,
        clash_projects_excluded_from_oracle=n_clash,
        input_histogram=dict(sorted(hist.items())),
    )
    rep.assumptions += [
        "stream ext: modules loaded from an external project are modelled (`twoStep`: obj2dict / dict2obj on the export tables, "
        "loaded modules behind the extra_mods stubs in the binding scan, frozen in the consumer's ranklist loop) and compared for "
        "ONE project boundary, a local path, module-level scopes; an entity of the external project is identified in the consumer "
        "by the URL of its page; pairs are legal programs outside the known defect classes; a loaded module is never called like "
        "an extra_mods stub or like a module of the consumer",
        "submodules, operator/assignment generics in only-lists, block "
        "data and IMPORT statements are not modelled or generated; the ExternalModule stubs of settings.extra_mods and the "
        "binding step find_used_modules are modelled (`bindName`, `bindG`); contained procedures of modules, programs and "
        "external subroutines and the bodies of unnamed / generic / abstract interface blocks are modelled (`runN`) and compared",
        "an interface body has no host association; names FORD copies from the host into such a body are not judged here (C07) "
        "unless the body's USE statements must provide that name",
        "a USE with module nature INTRINSIC is generated only for the standard's intrinsic module names; one module nature per "
        "(module or program with its contained scopes, used module)",
        "hiding of a host identifier by a local or use-associated entity of ANOTHER kind is outside the generator (FORD keeps one "
        "table per kind; hypothesis SameKindHiding of nested_tables_exact_partial)",
        "CPython re is on the implementation side only; the scanners are its deterministic reading, validated on the micro stream "
        "and pinned to the regex sources by the generated table",
        "projects in which one name denotes two entities in a scope are outside the property's domain (oracle skipped, correspondence kept)",
        "a derived type with a user-defined constructor (generic interface of the same name) is one identifier with two "
        "entities (kinds procedure and type): both are given their accessibility by access STATEMENTS only (a statement names "
        "the identifier, i.e. both entities), the constructor is never the target of a CALL (FORD keeps constructor references "
        "out of its call lists on purpose), and a contained procedure never re-uses such an identifier for an entity of one "
        "kind only (hiding across kinds, see above); a generic and a type of one name from DIFFERENT modules are not generated",
        "the default-accessibility statement (bare PRIVATE / PUBLIC) is always rendered before the declarations of the module; "
        "PROTECTED is given to variables only; an entity is never given both PUBLIC and PRIVATE (hypothesis LegalAccess)",
    ]
    return rep.finish(lean)


def strip_impl(tables):
    """drop the `<g>_impl` specifics of generic interfaces (present in all_procs only when FORD
    classifies the interface as generic); they are never exported under their own name."""
    out = {}
    for n, per in tables.items():
        out[n] = {}
        for k, t in per.items():
            out[n][k] = {w: {nm: e for nm, e in t[w].items() if not e.endswith("_impl")} for w in ("all", "pub")}
    return out
