"""C06 - USE association imports exactly the accessible names.

Streams
  micro   : USE_RE / ONLY_RE / RENAME_RE / get_used_entities against their Lean mirrors
            (`parseUseStmt`, `onlyMatch`, `renameSearch`, `getUsed . mkUse`) on random strings.
  graph   : generated module graphs (chains / diamonds of re-export, default public/private,
            access statements on imported names, every USE form, several USEs of one module,
            every entity kind, every list of access keywords of a module variable - PUBLIC /
            PRIVATE / PROTECTED alone and combined, in both orders, as attributes and/or as
            statements, in default-public and default-private modules) rendered to Fortran files ->
            real `Project(settings)` + `project.correlate()` in-process ->
            (a) correspondence: every all_* / pub_* table of every scope equals the Lean
                `Use.run` on the same statements, run in the order FORD really correlated,
            (b) property oracle: tables and resolved references equal the standard's
                accessibility rules, evaluated by an independent Datalog-style fixpoint,
                Contained procedures (module procedure + internal procedure) with USE statements of
                their own are part of both: about half of those USE statements import an entity under
                an identifier the host already knows with another meaning (host declares a namesake /
                `only: hostname => remote` / rename without ONLY), where use association must hide host
                association (F2018 19.5.1.4; model `runN`, theorem nested_tables_exact_partial).
            (c) order: FORD's correlation order is a topological order, USE statements of contained
                procedures included (model `isTopo` / `isTopoN`);
                same tables for every permutation of the file order (all permutations for a
                sub-sample of projects with <= 4 files, random permutations otherwise).
"""
from __future__ import annotations

import importlib
import itertools
import json
import random
import types
from pathlib import Path

from . import common
from .common import Driver, Report, lean_prove

PROP = "C06"
KIND_TABLES = [("all_procs", "pub_procs"), ("all_absinterfaces", "pub_absints"),
               ("all_types", "pub_types"), ("all_vars", "pub_vars")]
K_PROC, K_ABS, K_TYPE, K_VAR = 0, 1, 2, 3

F_RENAME = "C06-rename-without-only"
F_EMPTY = "C06-empty-only-imports-all"
F_PRIV = "C06-private-imported-reexported"
F_TWICE = "C06-only-remote-listed-twice"
F_PROT = "C06-protected-private-exported"
ALL_FEATURES = (F_RENAME, F_EMPTY, F_PRIV, F_TWICE, F_PROT)


def decl_accs(d):
    """access keywords of declaration `d` as FORD meets them: [[letter, inline], ...] with the
    keywords of the attribute list (left to right) before those given by access / PROTECTED
    statements (source order).  Letters: u public, r private, t protected.
    (`acc`: the single keyword of graphs stored by earlier versions of this harness.)"""
    if "accs" in d:
        return d["accs"]
    return [[d["acc"], bool(d.get("acc_inline"))]] if d.get("acc") else []


def acc_letters(d):
    return "".join(a for a, _ in decl_accs(d))


def std_accessible(d, def_pub):
    """F2018 8.5.2: the PUBLIC / PRIVATE attribute of the entity (declaration or access statement,
    in any order), else the default accessibility of the module.  PROTECTED (8.5.15) is not an
    accessibility: it only restricts where the entity may be defined."""
    letters = acc_letters(d)
    if "u" in letters:
        return True
    if "r" in letters:
        return False
    return def_pub


def protected_over_private(d, def_pub):
    """class of C06-protected-private-exported: PROTECTED is the last access keyword FORD meets for
    an entity that is private"""
    letters = acc_letters(d)
    return letters.endswith("t") and not std_accessible(d, def_pub)


# --------------------------------------------------------------------------
# independent implementation of the standard's rules (property oracle)
# --------------------------------------------------------------------------


def admitted_locals(use, remote, sw):
    """Local names under which `remote` becomes accessible through USE statement `use`
    (Fortran 2018 14.2.2: rename-list / only-list).  `sw` = defects to emulate."""
    items = use["items"]
    if use["only"]:
        if not items and F_EMPTY in sw:
            return {remote}
        locs = [l for (l, r) in items if r == remote]
        if F_TWICE in sw and locs:
            return {locs[-1]}
        return set(locs)
    locs = {l for (l, r) in items if r == remote}
    if F_RENAME in sw:
        return {remote}
    return locs if locs else {remote}


def spec_tables(graph, sw=frozenset()):
    """Least fixpoint of
         sees(S,k,n,e)    <- S declares e=(S,n) of kind k
         sees(S,k,l,e)    <- S uses N through u, exports(N,k,r,e), l in admitted(u,r)
         exports(M,k,n,e) <- M declares n, accessibility of n is not private
         exports(M,k,l,e) <- M imports (l,e), l not declared private in M,
                             (default accessibility of M is public or l declared public)
       then, stratum by stratum from the outermost contained procedure inwards (F2018 19.5.1.4,
       host association):
         sees(P,k,l,e)    <- host(P) sees (k,l,e), and l is neither the name of an entity
                             declared in P nor of an entity P obtains by USE (of ANY kind:
                             class-1 identifiers share one namespace) - a local or
                             use-associated identifier hides the host's.
    returns {scope: {k: {"all": {name: set(ent)}, "pub": {...}}}}"""
    scopes = {s["name"]: s for s in graph["scopes"] + graph.get("nested", [])}
    mods = {n for n, s in scopes.items() if s["is_mod"]}
    sees = {n: [dict() for _ in range(4)] for n in scopes}
    imps = {n: [dict() for _ in range(4)] for n in scopes}
    exps = {n: [dict() for _ in range(4)] for n in scopes}

    def add(tab, name, ent):
        s = tab.setdefault(name, set())
        if ent in s:
            return False
        s.add(ent)
        return True

    for n, s in scopes.items():
        for d in s["decls"]:
            ent = (n, d["name"])
            add(sees[n][d["kind"]], d["name"], ent)
            accessible = std_accessible(d, s["def_pub"]) or (F_PROT in sw and protected_over_private(d, s["def_pub"]))
            if s["is_mod"] and accessible:
                add(exps[n][d["kind"]], d["name"], ent)
    changed = True
    while changed:
        changed = False
        for n, s in scopes.items():
            for u in s["uses"]:
                if u["mod"] not in mods:
                    continue
                for k in range(4):
                    for r, ents in list(exps[u["mod"]][k].items()):
                        for l in admitted_locals(u, r, sw):
                            for e in list(ents):
                                if add(imps[n][k], l, e):
                                    changed = True
                                add(sees[n][k], l, e)
            if not s["is_mod"]:
                continue
            for k in range(4):
                for l, ents in imps[n][k].items():
                    private = l in s["priv_names"] and F_PRIV not in sw
                    public = s["def_pub"] or l in s["pub_names"]
                    if public and not private:
                        for e in ents:
                            if add(exps[n][k], l, e):
                                changed = True
    # host association, outermost first (graph["nested"] lists a host before its children)
    for s in graph.get("nested", []):
        n, h = s["name"], s.get("host")
        if not h or h not in sees:
            continue
        hidden = {d["name"] for d in s["decls"]} | {l for k in range(4) for l in imps[n][k]}
        for k in range(4):
            for nm, ents in sees[h][k].items():
                if nm not in hidden:
                    for e in ents:
                        add(sees[n][k], nm, e)
    return {n: {k: {"all": sees[n][k], "pub": exps[n][k] if scopes[n]["is_mod"] else {}} for k in range(4)}
            for n in scopes}


def has_clash(spec, graph):
    """A name that denotes two entities in one scope (any kind: class-1 names share one
    namespace): not a legal program, outside the property's domain."""
    for n, per in spec.items():
        seen = {}
        for k in range(4):
            for name, ents in per[k]["all"].items():
                for e in ents:
                    seen.setdefault(name, set()).add((k, e))
        if any(len(v) > 1 for v in seen.values()):
            return True
    return False


def features(graph):
    mods = {s["name"] for s in graph["scopes"] if s["is_mod"]}
    f = set()
    for s in graph["scopes"] + graph.get("nested", []):
        for u in s["uses"]:
            if u["mod"] not in mods:
                continue
            if not u["only"] and u["items"]:
                f.add(F_RENAME)
            if u["only"] and not u["items"]:
                f.add(F_EMPTY)
            if u["only"]:
                rem = [r for _, r in u["items"]]
                if len(set(rem)) < len(rem):
                    f.add(F_TWICE)
        if s["is_mod"] and s["def_pub"] and s["priv_names"]:
            f.add(F_PRIV)
        if s["is_mod"] and any(protected_over_private(d, s["def_pub"]) for d in s["decls"]):
            f.add(F_PROT)
    return f


def single(spec):
    """{scope:{k:{all:{name:"mod.name"}}}} from the set-valued spec (names with one entity)."""
    out = {}
    for n, per in spec.items():
        out[n] = {}
        for k in range(4):
            out[n][k] = {w: {nm: ".".join(sorted(es)[0]) for nm, es in per[k][w].items()} for w in ("all", "pub")}
    return out


# --------------------------------------------------------------------------
# generator
# --------------------------------------------------------------------------

KIND_LETTER = {K_PROC: "s", K_ABS: "a", K_TYPE: "t", K_VAR: "v"}


def rnd_case(rng, s):
    r = rng.random()
    if r < 0.6:
        return s
    if r < 0.8:
        return s.upper()
    return "".join(c.upper() if rng.random() < 0.5 else c for c in s)


def sp(rng, zero_ok=True):
    return rng.choice(["", " ", " ", "  "] if zero_ok else [" ", " ", "  "])


def render_use(rng, u):
    """statement text for abstract use `u` (adds u['stmt'])"""
    form = rng.random()
    mod = rnd_case(rng, u["mod"])
    kw = rnd_case(rng, "use")
    if form < 0.7:
        head = f"{kw}{sp(rng, False)}{mod}"
    elif form < 0.85:
        head = f"{kw}{sp(rng)}::{sp(rng)}{mod}"
    else:
        head = f"{kw}{sp(rng)},{sp(rng)}{rnd_case(rng, 'non_intrinsic')}{sp(rng)}::{sp(rng)}{mod}"
    items = []
    for l, r in u["items"]:
        if l == r and not u.get("force_arrow"):
            items.append(rnd_case(rng, l))
        else:
            items.append(f"{rnd_case(rng, l)}{sp(rng)}=>{sp(rng)}{rnd_case(rng, r)}")
    lst = (sp(rng) + "," + sp(rng)).join(items)
    if u["only"]:
        rest = f"{sp(rng)},{sp(rng)}{rnd_case(rng, 'only')}{sp(rng)}:{sp(rng)}{lst}"
    elif items:
        rest = f"{sp(rng)},{sp(rng)}{lst}"
    else:
        rest = ""
    u["stmt"] = (head + rest).rstrip()
    return u["stmt"]


def gen_graph(rng, idx, hist):
    """Abstract project: scopes in dependency order (scope i uses only modules j < i)."""
    nmod = rng.choice([1, 2, 2, 3, 3, 3, 4, 4, 5, 6])
    with_prog = rng.random() < 0.6
    shape = rng.choice(["chain", "diamond", "random", "random"])
    scopes = []
    nested = []
    exported = {}  # module -> {k: set(names)} per the standard (kept incrementally for name choice)
    clashy = rng.random() < 0.06
    defects = rng.random() < 0.30  # allow known-defect forms in this project
    total = nmod + (1 if with_prog else 0)
    for i in range(total):
        is_mod = i < nmod
        name = f"m{i}" if is_mod else "prog"
        def_pub = rng.random() < 0.6 if is_mod else True
        s = {"name": name, "is_mod": is_mod, "def_pub": def_pub, "decls": [], "uses": [],
             "pub_names": [], "priv_names": [], "calls": []}
        # ---- uses
        if i > 0:
            avail = list(range(min(i, nmod)))
            if shape == "chain":
                used = [avail[-1]]
            elif shape == "diamond" and i >= 3:
                used = rng.sample(avail, 2)
            else:
                used = rng.sample(avail, rng.randint(0 if i < total - 1 else 1, min(3, len(avail))))
            if rng.random() < 0.05:
                s["uses"].append({"mod": "iso_fortran_env", "only": False, "items": []})  # not in project
            for j in used:
                m = f"m{j}"
                nstm = 2 if rng.random() < 0.2 else 1
                for _ in range(nstm):
                    s["uses"].append(gen_use(rng, m, exported[m], i, len(s["uses"]), defects, clashy, scopes[j]))
        # ---- imported names so far (standard), to place access statements
        graph_so_far = {"scopes": scopes + [s]}
        spec = spec_tables(graph_so_far)
        imported = sorted({n for k in range(4) for n in spec[name][k]["all"]})
        if is_mod:
            for n in imported:
                if not def_pub:
                    r = rng.random()
                    if r < 0.5:
                        s["pub_names"].append(n)
                    elif r < 0.6:
                        s["priv_names"].append(n)
                elif defects and rng.random() < 0.15:
                    s["priv_names"].append(n)
        # ---- declarations
        nd = rng.randint(1, 5)
        for q in range(nd):
            kind = rng.choice([K_PROC, K_PROC, K_ABS, K_TYPE, K_TYPE, K_VAR, K_VAR])
            if not is_mod and kind == K_ABS and rng.random() < 0.5:
                kind = K_VAR
            dn = f"{KIND_LETTER[kind]}{i}{chr(97 + q)}"
            if clashy and imported and rng.random() < 0.3:
                dn = rng.choice(imported)
                if any(d["name"] == dn for d in s["decls"]):
                    continue
                # input normal form: access statements about declared names live in the declaration
                s["pub_names"] = [x for x in s["pub_names"] if x != dn]
                s["priv_names"] = [x for x in s["priv_names"] if x != dn]
            d = {"name": dn, "kind": kind, "accs": gen_accs(rng, kind, def_pub, defects, hist) if is_mod else [],
                 "form": rng.choice(["sub", "fun", "gen"]) if kind == K_PROC else "", "ref": None}
            s["decls"].append(d)
        # ---- references through imported names (types of variables, extends, calls)
        tnames = sorted(spec[name][K_TYPE]["all"])
        hidden = sorted({n for j in range(min(i, nmod)) for d in scopes[j]["decls"] if d["kind"] == K_TYPE for n in [d["name"]]})
        for d in s["decls"]:
            if d["kind"] in (K_VAR, K_TYPE) and rng.random() < 0.5 and (tnames or hidden):
                d["ref"] = rng.choice(tnames) if tnames and rng.random() < 0.7 else rng.choice(hidden or tnames)
        if not is_mod:
            pn = sorted(spec[name][K_PROC]["all"])
            hp = sorted({d["name"] for j in range(nmod) for d in scopes[j]["decls"] if d["kind"] == K_PROC})
            for _ in range(rng.randint(0, 3)):
                if pn and rng.random() < 0.7:
                    s["calls"].append(rng.choice(pn))
                elif hp:
                    s["calls"].append(rng.choice(hp))
        # ---- a declaration that has the same name (and kind) as an entity exported by a module this
        #      module does not use: legal, and a contained procedure may `use` that module, whereupon
        #      the use-associated entity hides this host-associated one (F2018 19.5.1.4)
        twin = None
        if is_mod and i >= 1 and not clashy and rng.random() < 0.22:
            used_here = {u["mod"] for u in s["uses"]}
            # (names the known defect classes would make visible here are avoided as well, so that
            #  the namesake never collides with a spuriously imported entity)
            taken = set(imported) | {d["name"] for d in s["decls"]}
            for sw in SWITCH_SETS:
                loose = spec_tables(graph_so_far, sw)
                taken |= {n for k in range(4) for n in loose[name][k]["all"]}
            cands = [(j, k, r) for j in range(i) if f"m{j}" not in used_here
                     for k in range(4) for r in exported[f"m{j}"][k]
                     if r not in taken and not r.startswith("n") and not any(r in exported[f"m{j}"][k2] for k2 in range(4) if k2 != k)]
            if cands:
                j, k, r = rng.choice(cands)
                # (always private: a public namesake would only make later modules ambiguous)
                s["decls"].append({"name": r, "kind": k, "accs": [["r", k in (K_VAR, K_TYPE) and rng.random() < 0.5]],
                                   "form": rng.choice(["sub", "fun"]) if k == K_PROC else "", "ref": None})
                twin = (j, k, r)
                hist["twin-decl:" + KIND_LETTER[k]] = hist.get("twin-decl:" + KIND_LETTER[k], 0) + 1
        scopes.append(s)
        if is_mod:
            spec = spec_tables({"scopes": scopes})
            exported[name] = {k: sorted(spec[name][k]["pub"]) for k in range(4)}
        if is_mod and i >= 1 and not clashy and (twin or rng.random() < 0.4):
            gen_nested(rng, i, s, scopes, nested, exported, defects, hist, twin)
    hist["shape:" + shape] = hist.get("shape:" + shape, 0) + 1
    hist[f"modules:{nmod}"] = hist.get(f"modules:{nmod}", 0) + 1
    return {"id": idx, "scopes": scopes, "nested": nested}


SWITCH_SETS = [frozenset(c) for r in range(len(ALL_FEATURES) + 1) for c in itertools.combinations(ALL_FEATURES, r)]


def gen_accs(rng, kind, def_pub, defects, hist):
    """access keywords of a module entity, in the order FORD meets them, each either in the
    attribute list of the declaration (variables and types) or in a statement of its own.
    Variables also get PROTECTED, alone and together with PUBLIC / PRIVATE in both orders and in
    both kinds of module (accessibility is decided by PUBLIC / PRIVATE / the default, never by
    PROTECTED).  The two forms in which the unchanged code exports a private variable (PROTECTED
    last on a private entity, finding C06-protected-private-exported) only in `defects` projects."""
    r = rng.random()
    if kind != K_VAR:
        letters = "r" if r < 0.25 else "u" if r < 0.5 else ""
    elif r < 0.20:
        letters = "r"
    elif r < 0.40:
        letters = "u"
    elif r < 0.47:
        letters = "t" if def_pub or (defects and rng.random() < 0.5) else "ut"
    elif r < 0.55:
        letters = rng.choice(["ut", "ut", "tu"])
    elif r < 0.58:
        letters = "rt" if defects and rng.random() < 0.5 else "tr"
    else:
        letters = ""
    can_inline = kind in (K_VAR, K_TYPE)
    if not can_inline:
        ninl = 0
    elif len(letters) == 2:
        ninl = rng.choice([0, 1, 2, 2])
    else:
        ninl = 1 if rng.random() < 0.5 else 0
    if "t" in letters:
        key = "access:" + letters + ("/default-public" if def_pub else "/default-private")
        hist[key] = hist.get(key, 0) + 1
    return [[a, i < ninl] for i, a in enumerate(letters)]


def own_clash(spec, name):
    """does one identifier denote two entities (of any kind) in scope `name`?"""
    seen = {}
    for k in range(4):
        for nm, ents in spec[name][k]["all"].items():
            for e in ents:
                seen.setdefault(nm, set()).add((k, e))
    return any(len(v) > 1 for v in seen.values())


def own_clash_any(graph, name):
    """... by the standard's rules or under any combination of the known defect classes (the
    classification of a failing project needs single-valued tables for each of them)"""
    return any(own_clash(spec_tables(graph, sw), name) for sw in SWITCH_SETS)


def gen_nested(rng, i, s, scopes, nested, exported, defects, hist, twin=None):
    """module procedure n<i>a (and, mostly, its internal procedure n<i>b) with USE statements of
    their own: the module then depends on those modules only through get_deps' recursion.
    About half of these USE statements import an entity under an identifier that is already
    visible in the host (declared there, or imported there from another module): use association
    must then hide the host-associated entity, for every kind of entity and every USE form."""
    levels = 2 if rng.random() < 0.7 else 1
    host = s["name"]
    used_at_module_level = {u["mod"] for u in s["uses"]}
    twin_level = rng.randrange(levels) if twin else None
    first = len(nested)

    def bump(key):
        hist[key] = hist.get(key, 0) + 1

    for lv in range(levels):
        nm = f"n{i}{'ab'[lv]}"
        ns = {"name": nm, "is_mod": False, "def_pub": True, "host": host, "decls": [], "uses": [],
              "pub_names": [], "priv_names": [], "calls": [], "level": lv + 1}
        nested.append(ns)
        (s if lv == 0 else nested[-2])["decls"].append(
            {"name": nm, "kind": K_PROC, "accs": [], "form": "sub", "ref": None, "inner": nm})
        cands = [j for j in range(i)]
        fresh = [j for j in cands if f"m{j}" not in used_at_module_level]
        deepest = lv == levels - 1
        nuse = 0
        if twin_level == lv:
            # the module whose entity has a namesake in the host module, in a form that admits it
            j, k, r = twin
            exp = exported[f"m{j}"]
            u = {"mod": f"m{j}", "only": False, "items": []}
            if rng.random() < 0.6:
                others = sorted({n for kk in range(4) for n in exp[kk]} - {r})
                u["only"] = True
                u["items"] = [[r, r]] + [[n, n] for n in rng.sample(others, min(len(others), rng.randint(0, 2)))]
                rng.shuffle(u["items"])
            ns["uses"].append(u)
            nuse += 1
            bump("nested-shadow:namesake-" + ("only" if u["only"] else "all"))
        if deepest or rng.random() < 0.5 or nuse:
            for t in range(rng.choice([1, 1, 1, 2]) - nuse):
                j = rng.choice(fresh) if fresh and rng.random() < 0.7 else rng.choice(cands)
                u = gen_use(rng, f"m{j}", exported[f"m{j}"], i, 7 + 2 * lv + t, defects, False, scopes[j])
                ns["uses"].append(u)
                nuse += 1
                if own_clash_any({"scopes": scopes, "nested": nested}, nm):
                    ns["uses"].pop()  # two USEs of one scope would give one identifier two entities
                    nuse -= 1
                    continue
                if rng.random() < 0.55:
                    shadow_by_rename(rng, u, ns, scopes, nested, exported, defects, bump)
        if nuse:
            bump("nested-use-level:%d" % (lv + 1))
        host = nm
    # references through the names each procedure sees (types of locals, calls), preferring the
    # identifiers whose meaning differs from the host's
    spec = spec_tables({"scopes": scopes, "nested": nested})
    for ns in nested[first:]:
        here, up = spec[ns["name"]], spec[ns["host"]]
        deepest = ns is nested[-1]

        def differs(k, n):
            return here[k]["all"].get(n) != up[k]["all"].get(n)

        tn = sorted(here[K_TYPE]["all"])
        pn = sorted(n for n in here[K_PROC]["all"] if not n.startswith("n"))
        tn_d = [n for n in tn if differs(K_TYPE, n)]
        pn_d = [n for n in pn if differs(K_PROC, n)]
        for q in range(rng.randint(0, 2) if deepest else rng.randint(0, 1)):
            if tn:
                ns["decls"].append({"name": f"z{i}{ns['level']}{q}", "kind": K_VAR, "accs": [], "form": "",
                                    "ref": rng.choice(tn_d) if tn_d and rng.random() < 0.6 else rng.choice(tn)})
        for _ in range(rng.randint(0, 2) if deepest else rng.randint(0, 1)):
            if pn:
                ns["calls"].append(rng.choice(pn_d) if pn_d and rng.random() < 0.6 else rng.choice(pn))


def shadow_by_rename(rng, u, ns, scopes, nested, exported, defects, bump):
    """give one entity imported by `u` a local name that is already visible in the host of `ns`
    with another meaning (same kind): `use m, only: hostname => remote` (or, among the defect
    forms, `use m, hostname => remote`).  Reverted when it would make an identifier ambiguous."""
    spec = spec_tables({"scopes": scopes, "nested": nested})
    hostsees = spec[ns["host"]]
    modexp = spec[u["mod"]] if u["mod"] in spec else None
    if modexp is None:
        return
    cands = []
    for k in range(4):
        for hn, hents in hostsees[k]["all"].items():
            if hn.startswith("n") or len(hents) != 1:
                continue
            if any(hn in hostsees[k2]["all"] for k2 in range(4) if k2 != k):
                continue
            for r, rents in modexp[k]["pub"].items():
                if len(rents) == 1 and rents != hents:
                    cands.append((k, hn, r))
    if not cands:
        return
    k, hn, r = rng.choice(sorted(cands))
    saved = (u["only"], [list(x) for x in u["items"]])
    if any(l == hn for l, _ in u["items"]):
        return
    if u["only"]:
        if any(rr == r for _, rr in u["items"]):
            u["items"] = [[hn, rr] if rr == r else [l, rr] for l, rr in u["items"]]
        else:
            u["items"].insert(rng.randint(0, len(u["items"])), [hn, r])
        form = "only"
    elif not u["items"] and not (defects and rng.random() < 0.4):
        u["only"] = True
        u["items"] = [[hn, r]]
        form = "only"
    else:  # rename list without ONLY: everything else of the module comes along
        u["items"] = [x for x in u["items"] if x[1] != r] + [[hn, r]]
        form = "bare"
    if own_clash_any({"scopes": scopes, "nested": nested}, ns["name"]):
        u["only"], u["items"] = saved
        return
    bump(f"nested-shadow:rename-{form}-{KIND_LETTER[k]}")


def gen_use(rng, m, exp, i, q, defects, clashy, mscope):
    names = sorted({n for k in range(4) for n in exp[k]})
    private = [d["name"] for d in mscope["decls"] if d["name"] not in names]
    r = rng.random()
    u = {"mod": m, "only": False, "items": []}

    def pick(n):
        n = min(n, len(names))
        return rng.sample(names, n) if n else []

    def loc(rem, z):
        if clashy and rng.random() < 0.3:
            return rng.choice(names + private + ["x"])
        return f"{rem[0]}x{i}{q}{z}"

    if r < 0.30 or not names:
        if not names and rng.random() < 0.5:
            u["only"] = True
            u["items"] = [[p, p] for p in private[:1]] or [["nosuch", "nosuch"]]
        return u
    if r < 0.55:  # only, plain names (sometimes a private or unknown name)
        u["only"] = True
        u["items"] = [[n, n] for n in pick(rng.randint(1, 3))]
        if private and rng.random() < 0.25:
            u["items"].append([private[0], private[0]])
        if rng.random() < 0.1:
            u["items"].append(["nosuch", "nosuch"])
        return u
    if r < 0.85:  # only with renames
        u["only"] = True
        for z, n in enumerate(pick(rng.randint(1, 3))):
            u["items"].append([loc(n, z), n] if rng.random() < 0.6 else [n, n])
        if private and rng.random() < 0.2:
            u["items"].append([f"px{i}{q}", private[0]])
        if defects and rng.random() < 0.3 and u["items"]:
            rem = u["items"][0][1]
            u["items"].append([f"{rem[0]}y{i}{q}", rem])  # same remote twice
        return u
    if not defects:
        return u
    if r < 0.95:  # renames without only
        for z, n in enumerate(pick(rng.randint(1, 2))):
            u["items"].append([loc(n, z), n])
        return u
    u["only"] = True  # `only:` with an empty list
    return u


# --------------------------------------------------------------------------
# rendering
# --------------------------------------------------------------------------

ACC_WORD = {"u": "public", "r": "private", "t": "protected"}


def render_proc(rng, ns, nested, ind):
    """contained subroutine `ns` with its USE statements, local variables, calls and internal procedure"""
    L = [f"{ind}subroutine {ns['name']}()"]
    for u in ns["uses"]:
        L.append(f"{ind}  " + (u.get("stmt") or render_use(rng, u)))
    child = None
    for d in ns["decls"]:
        if d["kind"] == K_VAR:
            ty = f"type({rnd_case(rng, d['ref'])})" if d["ref"] else "integer"
            L.append(f"{ind}  {ty} :: {d['name']}")
        elif d.get("inner"):
            child = next(x for x in nested if x["name"] == d["inner"])
    for c in ns["calls"]:
        L.append(f"{ind}  call {rnd_case(rng, c)}()")
    if child is not None:
        L.append(f"{ind}contains")
        L += render_proc(rng, child, nested, ind + "  ")
    L.append(f"{ind}end subroutine {ns['name']}")
    return L


def render_scope(rng, s, nested=()):
    L = []
    L.append(f"module {s['name']}" if s["is_mod"] else f"program {s['name']}")
    for u in s["uses"]:
        L.append("  " + (u.get("stmt") or render_use(rng, u)))
    L.append("  implicit none")
    if s["is_mod"] and not s["def_pub"]:
        L.append("  private")
    elif s["is_mod"] and rng.random() < 0.3:
        L.append("  public")
    stmts = []
    for n in s["pub_names"]:
        stmts.append(f"  public :: {rnd_case(rng, n)}")
    for n in s["priv_names"]:
        stmts.append(f"  private :: {rnd_case(rng, n)}")
    body, contains = [], []
    own = []  # (declaration index, position among its statements, text): relative order is kept
    for di, d in enumerate(s["decls"]):
        n = d["name"]
        inline = ""
        for a, inl in decl_accs(d):
            word = rnd_case(rng, ACC_WORD[a])
            if inl and d["kind"] in (K_VAR, K_TYPE) and not any(o[0] == di for o in own):
                inline += f",{sp(rng)}{word}"
            else:
                own.append((di, sum(1 for o in own if o[0] == di), f"  {word} :: {rnd_case(rng, n)}"))
        if d["kind"] == K_VAR:
            ty = f"type({rnd_case(rng, d['ref'])})" if d["ref"] else "integer"
            body.append(f"  {ty}{inline} :: {n}")
        elif d["kind"] == K_TYPE:
            ext = f", extends({rnd_case(rng, d['ref'])})" if d["ref"] else ""
            body += [f"  type{inline}{ext} :: {n}", "    integer :: c_" + n, f"  end type {n}"]
        elif d["kind"] == K_ABS:
            body += ["  abstract interface", f"    subroutine {n}()", f"    end subroutine {n}", "  end interface"]
        elif d.get("inner"):
            contains += render_proc(rng, next(x for x in nested if x["name"] == d["inner"]), nested, "  ")
        elif d["form"] == "sub":
            contains += [f"  subroutine {n}()", f"  end subroutine {n}"]
        elif d["form"] == "fun":
            contains += [f"  integer function {n}()", f"    {n} = 1", f"  end function {n}"]
        else:  # generic interface with an external-body specific
            body += [f"  interface {n}", f"    subroutine {n}_impl(x)", "      integer :: x", f"    end subroutine {n}_impl",
                     "  end interface"]
    # access statements in random order, except that the statements about one entity keep theirs
    # (FORD applies them in source order and the keyword met last stays in its `permission`)
    mixed = [(None, 0, t) for t in stmts] + own
    rng.shuffle(mixed)
    for di in {o[0] for o in own}:
        pos = [i for i, o in enumerate(mixed) if o[0] == di]
        for i, o in zip(pos, sorted((mixed[i] for i in pos), key=lambda o: o[1])):
            mixed[i] = o
    L += [o[2] for o in mixed] + body
    for c in s["calls"]:
        L.append(f"  call {rnd_case(rng, c)}()")
    if contains:
        L += ["contains"] + contains
    L.append(f"end module {s['name']}" if s["is_mod"] else f"end program {s['name']}")
    return "\n".join(L) + "\n"


def model_fields(s):
    flags = ("M" if s["is_mod"] else "P") + ("U" if s["def_pub"] else "R")
    decls = []
    # dict order of FORD's all_procs: functions, subroutines, then (generic) interfaces; the other
    # kinds keep source order.  Only observable when an only-list maps two remote names to one local.
    rank = {"fun": 0, "sub": 1, "gen": 2}
    for d in sorted(s["decls"], key=lambda d: rank.get(d["form"], 0) if d["kind"] == K_PROC else 0):
        decls.append(f"{d['name']}:{d['kind']}:{acc_letters(d) or '-'}")
    return [s["name"], flags, " ".join(s["pub_names"]), " ".join(s["priv_names"]), " ".join(decls),
            str(len(s["uses"]))] + [u["stmt"] for u in s["uses"]]


def nested_spec(graph):
    """`root:host:name` of every contained procedure, hosts before their children"""
    by = {n["name"]: n for n in graph.get("nested", [])}
    out = []
    for n in graph.get("nested", []):
        root = n["host"]
        while root in by:
            root = by[root]["host"]
        out.append(f"{root}:{n['host']}:{n['name']}")
    return " ".join(out)


# --------------------------------------------------------------------------
# the implementation, in-process
# --------------------------------------------------------------------------


class Impl:
    def __init__(self):
        self.ford = common.import_ford()
        import ford.fortran_project as fp
        import ford.sourceform as sf
        from ford.settings import ProjectSettings

        self.fp, self.sf, self.Settings = fp, sf, ProjectSettings

    def home(self, o):
        """name of the scope that declares `o`: the enclosing module / program, or the enclosing
        contained procedure that is a scope of the generated project (named n...)"""
        q = getattr(o, "parent", None)
        while q is not None and not isinstance(q, (self.sf.FortranModule, self.sf.FortranProgram)):
            if isinstance(q, self.sf.FortranProcedure) and q.name.lower().startswith("n"):
                break
            q = getattr(q, "parent", None)
        return q.name.lower() if q is not None else "?"

    def ent(self, o):
        return f"{self.home(o)}.{o.name.lower()}"

    def run(self, d: Path, files: list[Path]):
        """Project over `files` in exactly this order; returns observation dict."""
        fp, sf = self.fp, self.sf
        sf.namelist = sf.NameSelector()
        orig_find = fp.find_all_files
        orig_corr = sf.FortranCodeUnit.correlate
        order = []

        def logging_correlate(this, project):
            if isinstance(this, (sf.FortranModule, sf.FortranProgram)):
                order.append(this.name.lower())
            return orig_corr(this, project)

        fp.find_all_files = lambda settings: list(files)
        sf.FortranCodeUnit.correlate = logging_correlate
        try:
            with common.quiet():
                settings = self.Settings(src_dir=[d], preprocess=False, dbg=False, warn=False, quiet=True,
                                         graph=False, search=False, incl_src=False,
                                         display=["public", "protected", "private"], proc_internals=True)
                project = fp.Project(settings)
                project.correlate()
        except Exception as e:  # noqa
            return {"error": f"{type(e).__name__}: {str(e)[:200]}"}
        finally:
            fp.find_all_files = orig_find
            sf.FortranCodeUnit.correlate = orig_corr
        obs = {"order": order, "tables": {}, "refs": {}, "uses": {}}
        units = list(project.modules) + list(project.programs)
        for m in project.modules:  # contained procedures with USE statements (named n<i>a / n<i>b)
            for r in m.routines:
                if r.name.lower().startswith("n"):
                    units.append(r)
                    units += [q for q in r.routines if q.name.lower().startswith("n")]
        for sc in units:
            n = sc.name.lower()
            per = {}
            for k, (a, p) in enumerate(KIND_TABLES):
                per[k] = {"all": {nm: self.ent(o) for nm, o in getattr(sc, a, {}).items()},
                          "pub": {nm: self.ent(o) for nm, o in (getattr(sc, p, None) or {}).items()}
                          if isinstance(sc, sf.FortranModule) else {}}
            obs["tables"][n] = per
            refs = {}
            for v in sc.variables:
                if v.proto:
                    refs["var:" + v.name.lower()] = None if isinstance(v.proto[0], str) else self.ent(v.proto[0])
            for t in sc.types:
                if t.extends is not None:
                    refs["ext:" + t.name.lower()] = None if isinstance(t.extends, str) else self.ent(t.extends)
            if hasattr(sc, "calls"):
                refs["calls"] = sorted({("?" + c.lower()) if isinstance(c, str) else self.ent(c) for c in sc.calls})
            obs["refs"][n] = refs
        return obs


# Trees before 9594e8c ("keep declarations of a nested scope out of its host's ... name tables")
# share one dict between a scope and its contained procedures (C07's leak, not this property).
# Decided at run time by `detect_shared_dict_leak`; on trees without the leak nothing is masked.
SHARED_DICT_LEAK = False


def detect_shared_dict_leak(impl, d: Path) -> bool:
    """does a local variable of a contained procedure show up in its host's all_vars?"""
    sub = d / "leakprobe"
    sub.mkdir(exist_ok=True)
    f = sub / "probe.f90"
    f.write_text("module leakprobe_m\n  implicit none\ncontains\n  subroutine leakprobe_s()\n"
                 "    integer :: leakprobe_v\n  end subroutine leakprobe_s\nend module leakprobe_m\n")
    fp, sf = impl.fp, impl.sf
    sf.namelist = sf.NameSelector()
    orig_find = fp.find_all_files
    fp.find_all_files = lambda settings: [f]
    try:
        with common.quiet():
            settings = impl.Settings(src_dir=[sub], preprocess=False, dbg=False, warn=False, quiet=True,
                                     graph=False, search=False, incl_src=False,
                                     display=["public", "protected", "private"], proc_internals=True)
            project = fp.Project(settings)
            project.correlate()
        return "leakprobe_v" in project.modules[0].all_vars
    except Exception:  # noqa
        return False
    finally:
        fp.find_all_files = orig_find
        f.unlink()
        sub.rmdir()


def mask(graph, tables):
    """On a tree with the shared-dict leak (see SHARED_DICT_LEAK): where a scope has a contained
    procedure with USE statements or locals, only its deepest procedure is observed for types,
    variables and abstract interfaces.  Otherwise the identity."""
    hosts = {n["host"] for n in graph.get("nested", [])} if SHARED_DICT_LEAK else set()
    out = {}
    for n, per in tables.items():
        out[n] = {}
        for k, t in per.items():
            out[n][k] = {"all": {} if (n in hosts and int(k) != K_PROC) else t["all"], "pub": t["pub"]}
    return out


def expected_refs(graph, tabs):
    """References resolve through the scope's name tables (`tabs`: single-valued)."""
    out = {}
    hosts = {n["host"] for n in graph.get("nested", [])} if SHARED_DICT_LEAK else set()
    for s in graph["scopes"] + graph.get("nested", []):
        refs = {}
        for d in s["decls"]:
            if d["ref"]:
                key = ("var:" if d["kind"] == K_VAR else "ext:") + d["name"]
                refs[key] = tabs[s["name"]][K_TYPE]["all"].get(d["ref"])
        if not s["is_mod"]:
            calls = set()
            for c in s["calls"]:
                e = tabs[s["name"]][K_PROC]["all"].get(c)
                calls.add(e if e else "?" + c)
            refs["calls"] = sorted(calls)
        if s["name"] in hosts:  # type names of a host are looked up in the dict it shares with its procedures
            refs = {k: v for k, v in refs.items() if k == "calls"}
        out[s["name"]] = refs
    return out


def refs_of(graph, obs_refs):
    """observed references of the scopes the graph describes (same masking as expected_refs)"""
    hosts = {n["host"] for n in graph.get("nested", [])} if SHARED_DICT_LEAK else set()
    out = {}
    for s in graph["scopes"] + graph.get("nested", []):
        r = obs_refs.get(s["name"], {})
        out[s["name"]] = {k: v for k, v in r.items() if k == "calls"} if s["name"] in hosts else r
    return out


def parse_model(resp):
    if not resp or resp[0] != "ok":
        return {"error": resp}
    out = {}
    for f in resp[1:]:
        k, scope, a, p = f.split("|")
        per = out.setdefault(scope, {})
        per[int(k)] = {"all": dict(e.split("=") for e in a.split(" ") if e),
                       "pub": dict(e.split("=") for e in p.split(" ") if e)}
    return out


def diff_tables(a, b):
    """first difference between two {scope:{k:{all,pub}}} observations, or None"""
    for n in sorted(set(a) | set(b)):
        for k in range(4):
            for w in ("all", "pub"):
                x = (a.get(n) or {}).get(k, {}).get(w, {})
                y = (b.get(n) or {}).get(k, {}).get(w, {})
                if x != y:
                    for nm in sorted(set(x) | set(y)):
                        if x.get(nm) != y.get(nm):
                            return f"scope {n} table {KIND_TABLES[k][0 if w == 'all' else 1]} name {nm!r}: {x.get(nm)} vs {y.get(nm)}"
    return None


def is_topo(graph, order):
    """every scope once, each module after the project modules it and its contained procedures use"""
    mods = {s["name"] for s in graph["scopes"] if s["is_mod"]}
    pos = {n: i for i, n in enumerate(order)}
    if sorted(order) != sorted(s["name"] for s in graph["scopes"]):
        return False
    for s in graph["scopes"]:
        for u in s["uses"]:
            if u["mod"] in mods and u["mod"] != s["name"] and pos[u["mod"]] > pos[s["name"]]:
                return False
    # the USE statements of contained procedures count as dependencies of their root (model `isTopoN`)
    by = {n["name"]: n for n in graph.get("nested", [])}
    for n in graph.get("nested", []):
        root = n["host"]
        while root in by:
            root = by[root]["host"]
        for u in n["uses"]:
            if u["mod"] in mods and u["mod"] != root and pos[u["mod"]] > pos[root]:
                return False
    return True


# --------------------------------------------------------------------------
# micro streams
# --------------------------------------------------------------------------


def detect_variant(impl) -> bool:
    """True when the working tree honours rename lists of a USE without ONLY
    (fixes/C06-rename-without-only.diff applied): replay of the finding's witness."""
    M = impl.sf.FortranModule
    fake = types.SimpleNamespace(ONLY_RE=M.ONLY_RE, RENAME_RE=M.RENAME_RE,
                                 pub_procs={}, pub_absints={}, pub_types={}, pub_vars={"v": "V"})
    try:
        res = M.get_used_entities(fake, ", w => v")[3]
    except Exception:  # noqa
        return False
    return dict(res) == {"w": "V"}


def micro_streams(impl, drv, rng, n, rep, hist, fixed=False):
    sf = impl.sf
    M = sf.FortranModule
    toks = [",", " ", "only", "ONLY", ":", "=>", "a", "b1", "_c", "x", "  ", "=", ">", "Only:", ", only:", "::", "(", "+"]
    utoks = ["use", "USE", " ", ",", "::", "intrinsic", "non_intrinsic", "NON_", "m", "M1", "only", ":", "a", "=>", "b", "  ", "user", "_"]
    reqs, exp = [], []
    for i in range(n):
        s = "".join(rng.choice(toks) for _ in range(rng.randint(0, 9)))
        if i % 3 == 0:
            s = rng.choice([", only:", ",only :", " , ONLY: ", ","]) + s
        m = M.ONLY_RE.match(s)
        reqs.append(["c06.only", s])
        exp.append(["ok", "1" if m else "0", M.ONLY_RE.sub("", s)])
        hist["micro:only-" + ("match" if m else "nomatch")] = hist.get("micro:only-" + ("match" if m else "nomatch"), 0) + 1
        m = M.RENAME_RE.search(s)
        reqs.append(["c06.rename", s])
        exp.append(["ok"] + (list(m.groups()) if m else []))
        # get_used_entities on a stand-in module object
        pool = ["a", "b1", "_c", "x", "only", "only:", ""]
        names = sorted(set(rng.sample(pool, rng.randint(0, 5))) - {""})
        fake = types.SimpleNamespace(ONLY_RE=M.ONLY_RE, RENAME_RE=M.RENAME_RE,
                                     pub_procs={nm: ("m", nm) for nm in names}, pub_absints={}, pub_types={}, pub_vars={})
        try:
            res = M.get_used_entities(fake, s)[0]
            e = ["ok"] + [f"{loc}={ent[1]}" for loc, ent in res.items()]
        except Exception as ex:  # noqa
            e = ["raised", type(ex).__name__]
        reqs.append(["c06.usedfixed" if fixed else "c06.used", s, " ".join(names)])
        exp.append(e)
        line = "".join(rng.choice(utoks) for _ in range(rng.randint(1, 8)))
        if i % 2 == 0:
            line = rng.choice(["use ", "use::", "USE, intrinsic :: ", "use ,non_intrinsic::", "use,"]) + line
        m = sf.FortranContainer.USE_RE.match(line)
        reqs.append(["c06.usestmt", line])
        exp.append(["ok"] + (list(m.groups()) if m else []))
        hist["micro:use-" + ("match" if m else "nomatch")] = hist.get("micro:use-" + ("match" if m else "nomatch"), 0) + 1
    got = drv.batch(reqs)
    bad = 0
    for r, e, g in zip(reqs, exp, got):
        if r[0].startswith("c06.used"):
            # dict order is not observable downstream: compare as sorted sets
            e, g = [e[0]] + sorted(e[1:]), [g[0]] + sorted(g[1:])
        if e != g:
            bad += 1
            rep.tie_broken(f"correspondence micro/{r[0]}: model {g} vs implementation {e} on {r[1:]!r}",
                           {"stream": "micro", "request": r, "impl": e, "model": g})
    return len(reqs), bad


# --------------------------------------------------------------------------
# one graph case
# --------------------------------------------------------------------------


def prepare(rng, graph):
    """render statements and files; returns {filename: text}, list of scopes per file"""
    # module names are permuted so that alphabetical order (toposort's tie-break) is unrelated
    # to the dependency order
    mods = [s["name"] for s in graph["scopes"] if s["is_mod"]]
    shuffled = list(mods)
    rng.shuffle(shuffled)
    ren = dict(zip(mods, shuffled))
    for s in graph["scopes"] + graph.get("nested", []):
        s["name"] = ren.get(s["name"], s["name"])
        if s.get("host"):
            s["host"] = ren.get(s["host"], s["host"])
        for u in s["uses"]:
            u["mod"] = ren.get(u["mod"], u["mod"])
            render_use(rng, u)
    files = {}
    cur, k = [], 0
    for s in graph["scopes"]:
        cur.append(render_scope(rng, s, graph.get("nested", [])))
        if rng.random() < 0.8:
            files[f"f{k}.f90"] = "\n".join(cur)
            cur, k = [], k + 1
    if cur:
        files[f"f{k}.f90"] = "\n".join(cur)
    graph["files"] = files
    return files


def oracle_case(graph, obs):
    """Property oracle on the implementation's observation.
    returns (status, why, finding_ids): status in ok / clash / fail"""
    strict = spec_tables(graph)
    if has_clash(strict, graph):
        return "clash", None, []
    exp = single(strict)
    got = mask(graph, obs["tables"])
    got_refs = refs_of(graph, obs["refs"])
    why = diff_tables(mask(graph, exp), got)
    if why is None:
        er = expected_refs(graph, exp)
        if er != got_refs:
            for n in er:
                for key in er[n]:
                    if er[n][key] != got_refs.get(n, {}).get(key):
                        why = f"reference {n}/{key}: expected {er[n][key]} observed {got_refs.get(n, {}).get(key)}"
                        break
            why = why or "resolved references differ"
    if why is None:
        return "ok", None, []
    # classification: is the deviation explained by the known defect classes present in the input?
    feats = sorted(features(graph))
    # the working tree may have repaired some of the classes: look for the set of present defect
    # classes that explains the observation completely (largest first)
    for size in range(len(feats), 0, -1):
        for sub in itertools.combinations(feats, size):
            e2 = single(spec_tables(graph, frozenset(sub)))
            if diff_tables(mask(graph, e2), got) is None and expected_refs(graph, e2) == got_refs:
                blamed = []
                for f in sub:
                    less = single(spec_tables(graph, frozenset(set(sub) - {f})))
                    if diff_tables(less, e2) is not None or expected_refs(graph, less) != expected_refs(graph, e2):
                        blamed.append(f)
                return "fail", why, blamed or list(sub)
    return "fail", why, [None]


def run(tier: str, seed: int, replay: str | None = None) -> int:
    rep = Report(PROP, tier, seed)
    tr = importlib.import_module("translate.c06")
    lean = lean_prove(PROP, translate=lambda: tr.translate(common), thorough=(tier == "thorough"))
    for b in lean.broken():
        rep.tie_broken("proof: " + b)
    impl = Impl()
    rng = random.Random(seed * 104729 + 6)
    drv = Driver()
    hist: dict[str, int] = {}
    n_micro = 3000 if tier == "quick" else 20000
    n_graph = 800 if tier == "quick" else 6000
    n_allperm = 30 if tier == "quick" else 300
    fixed = detect_variant(impl)
    hist["variant:" + ("repaired-rename" if fixed else "as-is")] = 1
    ev_micro, bad_micro = micro_streams(impl, drv, rng, n_micro, rep, hist, fixed)

    graphs = []
    if replay:
        data = json.loads(Path(replay).read_text())
        for c in data.get("cases", []) + data.get("first_disagreements", []):
            if "graph" in c:
                graphs.append(c["graph"])
    fixed_files = bool(replay)
    for i in range(0 if replay else n_graph):
        graphs.append(gen_graph(rng, i, hist))

    distinct = set()
    samples = []
    n_corr_bad = n_oracle_fail = n_clash = n_runs = n_perm_cases = 0
    impl_obs = []
    with common.scratch_dir() as d:
        global SHARED_DICT_LEAK
        SHARED_DICT_LEAK = detect_shared_dict_leak(impl, d)
        hist["host-tables:" + ("masked (shared-dict leak present)" if SHARED_DICT_LEAK else "observed")] = 1
        for gi, g in enumerate(graphs):
            files = g["files"] if fixed_files and "files" in g else prepare(rng, g)
            sub = d / f"g{gi % 16}"
            if sub.exists():
                for p in sub.iterdir():
                    p.unlink()
            sub.mkdir(exist_ok=True)
            paths = []
            for fn, text in files.items():
                (sub / fn).write_text(text)
                paths.append(sub / fn)
            # file orders: dependency order reversed (worst case for a naive reader), plus permutations
            orders = [list(reversed(paths))]
            if len(paths) <= 4 and n_perm_cases < n_allperm and len(paths) >= 3:
                orders = [list(p) for p in itertools.permutations(paths)]
                n_perm_cases += 1
                hist["all-permutations"] = hist.get("all-permutations", 0) + 1
            elif len(paths) > 1:
                o2 = list(paths)
                rng.shuffle(o2)
                orders.append(o2)
            first = None
            for oi, o in enumerate(orders):
                obs = impl.run(sub, o)
                n_runs += 1
                if "error" in obs:
                    rep.failing_input({"stream": "graph", "graph": g, "file_order": [p.name for p in o],
                                       "why": "implementation raised " + obs["error"]}, None)
                    n_oracle_fail += 1
                    break
                if not is_topo(g, obs["order"]):
                    rep.failing_input({"stream": "graph", "graph": g, "file_order": [p.name for p in o],
                                       "why": f"correlation order {obs['order']} is not a topological order of the USE graph"}, None)
                    n_oracle_fail += 1
                if first is None:
                    first = obs
                else:
                    w = diff_tables(first["tables"], obs["tables"]) or (None if first["refs"] == obs["refs"] else "resolved references differ")
                    if w:
                        n_oracle_fail += 1
                        rep.failing_input({"stream": "graph", "graph": g,
                                           "file_order": [p.name for p in o], "first_order": [p.name for p in orders[0]],
                                           "why": "tables depend on the order in which files are read: " + w}, None)
                        break
            impl_obs.append(first)
        # model, in the order FORD really used
        reqs = []
        for g, obs in zip(graphs, impl_obs):
            order = obs["order"] if obs and "order" in obs else [s["name"] for s in g["scopes"]]
            fields = []
            for s in g["scopes"] + g.get("nested", []):
                fields += model_fields(s)
            reqs.append(["c06.runnfixed" if fixed else "c06.runn", " ".join(order), nested_spec(g)] + fields)
        model = drv.batch(reqs)
        for g, obs, mo in zip(graphs, impl_obs, model):
            if obs is None or "error" in obs:
                continue
            feats = features(g)
            for f in feats:
                hist["feature:" + f] = hist.get("feature:" + f, 0) + 1
            for s in g["scopes"]:
                for u in s["uses"]:
                    form = ("only" if u["only"] else "all") + ("+rename" if any(l != r for l, r in u["items"]) else "") \
                        + ("" if u["items"] or not u["only"] else "-empty")
                    hist["use:" + form] = hist.get("use:" + form, 0) + 1
                if s["is_mod"]:
                    hist["default:" + ("public" if s["def_pub"] else "private")] = hist.get("default:" + ("public" if s["def_pub"] else "private"), 0) + 1
            mt = parse_model(mo)
            # FORD adds the specific of a generic interface only when `generic`; drop model-only helper decls
            w = None if "error" in mt else diff_tables(mask(g, strip_impl(mt)), mask(g, strip_impl(obs["tables"])))
            if "error" in mt or w:
                n_corr_bad += 1
                rep.tie_broken(f"correspondence graph: model and implementation differ on graph {g['id']}: {w}",
                               {"stream": "graph", "graph": g, "why": w, "order": obs["order"]})
            obs_clean = dict(obs, tables=strip_impl(obs["tables"]))
            status, why, fids = oracle_case(g, obs_clean)
            if status == "clash":
                n_clash += 1
                continue
            nontrivial = any(u["mod"].startswith("m") for s in g["scopes"] for u in s["uses"])
            if nontrivial:
                distinct.add(common.digest([s["name"] for s in g["scopes"]] + [u["stmt"] for s in g["scopes"] for u in s["uses"]]
                                           + [g["files"]]))
            if status == "fail":
                n_oracle_fail += 1
                for fid in fids:
                    rep.failing_input({"stream": "graph", "graph": g, "why": why, "order": obs["order"],
                                       "observed": obs_clean["tables"], "features": sorted(feats)}, fid)
            elif len(samples) < 3 and len(g["scopes"]) >= 3 and nontrivial:
                samples.append({"files": g["files"], "order": obs["order"],
                                "tables": {n: {KIND_TABLES[k][0]: t[k]["all"] for k in range(4)} for n, t in obs_clean["tables"].items()}})
    drv.close()
    rep.coverage.update(
        evaluations=ev_micro + n_runs + len(graphs),
        distinct_nontrivial=len(distinct),
        rule="graph cases: a generated project counts as non-trivial when at least one scope USEs a module of the project; "
             "distinct by digest of (scopes, USE statements, rendered files); clash projects (one name, two entities) are "
             "compared with the model but excluded from the oracle and from this count",
        samples=samples,
        traces_validated_against_impl=len(graphs) + ev_micro,
        implementation_runs=n_runs,
        correspondence_disagreements=n_corr_bad + bad_micro,
        oracle_failures=n_oracle_fail,
        clash_projects_excluded_from_oracle=n_clash,
        input_histogram=dict(sorted(hist.items())),
    )
    rep.assumptions += [
        "submodules, operator/assignment generics in only-lists, external/intrinsic modules are not modelled; unknown modules "
        "are skipped like FORD does; contained procedures (module procedure + internal procedure) are modelled (`runN`) and "
        "compared, contained procedures of programs and interface bodies are not generated",
        "hiding of a host identifier by a local or use-associated entity of ANOTHER kind is outside the generator (FORD keeps one "
        "table per kind; hypothesis SameKindHiding of nested_tables_exact_partial)",
        "CPython re is on the implementation side only; the scanners are its deterministic reading, validated on the micro stream "
        "and pinned to the regex sources by the generated table",
        "projects in which one name denotes two entities in a scope are outside the property's domain (oracle skipped, correspondence kept)",
        "the default-accessibility statement (bare PRIVATE / PUBLIC) is always rendered before the declarations of the module; "
        "PROTECTED is given to variables only; an entity is never given both PUBLIC and PRIVATE (hypothesis LegalAccess)",
    ]
    return rep.finish(lean)


def strip_impl(tables):
    """drop the `<g>_impl` specifics of generic interfaces (present in all_procs only when FORD
    classifies the interface as generic); they are never exported under their own name."""
    out = {}
    for n, per in tables.items():
        out[n] = {}
        for k, t in per.items():
            out[n][k] = {w: {nm: e for nm, e in t[w].items() if not e.endswith("_impl")} for w in ("all", "pub")}
    return out
