"""C16 - links into an externalised project hit the right pages of that project.

Streams
  export   : generated project A parsed + correlated by the real code; every module object is
             reflected (independently of obj2dict) into the model's entity tree; the model's
             `dumpModules` must equal the modules.json the real `dump_modules` writes (exact).
             Oracle (from Fortran's accessibility rules, not from the model): modules.json lists
             exactly A's modules and, per module, exactly its public entities by kind.
  import   : real `load_external_modules` (fetch replaced) vs the model's `importDoc` on exported
             and on damaged descriptions, local and remote bases: appended entities per project
             list in order (class, name, re-based URL, parent) or the error class.
  lookup   : `find_used_modules`, `Project.find`, pathlib / urljoin re-basing vs their models.
  pairs    : end to end - A built with `externalize`, B built against it (local relative path in several
             spellings, absolute path, remote URLs with / without path and trailing slash, the fetch
             replaced); each description in modules.json is the one of the entity at that place
             (identifiers shared by entities of different kinds included); every href in B that leaves B
             must hit an existing file + anchor in A that documents the entity named by the link;
             every reference B makes must be linked, to A's page or - for names B defines itself -
             to B's own; damaged / missing descriptions must not abort B's run.  Half of the pairs list A
             among other external projects (before / after / between them): unusable ones (no modules.json,
             no directory, truncated, not JSON, empty, not UTF-8, a directory, unreachable host, 404) and
             usable ones (empty, an unrelated module; local and remote) - everything above must hold
             unchanged: an unusable project costs its own links only.
  multi    : real `load_external_modules` on 1-4 external projects (each: description exported / damaged, or
             one of the ways of failing to fetch it; local and remote) vs the model's `loadAll`.
  node     : (round 4) the link of a graph node - `graphs.GraphData.get_node` / `BaseNode` on imported entities of every
             class (local `pathlib` paths, remote URLs, falsy and odd URLs) and on entities of the project itself, under
             several `parent_dir`, vs the model's `nodeUrl`; oracles: the node carries the imported URL; `relative_url`
             keeps a textual link on the entity's URL.
  assoc    : (round 5) USE association of A's entities through B's own modules - the real `Project.correlate` (with the
             description loaded by the real `load_external_modules`) on generated chains of modules of B (USE of A's modules /
             of earlier modules of B; whole, ONLY with renames, rename lists; private modules with PUBLIC lists; B built with
             `externalize` and other option sets) vs the model's `correlateAll`: per module and table (`pub_*`, `all_*`) the
             imported entries in dict order; oracle from Fortran's accessibility rules: every accessible name of A is
             resolved to A's entity.
  (round 5) import / multi / lookup load into real parsed projects of B (three, differing in their USE statements): what is
             loaded must not depend on B's source.  Pairs: prelude modules of B, `[[...]]` from a module that uses nothing
             to modules of A no USE statement names, a USE inside an interface body, eight option sets for B.
  (round 4) the pairs are built with `graph: true`: B calls A's procedures (subroutine, function, generic, type-bound;
             from module procedures and from a main program) and the nodes of the inline SVG graphs count as links.
"""
from __future__ import annotations

import json
import os
import random
import re
import shutil
import types
import urllib.error
from html.parser import HTMLParser
from pathlib import Path, PurePosixPath
from urllib.parse import urljoin, urlsplit

from . import common, e2e
from . import c16_gen as G
from .common import Driver, Report, lean_prove

PROP = "C16"
REMOTE = "http://ex.invalid/a"
# where A's documentation is "published" for the remote pairs: host only, one path segment, a
# sub-directory of a site, a port - each written with or without the trailing slash
REMOTE_BASES = [REMOTE, "http://ex.invalid/docs/v1/proja", "https://ex.invalid", "http://ex.invalid:8080/pa",
                "https://ex.invalid/~user/a.b"]
REMOTE_HOST = "ex.invalid"

# attributes reflected from FORD's objects: a fixed superset of external_project.ATTRIBUTES
# (the model filters with the *generated* table, the implementation with its own)
REFLECT = ["pub_procs", "pub_absints", "pub_types", "pub_vars", "functions", "subroutines", "interfaces",
           "absinterfaces", "types", "variables", "boundprocs", "vartype", "permission", "deferred", "generic",
           "attribs", "modprocs", "args", "finalprocs", "extends", "num_lines", "abstract", "kind", "proto"]


_FORD = None


def ford_mod():
    """common.import_ford() once (every call of it prepends /venv/bin to PATH; thousands of calls make the
    environment too large to start the driver)"""
    global _FORD
    if _FORD is None:
        _FORD = common.import_ford()
    return _FORD


# --------------------------------------------------------------------------- token codecs

def enc_json(v, out):
    if v is None:
        out.append("n")
    elif v is True:
        out.append("t")
    elif v is False:
        out.append("f")
    elif isinstance(v, int):
        out.append(f"#{v}")
    elif isinstance(v, str):
        out.append("s" + v)
    elif isinstance(v, list):
        out.append(f"[{len(v)}")
        for x in v:
            enc_json(x, out)
    elif isinstance(v, dict):
        out.append("{%d" % len(v))
        for k, x in v.items():
            out.append(k)
            enc_json(x, out)
    else:
        raise common.Infra(f"cannot encode {type(v)}")
    return out


def dec_json(toks, i=0):
    t = toks[i]
    if t == "n":
        return None, i + 1
    if t == "t":
        return True, i + 1
    if t == "f":
        return False, i + 1
    if t[0] == "#":
        return int(t[1:]), i + 1
    if t[0] == "s":
        return t[1:], i + 1
    if t[0] == "[":
        n, i, out = int(t[1:]), i + 1, []
        for _ in range(n):
            v, i = dec_json(toks, i)
            out.append(v)
        return out, i
    if t[0] == "{":
        n, i, out = int(t[1:]), i + 1, {}
        for _ in range(n):
            k = toks[i]
            v, i = dec_json(toks, i + 1)
            if k in out:
                raise common.Infra("duplicate key in model output")
            out[k] = v
        return out, i
    raise common.Infra(f"bad token {t!r}")


def reflect(obj, out, stats):
    """FORD object -> tokens of the model's `Ent` (does not use obj2dict / ATTRIBUTES)."""
    if isinstance(obj, str):
        out.append("T" + obj)
        return
    d = getattr(obj, "__dict__", {})
    if "external_url" in d or hasattr(type(obj), "external_url"):
        out.append("X")
        stats["ext-item"] = stats.get("ext-item", 0) + 1
        return
    url = obj.get_url()
    out += ["N", obj.name, "-" if url is None else "+" + url, obj.obj]
    cls_pt = getattr(obj, "proctype", None)
    out.append("-" if cls_pt is None else "+" + cls_pt)
    stats["class:" + type(obj).__name__] = stats.get("class:" + type(obj).__name__, 0) + 1
    present = [a for a in REFLECT if hasattr(obj, a)]
    out.append(str(len(present)))
    for a in present:
        v = getattr(obj, a)
        out.append(a)
        if isinstance(v, list):
            out.append(f"L{len(v)}")
            for x in v:
                reflect(x, out, stats)
        elif isinstance(v, dict):
            out.append(f"D{len(v)}")
            for k, x in v.items():
                out.append(k)
                reflect(x, out, stats)
        else:
            out.append("S" + str(v))


# --------------------------------------------------------------------------- running the real code

def make_settings(project_file: Path):
    ford = ford_mod()
    e2e.reset_global_state(ford)
    text = project_file.read_text()
    proj_docs, proj_data = ford.load_settings(text, project_file.parent, project_file.name)
    args = {"project_file": e2e._Named(project_file)}
    proj_data, proj_docs = ford.parse_arguments(args, proj_docs, proj_data, project_file.parent)
    return proj_data


def correlate_only(project_file: Path):
    """Project(...) + correlate(), no output (what dump_modules sees apart from markdown)."""
    ford = ford_mod()
    import ford.fortran_project as fp
    cwd = os.getcwd()
    try:
        with common.quiet():
            settings = make_settings(project_file)
            project = fp.Project(settings)
            project.correlate()
    finally:
        os.chdir(cwd)
    return project


class FakeResponse:
    def __init__(self, data: bytes):
        self.data = data

    def read(self):
        return self.data


def index_of(base: str) -> str:
    """where the description of a project published at `base` lies"""
    return base.rstrip("/") + "/modules.json"


class patched_fetch:
    """Replace the network fetch of ford.external_project (there is no network here):
    A's output directory is published at `base`; `<base>/modules.json` is served from `adoc`,
    every other URL is 404 / unreachable."""

    def __init__(self, adoc: Path | None, log: list | None = None, base: str = REMOTE, extra: dict | None = None):
        self.adoc = adoc
        self.base = base
        self.log = log if log is not None else []
        self.extra = extra or {}        # further descriptions published on the same host: URL -> bytes

    def __enter__(self):
        ford = ford_mod()
        import ford.external_project as xp
        self.xp = xp
        self.orig = xp.urlopen

        def fake(url, *a, **k):
            url = getattr(url, "full_url", url)
            self.log.append(url)
            if urlsplit(str(url)).hostname != REMOTE_HOST:
                raise urllib.error.URLError("no network in the verification sandbox")
            if str(url) in self.extra:
                return FakeResponse(self.extra[str(url)])
            p = self.adoc / "modules.json" if self.adoc else None
            if str(url) != index_of(self.base) or p is None or not p.is_file():
                raise urllib.error.HTTPError(url, 404, "Not Found", None, None)
            return FakeResponse(p.read_bytes())

        xp.urlopen = fake
        return self

    def __exit__(self, *exc):
        self.xp.urlopen = self.orig


# --------------------------------------------------------------------------- export stream

def check_export(rep, drv, project, real_doc, A, stats, tag):
    """correspondence: model dumpModules == real modules.json; oracle: export_exact"""
    toks = ["c16.dump", real_doc.get("ford-metadata", {}).get("version", ""), str(len(project.modules))]
    for m in project.modules:
        reflect(m, toks, stats)
    res = drv.call(*toks)
    ok = True
    if res[0] != "ok":
        rep.tie_broken(f"correspondence export ({tag}): driver answered {res[:2]}", {"stream": "export", "tag": tag})
        return False
    model_doc, _ = dec_json(res, 1)
    if model_doc != real_doc:
        ok = False
        rep.tie_broken(f"correspondence export ({tag}): model dumpModules differs from the real modules.json",
                       {"stream": "export", "tag": tag, "diff": first_diff(model_doc, real_doc), "project": A})
    return ok


def first_diff(a, b, path="$"):
    if type(a) is not type(b):
        return f"{path}: model {short(a)} vs impl {short(b)}"
    if isinstance(a, dict):
        for k in sorted(set(a) | set(b)):
            if k not in a:
                return f"{path}.{k}: missing in model, impl has {short(b[k])}"
            if k not in b:
                return f"{path}.{k}: missing in impl, model has {short(a[k])}"
            d = first_diff(a[k], b[k], f"{path}.{k}")
            if d:
                return d
        return None
    if isinstance(a, list):
        if len(a) != len(b):
            return f"{path}: length model {len(a)} vs impl {len(b)}"
        for i, (x, y) in enumerate(zip(a, b)):
            d = first_diff(x, y, f"{path}[{i}]")
            if d:
                return d
        return None
    return None if a == b else f"{path}: model {short(a)} vs impl {short(b)}"


def short(v):
    s = json.dumps(v, default=str)
    return s if len(s) < 160 else s[:157] + "..."


def export_mismatches(real_doc, A):
    """modules.json lists exactly A's modules with exactly their public entities: every way in which it does
    not, as (why, detail) - detail names module, table, and the entities listed wrongly / not listed."""
    mods = real_doc.get("modules") if isinstance(real_doc, dict) else None
    if not isinstance(mods, list):
        return [("modules.json has no list of modules", None)]
    exp = G.expected_export(A)
    got_names = sorted(m.get("name", "?").lower() for m in mods)
    if got_names != sorted(exp):
        return [(f"modules listed {got_names} but the project's modules are {sorted(exp)}", None)]
    out = []
    for m in mods:
        e = exp[m["name"].lower()]
        for key, k in (("pub_procs", "procs"), ("pub_absints", "absints"), ("pub_types", "types"), ("pub_vars", "vars")):
            d = m.get(key)
            if not isinstance(d, dict):
                out.append((f"module {m['name']}: {key} missing", None))
                continue
            got = sorted(x.lower() for x, v in d.items() if v is not None)
            if got != e[k]:
                low = {x.lower(): v for x, v in d.items() if v is not None}
                ents = sorted({(e["origin"].get(x) or str(low[x].get("name", x)).lower()) if x in low else e["origin"].get(x, x)
                               for x in set(got) ^ set(e[k])})
                out.append((f"module {m['name']}: {key} lists {got} but the public {k} are {e[k]}",
                            {"module": m["name"], "key": key, "got": got, "want": e[k], "entities": ents}))
            for x, v in d.items():
                if v is not None and x.lower() in e[k] and v.get("name", "").lower() != e["origin"].get(x.lower()):
                    out.append((f"module {m['name']}: {key}[{x}] describes {v.get('name')}, expected {e['origin'].get(x.lower())}", None))
    return out


def export_oracle(real_doc, A, display_private=False):
    """first violation of the above (None = holds)"""
    mm = export_mismatches(real_doc, A)
    return mm[0][0] if mm else None


def ctor_statement_names(A) -> set:
    """identifiers that name a derived type *and* its constructor (generic interface of the same name) and whose
    accessibility is given by a PUBLIC / PRIVATE statement that differs from the default of their module"""
    return {t["name"].lower() for m in A["modules"] for t in m["types"]
            if t.get("ctor") and t["acc"] is not None and t["acc"] != m["default"]}


def classify_export(detail, A) -> str | None:
    if detail and detail.get("key") == "pub_procs" and detail["entities"] and \
            set(detail["entities"]) <= ctor_statement_names(A):
        return "C16-constructor-access-statement-ignored"
    return None


def report_export(rep, case, real_doc, A):
    """export_exact: every unexcused mismatch class once"""
    seen = set()
    for why, detail in export_mismatches(real_doc, A):
        fid = classify_export(detail, A)
        if fid in seen:
            continue
        seen.add(fid)
        rep.failing_input(dict(case, oracle="export_exact", why=why, detail=detail), fid)


# --------------------------------------------------------------------------- import stream

B_POOL_SOURCES = [
    # nothing of A is named in any USE statement
    {"b0.f90": "module bp0\n  !! a module of B\n  implicit none\n  integer :: bp0_v\nend module bp0\n"},
    # the first module of A is used: by a module, in a procedure, by a program
    {"b1.f90": "module bp1\n  use amod1\n  implicit none\ncontains\n  subroutine bp1_s()\n    use Amod1, only: nothing_much\n"
               "  end subroutine bp1_s\nend module bp1\n",
     "b1p.f90": "program bp1_main\n  use AMOD1\n  implicit none\nend program bp1_main\n"},
    # other places a USE statement can stand in: an interface body, a submodule, block data, an external procedure
    {"b2.f90": "module bp2\n  implicit none\n  interface\n    subroutine bp2_ext(x)\n      use amod1\n      integer :: x\n"
               "    end subroutine bp2_ext\n    module subroutine bp2_sep()\n    end subroutine bp2_sep\n  end interface\nend module bp2\n",
     "b2s.f90": "submodule (bp2) bp2_sub\n  use zz_unrelated\ncontains\n  module subroutine bp2_sep()\n  end subroutine bp2_sep\n"
                "end submodule bp2_sub\n",
     "b2x.f90": "subroutine bp2_top()\n  use zz_unrelated\nend subroutine bp2_top\n\nblock data bp2_bd\n  integer :: q\n"
                "  common /bp2c/ q\nend block data bp2_bd\n"},
]
_B_POOL: list = []


def init_b_pool(d: Path):
    """B as `load_external_modules` meets it inside `Project.correlate`: real `Project` objects, parsed and not yet
    correlated, of three small projects that differ in what their USE statements name.  The import / multi /
    lookup streams load descriptions into (shallow copies of) these instead of into a stub, so that code which
    looks at B's own entities while loading runs as it does in FORD."""
    ford_mod()
    import ford.fortran_project as fp
    _B_POOL.clear()
    cwd = os.getcwd()
    try:
        for i, files in enumerate(B_POOL_SOURCES):
            pf = e2e.write_project(d / f"P{i}", files, {"project": f"pool{i}"})
            with common.quiet():
                settings = make_settings(pf)
                _B_POOL.append(fp.Project(settings))
    finally:
        os.chdir(cwd)


def fake_project(ext: dict, directory: Path, which: int = 0):
    if _B_POOL:
        import copy
        proj = copy.copy(_B_POOL[which % len(_B_POOL)])
        proj.external = ext
        proj.settings = copy.copy(proj.settings)
        proj.settings.directory = directory
        for ln in LISTS:
            setattr(proj, ln, [])
        return proj
    return types.SimpleNamespace(
        external=ext, settings=types.SimpleNamespace(directory=directory),
        extModules=[], extProcedures=[], extInterfaces=[], extTypes=[], extVariables=[])


LISTS = ["extModules", "extProcedures", "extInterfaces", "extTypes", "extVariables"]


def render_val(v):
    if v is None:
        return "null"
    if v is True:
        return "true"
    if v is False:
        return "false"
    if isinstance(v, int):
        return f"#{v}"
    if isinstance(v, (str, PurePosixPath)):
        return "s:" + str(v)
    if isinstance(v, list):
        return "arr"
    if isinstance(v, dict):
        return "obj"
    return "?" + type(v).__name__


def impl_import(doc, remote: bool, base: str, fetch_exc=None, which: int = 0):
    """Real load_external_modules on a project B (`which` of the pool); the fetch returns `doc` (or raises)."""
    ford = ford_mod()
    import ford.external_project as xp
    from ford.external_project import ENTITIES
    cls2key = {c.__name__: k for k, c in ENTITIES.items()}
    text = json.dumps(doc)
    # local: a path relative to the project directory, resolved by the implementation itself
    url = base if remote else base.lstrip("/")
    proj = fake_project({"a": url}, Path("/"), which)
    o_local, o_url = xp.modules_from_local, xp.urlopen

    def local(u):
        if fetch_exc is not None:
            raise fetch_exc
        return json.loads(text)

    def remote_open(u, *a, **k):
        if fetch_exc is not None:
            raise fetch_exc
        return FakeResponse(text.encode("utf8"))

    xp.modules_from_local, xp.urlopen = local, remote_open
    try:
        with common.quiet():
            xp.load_external_modules(proj)
    except (KeyError, TypeError, AttributeError, OSError, ValueError) as e:
        return ["err", type(e).__name__]
    finally:
        xp.modules_from_local, xp.urlopen = o_local, o_url
    out = {}
    def keys(o):
        return {a: list(getattr(o, a)) for a in REFLECT if isinstance(getattr(o, a, None), dict) and getattr(o, a)}

    for ln in LISTS:
        out[ln] = [[cls2key.get(type(o).__name__, type(o).__name__), render_val(o.name), render_val(o.external_url),
                    "-" if o.parent is None else render_val(o.parent.name), keys(o)] for o in getattr(proj, ln)]
    return ["ok", out]


def impl_index(written: str):
    """real load_external_modules on the URL as written: [ok, remote?, URL fetched, base handed to dict2obj]"""
    ford = ford_mod()
    import ford.external_project as xp
    proj = fake_project({"a": written}, Path("/"))
    seen = {}
    o_url, o_d2o = xp.urlopen, xp.dict2obj

    def remote_open(u, *a, **k):
        seen["fetched"] = str(getattr(u, "full_url", u))
        return FakeResponse(b'[{"name": "m", "external_url": "./module/m.html", "obj": "module"}]')

    def spy(project, extDict, url, parent=None, remote=False):
        seen["base"], seen["remote"] = str(url), bool(remote)

    xp.urlopen, xp.dict2obj = remote_open, spy
    try:
        with common.quiet():
            xp.load_external_modules(proj)
    except Exception as e:  # the model knows no way for this to end the run: reported as a disagreement
        return ["err", type(e).__name__, "-", "-"]
    finally:
        xp.urlopen, xp.dict2obj = o_url, o_d2o
    if not seen.get("remote"):
        return ["ok", "0", "-", "-"]       # a local path (here: one without modules.json, costing only the links)
    return ["ok", "1", seen.get("fetched", "-"), seen.get("base", "-")]


def model_import_result(res):
    if res[0] == "err":
        return ["err", res[1]]
    if res[0] != "ok":
        return ["bad", res]
    out = {ln: [] for ln in LISTS}
    f = res[1:]
    for i in range(0, len(f), 6):
        ln, cls, name, url, parent, dk = f[i:i + 6]
        keys = {}
        for part in dk.split(";"):
            if part:
                a, _, ks = part.partition(":")
                if ks:
                    keys[a] = ks.split(",")
        out.setdefault(ln, []).append([cls, name, url, parent, keys])
    return ["ok", out]


def damage(rng, doc):
    """A structurally damaged copy of a description (still valid JSON)."""
    doc = json.loads(json.dumps(doc))
    nodes = []

    def walk(v):
        if isinstance(v, dict):
            if "name" in v or "obj" in v:
                nodes.append(v)
            for x in v.values():
                walk(x)
        elif isinstance(v, list):
            for x in v:
                walk(x)

    walk(doc)
    kind = rng.choice(["delkey", "delkey", "retype", "proctype", "emptyurl", "top", "item", "objcase", "nourl-slash"])
    if kind == "top" or not nodes:
        return rng.choice([[], {}, [1], None, 5, "text", "has ford-metadata inside", {"ford-metadata": {}},
                           ["ford-metadata"], {"ford-metadata": {}, "modules": 3}, {"modules": doc.get("modules", [])
                                                                                     if isinstance(doc, dict) else []},
                           {"ford-metadata": 1, "modules": "ab"}, [None], [[]], True,
                           {"ford-metadata": {}, "modules": {"x": 1}}]), "top"
    n = rng.choice(nodes)
    if kind == "delkey":
        k = rng.choice(["name", "external_url", "obj", "proctype", "pub_procs", "variables"])
        n.pop(k, None)
        return doc, "delkey:" + k
    if kind == "retype":
        k = rng.choice(["name", "external_url", "obj", "proctype", "functions", "pub_types", "permission"])
        n[k] = rng.choice([None, 0, 3, True, False, [], {}, "", "x", [1], {"a": None}, ["s", ""], {"k": "str"}])
        return doc, "retype:" + k
    if kind == "proctype":
        n["proctype"] = rng.choice(["Module Procedure", "Unknown", "SUBROUTINE", "function", "Interface", "boundprocedure",
                                    "Type", "program"])
        return doc, "proctype"
    if kind == "emptyurl":
        n["external_url"] = rng.choice(["", None, 0, False])
        return doc, "emptyurl"
    if kind == "item":
        for k in ("functions", "subroutines", "types", "variables", "boundprocs"):
            if isinstance(n.get(k), list):
                n[k].insert(rng.randint(0, len(n[k])), rng.choice([None, "", "str", 0, 7, [], {}, [1], True]))
                return doc, "item:" + k
        return doc, "item:none"
    if kind == "objcase":
        n["obj"] = n.get("obj", "x").upper() if isinstance(n.get("obj"), str) else "TYPE"
        n.pop("proctype", None)
        return doc, "objcase"
    n["external_url"] = rng.choice(["noslash.html", "a/b/c.html", "./x/../y.html", "./a//b.html", "./", ".", "./a/./b.html#frag",
                                    "./dir/", "x/"])
    return doc, "url-shape"


def simple_rel_urls(v) -> bool:
    """all external_url values are what get_url produces (dir/file.html[#anchor]) - the class the
    remote (urljoin) model covers"""
    if isinstance(v, dict):
        u = v.get("external_url")
        if "external_url" in v and isinstance(u, str) and u and not re.fullmatch(r"\./[\w~.-]+(/[\w~.-]+)*\.html(#[\w~.-]+)?", u):
            return False
        if "external_url" in v and isinstance(u, str) and u and ("/./" in u or "/../" in u):
            return False
        return all(simple_rel_urls(x) for x in v.values())
    if isinstance(v, list):
        return all(simple_rel_urls(x) for x in v)
    return True


def import_stream(rep, drv, rng, docs, n, stats):
    cases = []
    for k in range(n):
        doc = rng.choice(docs)
        tag = "exported"
        if k % 3 != 0:
            doc, tag = damage(rng, doc)
        remote = rng.random() < 0.4
        if remote and not simple_rel_urls(doc):
            remote = False
        # remote: the URL as written in `external:` - model and implementation both get exactly this text
        base = (rng.choice(REMOTE_BASES + ["http://ex.invalid/deep/er"]) + rng.choice(["", "/"])) if remote else rng.choice(
            ["/abs/A/doc", "/x", "/abs/with space/doc"])
        cases.append((doc, tag, remote, base))
    reqs = [["c16.import", "1" if r else "0", b] + enc_json(d, []) for d, t, r, b in cases]
    got = drv.batch(reqs)
    bad = 0
    for k, ((doc, tag, remote, base), g) in enumerate(zip(cases, got)):
        im = impl_import(doc, remote, base, which=k)
        mo = model_import_result(g)
        # property oracles (from the statement, on the real code alone): what A offers does not depend on what B's
        # own source says - "every public entity of A that B ... names in a [[...]] reference" is every entity A
        # describes -, and every module an exported description lists becomes an external module of B
        if _B_POOL and im[0] == "ok":
            for w in range(1, len(_B_POOL)):
                other = impl_import(doc, remote, base, which=k + w)
                if other != im:
                    lost = other[1] if other[0] != "ok" else "; ".join(
                        f"{ln}: {len(other[1][ln])} entities instead of {len(im[1][ln])}" for ln in LISTS if other[1][ln] != im[1][ln])
                    rep.failing_input({"stream": "import", "tag": tag, "remote": remote, "base": base, "description": doc,
                                       "oracle": "what is loaded from A's description does not depend on B's own source "
                                                 "(every entity A describes can be named in a [[...]] reference)",
                                       "why": f"{lost}", "B_sources": B_POOL_SOURCES[(k + w) % len(_B_POOL)],
                                       "B_sources_compared_with": B_POOL_SOURCES[k % len(_B_POOL)]}, None)
                    break
            if tag == "exported" and isinstance(doc, dict) and isinstance(doc.get("modules"), list):
                want = sorted(str(m_.get("name")) for m_ in doc["modules"])
                have = sorted(x[1][2:] for x in im[1]["extModules"] if x[3] == "-")
                if want != have:
                    rep.failing_input({"stream": "import", "tag": tag, "remote": remote, "base": base, "description": doc,
                                       "oracle": "every module an exported description lists becomes an external module of B",
                                       "why": f"modules listed {want}, external modules of B {have}",
                                       "B_sources": B_POOL_SOURCES[k % len(_B_POOL)]}, None)
        key = f"import:{tag.split(':')[0]}:{('remote' + ('/' if base.endswith('/') else '')) if remote else 'local'}:{im[0]}"
        stats[key] = stats.get(key, 0) + 1
        if im != mo:
            bad += 1
            rep.tie_broken(f"correspondence import ({tag}): model {short(mo)} vs implementation {short(im)}",
                           {"stream": "import", "tag": tag, "remote": remote, "base": base, "doc": doc,
                            "impl": im, "model": mo})
    return len(cases), bad


# --------------------------------------------------------------------------- several external projects

_FAILURES = None


def fetch_failures():
    """name -> maker of a fresh exception of that class (the ways of failing of translate/c16.FETCH_ERRORS)"""
    global _FAILURES
    if _FAILURES is None:
        _FAILURES = _fetch_failures()
    return _FAILURES


def _fetch_failures():
    from translate.c16 import FETCH_ERRORS
    make = {
        "FileNotFoundError": lambda: FileNotFoundError(2, "No such file or directory"),
        "IsADirectoryError": lambda: IsADirectoryError(21, "Is a directory"),
        "PermissionError": lambda: PermissionError(13, "Permission denied"),
        "URLError": lambda: urllib.error.URLError("unreachable"),
        "HTTPError": lambda: urllib.error.HTTPError("http://ex.invalid/modules.json", 404, "Not Found", None, None),
        "TimeoutError": lambda: TimeoutError("timed out"),
        "JSONDecodeError": lambda: json.JSONDecodeError("Expecting value", "", 0),
        "UnicodeDecodeError": lambda: UnicodeDecodeError("utf-8", b"\xff", 0, 1, "invalid start byte"),
    }
    missing = set(FETCH_ERRORS) - set(make)
    if missing:
        raise common.Infra(f"no constructor for the fetch failures {sorted(missing)}")
    for n, c in FETCH_ERRORS.items():
        if type(make[n]()) is not c:
            raise common.Infra(f"constructor of {n} gives {type(make[n]())}")
    return {n: make[n] for n in FETCH_ERRORS}


def impl_loadall(projects, which: int = 0):
    """Real load_external_modules on a project B (`which` of the pool) listing several external projects, in order.
    projects: [{"remote": bool, "base": written URL / absolute directory, "doc": json | None, "exc": name | None}]
    The fetch is replaced: a project's description is served at the place a correct fetch asks for
    (`<dir>/modules.json` resp. `<URL>/modules.json`), anything else is 404 / missing."""
    ford = ford_mod()
    import ford.external_project as xp
    from ford.external_project import ENTITIES
    cls2key = {c.__name__: k for k, c in ENTITIES.items()}
    fails = fetch_failures()
    ext, by_dir, by_url = {}, {}, {}
    for i, p in enumerate(projects):
        ext[f"p{i}"] = p["base"] if p["remote"] else p["base"].lstrip("/")
        if p["remote"]:
            by_url[index_of(p["base"])] = p
        else:
            by_dir[os.path.normpath(p["base"])] = p
    proj = fake_project(ext, Path("/"), which)
    o_local, o_url = xp.modules_from_local, xp.urlopen

    def serve(p):
        if p is None:
            return None
        if p["exc"] is not None:
            raise fails[p["exc"]]()
        return json.dumps(p["doc"])

    def local(u):
        text = serve(by_dir.get(os.path.normpath(str(u))))
        if text is None:
            raise FileNotFoundError(2, "No such file or directory")
        return json.loads(text)

    def remote_open(u, *a, **k):
        u = str(getattr(u, "full_url", u))
        text = serve(by_url.get(u))
        if text is None:
            raise urllib.error.HTTPError(u, 404, "Not Found", None, None)
        return FakeResponse(text.encode("utf8"))

    xp.modules_from_local, xp.urlopen = local, remote_open
    try:
        with common.quiet():
            xp.load_external_modules(proj)
    except Exception as e:  # whatever ends the run
        return ["err", type(e).__name__]
    finally:
        xp.modules_from_local, xp.urlopen = o_local, o_url

    def keys(o):
        return {a: list(getattr(o, a)) for a in REFLECT if isinstance(getattr(o, a, None), dict) and getattr(o, a)}

    out = {}
    for ln in LISTS:
        out[ln] = [[cls2key.get(type(o).__name__, type(o).__name__), render_val(o.name), render_val(o.external_url),
                    "-" if o.parent is None else render_val(o.parent.name), keys(o)] for o in getattr(proj, ln)]
    return ["ok", out]


LOCAL_DIRS = ["/abs/A/doc", "/x", "/abs/with space/doc", "/srv/docs/b", "/y/z.d"]


def multi_stream(rep, drv, rng, docs, n, stats):
    """correspondence of the loop over `project.external`: 1-4 projects, each usable, damaged or failing"""
    fail_names = sorted(fetch_failures())
    cases = []
    for k in range(n):
        count = rng.choice([1, 2, 2, 2, 3, 3, 4])
        locs = rng.sample(LOCAL_DIRS, count)
        rems = rng.sample(REMOTE_BASES + ["http://ex.invalid/deep/er"], count)
        projects, pattern = [], ""
        for i in range(count):
            r = rng.random()
            doc, exc, tag = None, None, "G"
            if r < 0.4:
                exc, tag = rng.choice(fail_names), "F"
            elif r < 0.55:
                (doc, _), tag = damage(rng, rng.choice(docs)), "D"
            else:
                doc = rng.choice(docs)
            remote = rng.random() < 0.4 and (doc is None or simple_rel_urls(doc))
            base = rems[i] + rng.choice(["", "/"]) if remote else locs[i]
            projects.append({"remote": remote, "base": base, "doc": doc, "exc": exc})
            pattern += tag
        cases.append((projects, pattern))
    reqs = []
    for projects, _ in cases:
        r = ["c16.loadall", str(len(projects))]
        for p in projects:
            r += ["1" if p["remote"] else "0", p["base"]]
            r += ["failed", p["exc"]] if p["exc"] is not None else ["got"] + enc_json(p["doc"], [])
        reqs.append(r)
    got = drv.batch(reqs)
    bad = 0
    for k, ((projects, pattern), g) in enumerate(zip(cases, got)):
        im = impl_loadall(projects, which=k)
        mo = model_import_result(g)
        shape = "single" if len(pattern) == 1 else (
            "failing-before-usable" if re.search(r"F.*G", pattern) else
            "failing-after-usable" if re.search(r"G.*F", pattern) else
            "all-failing" if set(pattern) == {"F"} else "no-failing")
        key = f"multi:{shape}:{im[0]}"
        stats[key] = stats.get(key, 0) + 1
        stats[f"multi:projects={len(pattern)}"] = stats.get(f"multi:projects={len(pattern)}", 0) + 1
        if im != mo:
            bad += 1
            rep.tie_broken(f"correspondence multi ({pattern}): model loadAll {short(mo)} vs implementation {short(im)}",
                           {"stream": "multi", "pattern": pattern, "projects": projects, "impl": im, "model": mo})
        # property oracle (from the statement, on the real code alone): when no listed project ends the run on its
        # own, listing them together neither ends the run nor changes what each of them contributes
        if len(projects) > 1:
            singles = [impl_loadall([p], which=k) for p in projects]
            if all(s_[0] == "ok" for s_ in singles):
                want = ["ok", {ln: [x for s_ in singles for x in s_[1][ln]] for ln in LISTS}]
                if im != want:
                    lost = "the run ends with " + im[1] if im[0] != "ok" else "; ".join(
                        f"{ln}: {len(im[1][ln])} entities instead of {len(want[1][ln])}" for ln in LISTS
                        if im[1][ln] != want[1][ln])
                    rep.failing_input({"stream": "multi", "pattern": pattern, "projects": projects,
                                       "oracle": "an external project contributes the same entities whatever else is listed "
                                                 "(an unusable description costs only its own links)",
                                       "why": lost, "together": im, "alone": singles}, None)
    return len(cases), bad


# --------------------------------------------------------------------------- lookup stream

def lookup_stream(rep, drv, rng, n, stats):
    ford = ford_mod()
    import ford.fortran_project as fp
    from ford.sourceform import ExternalModule
    names = ["foo", "Foo", "FOO", "bar", "Bar", "baz", "qux", "fo"]
    reqs, exp = [], []
    for _ in range(n):
        # find_used_modules
        name = rng.choice(names)
        loc = [rng.choice(names) for _ in range(rng.randint(0, 3))]
        ext = [rng.choice(names) for _ in range(rng.randint(0, 3))]
        lobjs = [types.SimpleNamespace(name=x, ext=False) for x in loc]
        eobjs = [ExternalModule(x, "u") for x in ext]
        ent = types.SimpleNamespace(uses=[[name, ""]], routines=[])
        fp.find_used_modules(ent, lobjs, [], eobjs)
        r = ent.uses[0][0]
        reqs.append(["c16.use", name, str(len(loc))] + [f for x in loc for f in (x, "0")] + [str(len(ext))] +
                    [f for x in ext for f in (x, "1")])
        exp.append(["none"] if isinstance(r, str) else ["some", r.name, "1" if isinstance(r, ExternalModule) else "0"])
        # Project.find
        colls = sorted(set(fp.LINK_TYPES.values()))
        # a real Project object without __init__ (no parsing): `find` may call helper methods of the class
        # (collections that are properties of the class are shadowed by plain attributes)
        proj = object.__new__(type("_ProbeProject", (fp.Project,), {
            c: None for c in colls if isinstance(getattr(fp.Project, c, None), property)}))
        req_c = []
        extset = set()
        for c in colls:
            items = [ExternalModule(rng.choice(names), "u") for _ in range(rng.choice([0, 0, 1, 2]))]
            setattr(proj, c, items)
            isext = c.startswith("ext")
            for it in items:
                if isext:
                    extset.add(id(it))
            req_c += [c, str(len(items))] + [f for it in items for f in (it.name, "1" if isext else "0")]
        entity = rng.choice([None, None, "module", "TYPE", "proc", "extproc", "exttype", "Interface", "extinterface",
                             "variable", "nosuch", "file", "ExtModule", "function", "subroutine", "absinterface"])
        name = rng.choice(names)
        try:
            r = fp.Project.find(proj, name, entity)
            e = ["none"] if r is None else ["some", r.name, "1" if id(r) in extset else "0"]
        except ValueError:
            e = ["valueerror"]
        reqs.append(["c16.find", name, entity or "-", str(len(colls))] + req_c)
        exp.append(e)
        stats["find:" + ("qualified" if entity else "unqualified") + ":" + e[0]] = \
            stats.get("find:" + ("qualified" if entity else "unqualified") + ":" + e[0], 0) + 1
        # re-basing
        alpha = ["a", "b", "/", "/", ".", "..", "#x", "-", "c.html", "~2"]
        s = "".join(rng.choice(alpha) for _ in range(rng.randint(1, 7)))
        rel = s.split("/", 1)[-1]
        if rel.startswith("//") and not rel.startswith("///"):
            s = "./a" + s
            rel = s.split("/", 1)[-1]
        base = rng.choice(["/abs/A/doc", "/x", "/"])
        reqs.append(["c16.rebase", "0", base, s])
        exp.append(["ok", str(PurePosixPath(base) / rel)])
        # remote, simple relative references as get_url produces them
        u = "./" + rng.choice(["module", "proc", "type", "interface"]) + "/" + rng.choice(["amod", "a~2", "x_y"]) + ".html" + \
            rng.choice(["", "#variable-v", "#boundprocedure-b"])
        rb = rng.choice([REMOTE + "/", "https://h.example/docs/v1/"])
        reqs.append(["c16.rebase", "1", rb, u])
        exp.append(["ok", urljoin(rb, u.split("/", 1)[-1])])
        # urljoin itself, on bases as they are (no normalisation): host only, path with / without trailing slash
        ub = rng.choice(["http://", "https://"]) + rng.choice(["h.example", "ex.invalid:8080", "a-b.c"]) + \
            "".join("/" + rng.choice(["docs", "v1", "~u", "a.b", "x_y"]) for _ in range(rng.randint(0, 3))) + rng.choice(["", "/"])
        reqs.append(["c16.rebase", "2", ub, u])
        exp.append(["ok", urljoin(ub, u.split("/", 1)[-1])])
        # what load_external_modules makes of the URL as written: remote?, the URL fetched, the base for dict2obj
        if rng.random() < 0.1:
            # near misses of `re.match("https?://", url)`: these are local paths for load_external_modules
            ub = rng.choice(["HTTP://ex.invalid/a", "ftp://ex.invalid/a", "httpss://ex.invalid", "http:/ex.invalid/a",
                             "//ex.invalid/a", "ahttp://ex.invalid/a", "Https://ex.invalid/a/"])
        reqs.append(["c16.index", ub])
        exp.append(impl_index(ub))
        stats["index:" + exp[-1][1]] = stats.get("index:" + exp[-1][1], 0) + 1
    got = drv.batch(reqs)
    bad = 0
    for r, e, g in zip(reqs, exp, got):
        if e != g:
            bad += 1
            rep.tie_broken(f"correspondence lookup/{r[0]}: model {g} vs implementation {e} on {r[1:8]!r}",
                           {"stream": "lookup", "request": r, "impl": e, "model": g})
    return len(reqs), bad


# --------------------------------------------------------------------------- graph nodes (round 4)

class _OwnEntity:
    """an entity of B itself, as far as `BaseNode.__init__` looks at it"""

    def __init__(self, name, url, visible):
        self.name, self._url, self.visible, self.ident = name, url, visible, name.lower()

    def get_dir(self):
        return self._url.split("/")[0] if self._url and "/" in self._url else None

    def get_url(self):
        return self._url


NODE_PARENT_DIRS = ["../", "../", "", "../../", "https://b.invalid/docs/"]
NODE_LOCAL_BASES = ["/abs/A/doc", "/x", "/srv/docs/a.b", "/abs/with space/doc", "/home/u/http/doc", "/C:/a"]
NODE_RELS = ["module/amod1.html", "type/atyp2.html", "proc/afun3.html", "interface/agen4.html",
             "type/atyp2.html#boundprocedure-abnd5", "module/amod1.html#variable-avar6", "proc/a~2.html"]
NODE_ODD_URLS = ["ftp://ex.invalid/a/module/m.html", "file:///abs/A/doc/module/m.html", "//ex.invalid/a/m.html",
                 "A/doc/module/m.html", "mailto:x", "c:/docs/a/module/m.html", "1a:b/m.html", "module/m.html", "a+b.c-d:e"]


def node_stream(rep, drv, rng, n, stats):
    """`graphs.BaseNode` (through `GraphData.get_node`, as the graphs make their nodes) vs the model's `nodeUrl`:
    the link a graph node gets, for entities imported from an external project (every class of ENTITIES; local
    paths - `pathlib.Path`, as `dict2obj` makes them - and remote URLs; falsy URLs; names that are empty or written
    like a link) and for entities of the project itself, under several `parent_dir`.
    Property oracles (from the statement, on the real code alone): the node of an imported entity is linked to
    exactly the URL it was imported with; `relative_url` (the template filter every textual link passes) turns
    the link to an imported entity into one that, followed from the page, arrives at that same URL."""
    ford_mod()
    import ford.graphs as gr
    import ford.sourceform as sf
    import ford.output as fo
    from ford.external_project import ENTITIES
    classes = sorted({c.__name__ for c in ENTITIES.values()})
    cases, reqs = [], []
    for k in range(n):
        pd = rng.choice(NODE_PARENT_DIRS)
        name = rng.choice(["amod1", "Atyp2", "afun3", "AGEN4", "abnd5", "x_y", "a"])
        r = rng.random()
        if r < 0.7:
            cls = rng.choice(classes)
            q = rng.random()
            if q < 0.45:
                url = Path(rng.choice(NODE_LOCAL_BASES)) / rng.choice(NODE_RELS)
                shape = "local"
            elif q < 0.75:
                url = urljoin(rng.choice(REMOTE_BASES) + "/", rng.choice(NODE_RELS))
                shape = "remote"
            elif q < 0.87:
                url = rng.choice(["", None, 0, False])
                shape = "falsy"
                if rng.random() < 0.3:
                    name, shape = rng.choice(["<a href='x'>y</a>", "<a href='/abs/q.html'>amod1</a>"]), "falsy:name-is-a-link"
            else:
                url = rng.choice(NODE_ODD_URLS)
                shape = "odd"
            if url and rng.random() < 0.05:
                name, shape = "", shape + ":unnamed"
            case = {"kind": "external", "class": cls, "name": name, "url": None if not url else str(url),
                    "url_type": type(url).__name__, "parent_dir": pd, "shape": shape}
            obj = getattr(sf, cls)(name, url)
            req = ["c16.node", "=" + pd, "1", cls, "=" + name, "+" + str(url) if url else "-", "1"]
        else:
            url = rng.choice(NODE_RELS + [None])
            vis = rng.random() < 0.8
            case = {"kind": "own", "class": "FortranModule", "name": name, "url": url, "parent_dir": pd, "visible": vis,
                    "shape": "own"}
            obj = _OwnEntity(name, url, vis)
            req = ["c16.node", "=" + pd, "0", "FortranModule", "=" + name, "+" + url if url else "-", "1" if vis else "0"]
        gd = gr.GraphData(pd, False, False)
        try:
            if case["kind"] == "external" and case["class"] != "ExternalVariable":
                node = gd.get_node(obj)
            else:
                node = gr.BaseNode(obj, gd)       # (a variable is never a node: the branch for objects not turned into strings)
            u = node.attribs.get("URL")
            got = ["none"] if u is None else ["some", str(u)]
        except Exception as e:
            got = ["err", type(e).__name__]
        case["impl"] = got
        cases.append(case)
        reqs.append(req)
        key = f"node:{case['shape']}:{got[0]}"
        stats[key] = stats.get(key, 0) + 1
        # ---- property oracles
        # (judged for the classes the graphs make nodes of; a variable is only fed to `BaseNode` for the correspondence)
        if case["kind"] == "external" and case["url"] and not case["shape"].endswith("unnamed") \
                and case["class"] != "ExternalVariable":
            if got != ["some", case["url"]]:
                rep.failing_input(dict(case, stream="node", oracle="the graph node of an entity imported from an external "
                                       "project is linked to the URL the entity was imported with",
                                       why=f"node link {got} instead of {case['url']}"), None)
            if case["shape"] in ("local", "remote"):
                page = Path("/out/B/doc") / rng.choice(["module/bmod.html", "index.html", "page/sub/dir/p.html", "proc/b.html"])
                try:
                    txt = str(fo.relative_url(obj, page))
                    m = re.search(r"href='([^']*)'", txt)
                    href = m.group(1) if m else None
                except Exception as e:
                    href = f"<{type(e).__name__}>"
                want = case["url"]
                arrives = href if (href or "").startswith("http") else \
                    os.path.normpath(os.path.join(str(page.parent), href)) if href and not href.startswith("<") else href
                stats["relurl:" + case["shape"]] = stats.get("relurl:" + case["shape"], 0) + 1
                if arrives != (want if case["shape"] == "remote" else os.path.normpath(want)):
                    rep.failing_input(dict(case, stream="node", page=str(page), href=href,
                                           oracle="a textual link to an imported entity, made relative to the page by the "
                                                  "`relurl` filter, still leads to the entity's URL",
                                           why=f"followed from {page} it arrives at {arrives}"), None)
    got = drv.batch(reqs)
    bad = 0
    for case, r, g in zip(cases, reqs, got):
        if g != case["impl"]:
            bad += 1
            rep.tie_broken(f"correspondence node: model nodeUrl {g} vs graphs.BaseNode {case['impl']} on {short(case)}",
                           dict(case, stream="node", request=r, model=g))
    return len(cases), bad


# --------------------------------------------------------------------------- USE association through B's own modules (round 5)

ASSOC_TABLES = ("pub_procs", "pub_absints", "pub_types", "pub_vars")
ASSOC_ALL = ("all_procs", "all_absinterfaces", "all_types", "all_vars")


def gen_chain(rng, doc):
    """Modules of B that use modules of the external project described by `doc` - directly, or through other
    modules of B that pass the names on (public by default / listed in a PUBLIC statement; whole, ONLY lists,
    renames) - plus, per module, what Fortran's rules make accessible there: local name -> (module of A,
    table, key) of the entity it denotes.  Valid Fortran throughout."""
    mods = doc["modules"] if isinstance(doc, dict) else doc
    offers = {}                 # module name (lower) -> {local name: origin}
    ext_names = []
    for md in mods:
        o = {}
        for tb in ASSOC_TABLES:
            for key, v in (md.get(tb) or {}).items():
                if v:
                    o[key.lower()] = (md["name"], tb, key)
        offers[md["name"].lower()] = o
        ext_names.append(md["name"])
    chain, sees = [], {}
    n = rng.randint(2, 4)
    shadow = rng.random() < 0.15 and ext_names       # a module of B named like one of A's: B's own wins the USE
    for i in range(n):
        name = f"bq{i + 1}"
        if shadow and i == 0:
            name = rng.choice(ext_names).upper() if rng.random() < 0.5 else rng.choice(ext_names).lower()
        m = {"name": name, "default": rng.choice(["public", "public", "private"]), "uses": [], "public_list": [],
             "own": {"type": f"t_bq{i + 1}", "var": f"v_bq{i + 1}", "sub": f"s_bq{i + 1}"}}
        targets = [e for e in ext_names if e.lower() not in {c["name"].lower() for c in chain} | {name.lower()}]
        prev = [c["name"] for c in chain]
        acc = {}
        picks = []
        for _ in range(rng.randint(1, 2)):
            r = rng.random()
            if prev and r < 0.55:
                picks.append(rng.choice(prev[-2:]))
            elif targets:
                picks.append(rng.choice(targets))
        if rng.random() < 0.07:
            picks.append("nosuchmod")
        for t in dict.fromkeys(picks):
            off = offers.get(t.lower(), {})
            names = sorted(off)
            form = rng.random()
            if not names or form < 0.5:
                m["uses"].append({"mod": t, "form": "all", "items": []})
                acc.update(off)
            elif form < 0.8:
                items = []
                for o_ in rng.sample(names, rng.randint(1, min(4, len(names)))):
                    loc = f"r{i + 1}_{o_}" if rng.random() < 0.4 else o_
                    items.append((loc, o_))
                m["uses"].append({"mod": t, "form": "only", "items": items})
                acc.update({loc.lower(): off[o_] for loc, o_ in items})
            else:
                items = [(f"r{i + 1}_{o_}", o_) for o_ in rng.sample(names, rng.randint(1, min(2, len(names))))]
                m["uses"].append({"mod": t, "form": "renaming", "items": items})
                ren = {o_: loc for loc, o_ in items}
                acc.update({ren.get(k_, k_).lower(): v for k_, v in off.items()})
        if m["default"] == "private":
            cand = sorted(acc) + list(m["own"].values())
            m["public_list"] = [c for c in cand if rng.random() < 0.6]
        passes = {k_: v for k_, v in acc.items() if m["default"] == "public" or k_ in m["public_list"]}
        offers[name.lower()] = passes      # (B's own public entities are of no interest to later modules here)
        sees[name] = acc
        chain.append(m)
    return chain, sees


def render_chain(chain) -> dict:
    files = {}
    for m in chain:
        L = [f"module {m['name']}", f"  !! chain module {m['name']}"]
        for u in m["uses"]:
            if u["form"] == "all":
                L.append(f"  use {u['mod']}")
            else:
                items = ", ".join(loc if loc == o_ else f"{loc} => {o_}" for loc, o_ in u["items"])
                L.append(f"  use {u['mod']}, " + ("only: " if u["form"] == "only" else "") + items)
        L.append("  implicit none")
        if m["default"] == "private":
            L.append("  private")
            if m["public_list"]:
                L.append("  public :: " + ", ".join(m["public_list"]))
        o = m["own"]
        L += [f"  type :: {o['type']}", "    integer :: filler", f"  end type {o['type']}", f"  integer :: {o['var']}",
              "contains", f"  subroutine {o['sub']}()", f"  end subroutine {o['sub']}", f"end module {m['name']}"]
        files[f"{m['name'].lower()}_q.f90"] = "\n".join(L) + "\n"
    return files


def assoc_stream(rep, drv, rng, d: Path, docs, n, stats):
    """`FortranCodeUnit.correlate` on modules of B that get entities of A by USE association, directly or through
    other modules of B, vs the model's `correlateAll`: per module of B and per table (`pub_*`: what it passes
    on; `all_*`: what its declarations are resolved against) the imported entries - key, class, name, URL - in
    the table's order.  The description is loaded by the real `load_external_modules` inside the real
    `Project.correlate`; B is built with several option sets (`externalize` among them).
    Property oracle (Fortran's rules of accessibility, computed by the generator): every entity of A that is
    accessible in a module of B is known there as the entity A's description lists (name, URL below A's location)."""
    ford = ford_mod()
    import ford.external_project as xp
    import ford.fortran_project as fp
    from ford.external_project import ENTITIES
    cls2key = {c.__name__: k for k, c in ENTITIES.items()}
    usable = [doc for doc in docs if isinstance(doc, dict) and doc.get("modules")
              and any(md.get(tb) for md in doc["modules"] for tb in ASSOC_TABLES)]
    if not usable:
        return 0, 0
    base = "/abs/A/doc"
    cases, reqs = [], []
    for k in range(n):
        doc = rng.choice(usable)
        chain, sees = gen_chain(rng, doc)
        files = render_chain(chain)
        b_opts = dict(B_OPTION_SETS[k % len(B_OPTION_SETS)])
        shutil.rmtree(d / "Q", ignore_errors=True)
        pf = e2e.write_project(d / "Q", files, dict({"project": "projQ", "external": f"a = {base}"}, **b_opts))
        case = {"stream": "assoc", "index": k, "files": files, "b_options": b_opts, "description": doc, "chain": chain}
        o_local = xp.modules_from_local
        xp.modules_from_local = lambda u, _t=json.dumps(doc): json.loads(_t)
        cwd = os.getcwd()
        try:
            with common.quiet():
                settings = make_settings(pf)
                project = fp.Project(settings)
                by_name = {m.name.lower(): m for m in project.modules}
                before = {}
                for cm in chain:
                    mo = by_name[cm["name"].lower()]
                    before[cm["name"]] = (
                        mo.permission == "public", [str(x) for x in mo.public_list],
                        [list(getattr(mo, tb)) for tb in ASSOC_TABLES],
                        [list(mo.all_procs), [x.name.lower() for x in mo.absinterfaces], [x.name.lower() for x in mo.types],
                         [x.name.lower() for x in mo.variables]])
                project.correlate()
            got = []
            for cm in chain:
                mo = by_name[cm["name"].lower()]
                row = [mo.name]
                for tb in ASSOC_TABLES + ASSOC_ALL:
                    ent = [(key, o) for key, o in getattr(mo, tb).items() if hasattr(o, "external_url")]
                    row.append(str(len(ent)))
                    for key, o in ent:
                        row += [key, cls2key.get(type(o).__name__, type(o).__name__), render_val(o.name), render_val(o.external_url)]
                got += row
            impl = ["ok"] + got
        except Exception as e:
            impl = ["err", type(e).__name__]
            rep.failing_input(dict(case, oracle="B's modules are correlated", why=f"{type(e).__name__}: {e}"), None)
            continue
        finally:
            xp.modules_from_local = o_local
            os.chdir(cwd)
        req = ["c16.assoc", "0", base] + enc_json(doc, []) + [str(len(chain))]
        for cm in chain:
            pub, plist, own_pub, own_all = before[cm["name"]]
            req += [cm["name"], "1" if pub else "0", str(len(plist))] + plist
            for tbl in own_pub + own_all:
                req += [str(len(tbl))] + tbl
            req.append(str(len(cm["uses"])))
            for u in cm["uses"]:
                req.append(u["mod"])
                if u["form"] == "all":
                    req.append("A")
                else:
                    req.append(("O" if u["form"] == "only" else "R") + str(len(u["items"])))
                    for loc, o_ in u["items"]:
                        req += [loc, o_]
        cases.append((case, impl))
        reqs.append(req)
        depth = max((1 for cm in chain[1:] for u in cm["uses"] if u["mod"] in [c["name"] for c in chain]), default=0)
        stats[f"assoc:{'through-B' if depth else 'direct-only'}:externalize={b_opts.get('externalize', 'false')}"] = \
            stats.get(f"assoc:{'through-B' if depth else 'direct-only'}:externalize={b_opts.get('externalize', 'false')}", 0) + 1
        for cm in chain:
            for u in cm["uses"]:
                stats["assoc:use:" + u["form"]] = stats.get("assoc:use:" + u["form"], 0) + 1
            stats["assoc:module:" + cm["default"]] = stats.get("assoc:module:" + cm["default"], 0) + 1
        # ---- property oracle
        mods_by_name = {md["name"].lower(): md for md in doc["modules"]}
        for cm in chain:
            mo = by_name[cm["name"].lower()]
            missing = []
            for loc, (amod, tb, key) in sorted(sees[cm["name"]].items()):
                desc = mods_by_name[amod.lower()][tb][key]
                tbl = getattr(mo, ASSOC_ALL[ASSOC_TABLES.index(tb)])
                o = tbl.get(loc)
                want_url = str(PurePosixPath(base) / desc["external_url"].split("/", 1)[-1])
                if o is None or not hasattr(o, "external_url") or str(o.name) != desc["name"] or str(o.external_url) != want_url:
                    missing.append({"local_name": loc, "entity_of_A": desc["name"], "module_of_A": amod, "table": tb,
                                    "found": None if o is None else [type(o).__name__, str(getattr(o, "name", None)),
                                                                     str(getattr(o, "external_url", None))]})
            stats["assoc:accessible-entities"] = stats.get("assoc:accessible-entities", 0) + len(sees[cm["name"]])
            if missing:
                rep.failing_input(dict(case, oracle="an entity of A that is accessible in a module of B by USE association - "
                                       "directly or through other modules of B - is known there as A's entity",
                                       module=cm["name"], why=f"{len(missing)} accessible name(s) of A not resolved to A's entity "
                                       f"in module {cm['name']}", missing=missing[:6]), None)
                break
    got = drv.batch(reqs)
    bad = 0
    for (case, impl), r, g in zip(cases, reqs, got):
        if g != impl:
            bad += 1
            i = next((j for j, (x, y) in enumerate(zip(g, impl)) if x != y), min(len(g), len(impl)))
            rep.tie_broken(f"correspondence assoc: model correlateAll differs from FortranCodeUnit.correlate at field {i}: "
                           f"model {g[max(0, i - 3):i + 5]} vs implementation {impl[max(0, i - 3):i + 5]}",
                           dict(case, model=g, impl=impl))
    return len(cases), bad


# --------------------------------------------------------------------------- HTML observation

class PageScan(HTMLParser):
    def __init__(self):
        super().__init__(convert_charrefs=True)
        self.links = []    # (href, text)
        self.svg = set()   # those of them that are nodes of a graph (<a xlink:href=...> inside an inline SVG)
        self.ids = set()
        self._open = []

    def handle_starttag(self, tag, attrs):
        d = dict(attrs)
        if "id" in d and d["id"]:
            self.ids.add(d["id"])
        if tag == "a" and d.get("name"):
            self.ids.add(d["name"])
        if tag == "a" and d.get("href") is not None:
            self._open.append([d["href"], [], False])
        elif tag == "a" and d.get("xlink:href") is not None:
            self._open.append([d["xlink:href"], [], True])

    def handle_data(self, data):
        for o in self._open:
            o[1].append(data)

    def handle_endtag(self, tag):
        if tag == "a" and self._open:
            href, parts, svg = self._open.pop()
            text = "".join(parts).strip()
            if svg:
                # the label of a procedure node is `[parent::][type%]name`: the entity named is the last part
                text = text.rsplit("::", 1)[-1].rsplit("%", 1)[-1].strip()
            self.links.append((href, text))
            if svg:
                self.svg.add(self.links[-1])


_scan_cache: dict = {}
_svg_cache: dict = {}


def scan(path: Path):
    key = (str(path), path.stat().st_mtime_ns)
    if key not in _scan_cache:
        p = PageScan()
        text = path.read_text(encoding="utf-8", errors="replace")
        p.feed(text)
        _scan_cache[key] = (p.links, p.ids, text)
        _svg_cache[key] = p.svg
    return _scan_cache[key]


def svg_links(path: Path) -> set:
    """the (href, label) pairs of the page that are nodes of a graph"""
    scan(path)
    return _svg_cache[(str(path), path.stat().st_mtime_ns)]


KIND_DIR = {"module": "module", "type": "type", "func": "proc", "sub": "proc", "generic": "interface",
            "absint": "interface", "var": "module", "comp": "type", "bound": "type"}
KIND_ANCHOR = {"var": "variable-", "comp": "variable-", "bound": "boundprocedure-"}


def a_homes(A, adoc: Path):
    """tracer -> (kind, lower name, set of pages of A's output that document the entity)"""
    pages = {}
    for d in ("module", "type", "proc", "interface", "program"):
        for p in sorted((adoc / d).glob("*.html")) if (adoc / d).is_dir() else []:
            pages[p] = p.read_text(encoding="utf-8", errors="replace")
    homes = {}
    for kind, m, e, pub in G.a_entities(A):
        want = KIND_DIR[kind]
        hs = {p for p, t in pages.items() if p.parent.name == want and e["tracer"] in t}
        homes[e["tracer"]] = (kind, e["name"].lower(), hs, pub)
    return homes


def resolve_href(href: str, page: Path, bdoc: Path, adoc: Path, remote_base: str | None):
    """-> ('internal'|'outward'|'other', file, fragment)"""
    if href.startswith(("mailto:", "javascript:")):
        return "other", None, None
    frag = None
    if "#" in href:
        href, frag = href.split("#", 1)
    if re.match(r"https?://", href):
        if remote_base and href.startswith(remote_base.rstrip("/") + "/"):
            rel = href[len(remote_base.rstrip("/")) + 1:]
            return "outward", (adoc / rel), frag
        if remote_base and urlsplit(href).hostname == urlsplit(remote_base).hostname:
            # on the site of A but not below the URL A's documentation is published at: a link into A
            # that hits nothing of A's output
            return "outward", adoc / "__not_below_the_external_url__" / urlsplit(href).path.lstrip("/"), frag
        return "other", None, None
    if href == "":
        return "internal", page, frag
    f = Path(os.path.normpath(href if href.startswith("/") else page.parent / href))
    if bdoc in f.parents or f == bdoc:
        return "internal", f, frag
    if adoc in f.parents or f == adoc:
        return "outward", f, frag
    return "other", f, frag


def ex_texts(ex) -> set:
    return {ex["text"].lower()} | ({ex["alt"].lower()} if ex.get("alt") else set())


def satisfies(hit, ex, homes) -> bool:
    """the link `hit` leads to the entity the expectation `ex` refers to (page carrying its tracer, in the
    directory of its kind, and - for entities documented inside a page - an anchor of its kind)"""
    href, text_, cls, f, frag = hit
    side, tracer = ex["target"]
    if side == "A":
        kind, lname, hs, pub = homes[tracer]
        if cls != "outward" or f not in hs:
            return False
        pre = KIND_ANCHOR.get(kind)
        return pre is None or (frag or "").startswith(pre)
    return cls == "internal" and f is not None and f.is_file() and tracer in scan(f)[2]


def b_names(B) -> set:
    """every identifier B declares itself (lower case)"""
    out = set()
    for m in B["modules"]:
        out.add(m["name"].lower())
        for t in m["types"]:
            out.add(t["name"].lower())
            out |= {c["name"].lower() for c in t.get("comps", [])}
        for s_ in m["subs"]:
            out.add(s_["name"].lower())
            out |= {a["name"].lower() for a in s_.get("args", [])}
        out |= {v["name"].lower() for v in m["vars"]}
        out |= {i_["name"].lower() for i_ in m.get("ifaces", [])}
    if B.get("program"):
        out.add(B["program"]["name"].lower())
    return out


def check_links(B, A, bdoc: Path, adoc: Path, remote_base, homes, stats, graphs: bool = False):
    """Property oracle on B's output.  Returns a list of failure dicts.
    Links are the <a href> of the pages *and* the nodes of the graphs drawn on them (<a xlink:href> of the inline
    SVG: used modules, called procedures, extended types, types of components)."""
    fails = []
    by_name = {}
    for tr, (kind, lname, hs, pub) in homes.items():
        by_name.setdefault(lname, []).append((kind, hs, tr))
    own = b_names(B)
    n_out = 0
    page_links = {}
    reported = set()      # (page, href, text) of outward links already found faulty by the per-link oracle
    for page in sorted(bdoc.rglob("*.html")):
        links, ids, text = scan(page)
        nodes = svg_links(page)
        res = []
        for href, text_ in links:
            cls, f, frag = resolve_href(href, page, bdoc, adoc, remote_base)
            res.append((href, text_, cls, f, frag))
            if cls != "outward":
                # a link that carries the name of an entity of A - and of nothing B declares - is a link into A:
                # when it leads to a file that exists neither in A's nor in B's output it is a dead link into A
                if f is not None and text_.lower() in by_name and text_.lower() not in own and not f.exists():
                    fails.append({"oracle": "a link named after an entity of A leads into A's documentation",
                                  "page": str(page.relative_to(bdoc)), "href": href, "text": text_,
                                  "graph_node": (href, text_) in nodes, "resolves_to": str(f)})
                    reported.add((page, href, text_))
                continue
            n_out += 1
            if (href, text_) in nodes:
                stats["outward-links:graph-nodes"] = stats.get("outward-links:graph-nodes", 0) + 1
            rel = str(page.relative_to(bdoc))
            if not f.is_file():
                fails.append({"oracle": "outward link target exists", "page": rel, "href": href, "text": text_,
                              "outside_external_url": "__not_below_the_external_url__" in f.parts})
                reported.add((page, href, text_))
                continue
            if frag is not None:
                _, tids, _ = scan(f)
                if frag not in tids:
                    fails.append({"oracle": "outward link anchor exists", "page": rel, "href": href, "text": text_})
                    reported.add((page, href, text_))
                    continue
            cands = by_name.get(text_.lower(), [])
            if not any(f in hs and (KIND_ANCHOR.get(kind) is None or (frag or "").startswith(KIND_ANCHOR[kind]))
                       for kind, hs, tr in cands):
                fails.append({"oracle": "outward link leads to a page documenting the entity it names",
                              "page": rel, "href": href, "text": text_,
                              "known_entities_with_that_name": [(k, sorted(str(h.relative_to(adoc)) for h in hs)) for k, hs, _ in cands]})
                reported.add((page, href, text_))
        page_links[page] = res
    stats["outward-links"] = stats.get("outward-links", 0) + n_out
    # expected references
    for ex in B["expect"]:
        if ex.get("graph") and not graphs:
            continue          # a reference that is visible in a graph only, and B was built without graphs
        d, name = ex["page"]
        page = bdoc / d / f"{name.lower()}.html"
        if not page.is_file():
            fails.append({"oracle": "B documents its own entity", "page": f"{d}/{name.lower()}.html", "expect": ex})
            continue
        texts = ex_texts(ex)
        hits = [r for r in page_links.get(page, []) if r[1].lower() in texts]
        side, tracer = ex["target"]
        stats["ref:" + ex["why"]] = stats.get("ref:" + ex["why"], 0) + 1
        if ex.get("graph"):
            nodes = svg_links(page)
            if not any((h[0], h[1]) in nodes for h in hits):
                fails.append({"oracle": "reference is linked", "page": str(page.relative_to(bdoc)), "expect": ex,
                              "why": "no node of a graph on the page carries that name and a link"})
                continue
        if not hits:
            fails.append({"oracle": "reference is linked", "page": str(page.relative_to(bdoc)), "expect": ex})
            continue
        # an identifier may name several entities (type + constructor, component + module function ...):
        # the links with that text on the page are judged against all the references made with it there -
        # every one of them must lead to one of the entities referred to, and this entity must be reached
        same = [e2 for e2 in B["expect"] if e2["page"] == ex["page"] and ex_texts(e2) & texts]

        def names_another(h):
            """the page may, besides the references the generator made, show other links with that text (an
            inherited binding in a type summary ...): for a reference to A they may lead to any entity of A with
            that identifier - when A has several - as long as it is the page (and anchor kind) documenting it"""
            cands = by_name.get(h[1].lower(), [])
            return side == "A" and len(cands) > 1 and h[2] == "outward" and any(
                h[3] in hs_ and (KIND_ANCHOR.get(kind_) is None or (h[4] or "").startswith(KIND_ANCHOR[kind_]))
                for kind_, hs_, tr_ in cands)

        # (a link into A that the per-link oracle above already reported - missing page / anchor, wrong page - is
        # not reported a second time under this reference, unless the reference reaches its entity through no link)
        bad = [h for h in hits if not any(satisfies(h, e2, homes) for e2 in same) and not names_another(h)
               and not (side == "A" and (page, h[0], h[1]) in reported)]
        if not bad and any(satisfies(h, ex, homes) for h in hits):
            continue
        href, text_, cls, f, frag = (bad or hits)[0]
        if side == "A":
            hs = homes[tracer][2]
            private_pages = {p_ for t_ in texts for kind_, hs_, tr_ in by_name.get(t_, []) if not homes[tr_][3] for p_ in hs_}
            fails.append({"oracle": "reference to an entity of A is linked to A's page for it",
                          "page": str(page.relative_to(bdoc)), "href": href, "expect": ex,
                          "links_with_that_text": sorted({h[0] for h in hits}),
                          "links_lead_to_private_entity_of_A": bool(hits) and all(h[3] in private_pages for h in hits),
                          "pages_documenting_it": sorted(str(h.relative_to(adoc)) for h in hs)})
        else:
            fails.append({"oracle": "a name B defines itself is linked to B's own entity",
                          "page": str(page.relative_to(bdoc)), "href": href, "expect": ex,
                          "went": cls})
    return fails, n_out


# --------------------------------------------------------------------------- classification

def b_extends_type_of_a_with_bindings(case) -> bool:
    """some derived type of B extends a type of A that has type-bound procedures (its own or inherited ones)"""
    A, B = case.get("A"), case.get("B")
    if not A or not B:
        return False
    own = {t["name"].lower() for m in B["modules"] for t in m["types"]}
    for bm in B["modules"]:
        for t in bm["types"]:
            ext = (t.get("extends") or "").lower()
            if not ext or ext in own:
                continue
            for am in A["modules"]:
                ent = G.origin(A, am["name"]).get(ext)
                at = next((x for m_ in A["modules"] for x in m_["types"] if x["name"].lower() == ent), None) if ent else None
                seen = set()
                while at is not None and id(at) not in seen:
                    seen.add(id(at))
                    if at["bound"]:
                        return True
                    up = (at.get("extends") or "").lower()
                    at = next((x for m_ in A["modules"] for x in m_["types"] if up and x["name"].lower() == up), None)
    return False


def classify_abort(case) -> str | None:
    exc = case.get("exc") or ""
    mode = case.get("mode")
    bad = case.get("description")
    if bad is None and exc.startswith("AttributeError: 'ExternalBoundProcedure' object has no attribute 'proctype'") \
            and str((case.get("b_options") or {}).get("sort", "")).lower() in ("type", "type-alpha") \
            and "sort_components" in (case.get("trace") or "") and b_extends_type_of_a_with_bindings(case):
        return "C16-sort-by-type-inherited-external-binding-aborts"
    if bad in ("missing", "isdir") and mode != "remote" and exc.startswith(("FileNotFoundError", "IsADirectoryError", "NotADirectoryError")):
        return "C16-missing-description-aborts"
    if bad == "notutf8" and exc.startswith("UnicodeDecodeError"):
        return "C16-undecodable-description-aborts"
    if bad == "wrongshape" and exc.startswith(("KeyError", "TypeError", "AttributeError")):
        return "C16-wrong-shape-description-aborts"
    if bad is None and mode == "local-abs" and exc.startswith("TypeError: unsupported operand type(s) for /"):
        return "C16-absolute-path-aborts"
    if bad is None and mode in ("local", "local-abs") and case.get("has_ford_links") and \
            exc.startswith("AttributeError: 'PosixPath' object has no attribute 'startswith'"):
        return "C16-ford-link-to-local-external-crashes"
    return None


def undisplayed_parent_member(A, a_opts, url_file: str, name: str) -> bool:
    """`name` is a component / binding of a type of A that is not displayed (private, and `display`
    does not include private) and `url_file` is that type's page"""
    disp = a_opts.get("display", [])
    if "private" in (disp if isinstance(disp, list) else [disp]):
        return False
    stem = Path(url_file).stem.lower()
    for m in A["modules"]:
        for t in m["types"]:
            if t["name"].lower() == stem and not G.is_public(m, t) and Path(url_file).parent.name == "type":
                if name.lower() in {c["name"].lower() for c in t["comps"]} | {b["name"].lower() for b in t["bound"]}:
                    return True
    return False


def classify_link(fail, A=None, a_opts=None) -> str | None:
    if A is not None and fail.get("oracle") == "outward link target exists" and not fail.get("outside_external_url"):
        f = fail.get("href", "").split("#")[0]
        if undisplayed_parent_member(A, a_opts or {}, "type/" + Path(f).name if "/type/" in f else f, fail.get("text", "")):
            return "C16-inherited-member-url-of-undisplayed-parent"
    ex = fail.get("expect") or {}
    if A is not None and fail.get("oracle") == "reference to an entity of A is linked to A's page for it" \
            and ex.get("ford_link") and str(ex.get("why", "")).startswith("link to procedure"):
        # an unqualified [[name]] to a module procedure: every link with that text leads to the page of a type T of A
        # and there to the anchor of T's type-bound procedure with the same identifier
        name = ex["text"].lower()
        pat = re.compile(r"(?:^|/)type/([^/#]+)\.html#boundprocedure-" + re.escape(name) + r"$", re.IGNORECASE)
        binders = {t["name"].lower() for m_ in A["modules"] for t in m_["types"]
                   if any(b["name"].lower() == name for b in t["bound"])}
        links = fail.get("links_with_that_text", [])
        if links and all((mm := pat.search(h)) and mm.group(1).lower() in binders for h in links):
            return "C16-unqualified-link-finds-binding-first"
    if A is not None and fail.get("oracle") == "reference to an entity of A is linked to A's page for it" \
            and ex.get("ford_link") and str(ex.get("why", "")).startswith(("link to procedure", "link to type")) \
            and fail.get("links_lead_to_private_entity_of_A"):
        # an unqualified [[name]] to a public procedure / type of A: every link with that text leads to the page of a
        # *private* entity of A with the same identifier (A shows its private entities, so that page exists)
        disp = (a_opts or {}).get("display", [])
        if "private" in (disp if isinstance(disp, list) else [disp]):
            return "C16-unqualified-link-finds-private-entity-first"
    if ex.get("cross_kind") and fail.get("oracle") == "a name B defines itself is linked to B's own entity" \
            and fail.get("went") == "outward":
        return "C16-unqualified-link-prefers-external"
    return None


# --------------------------------------------------------------------------- pairs

A_OPTION_SETS = [
    {}, {}, {"display": ["public", "private"]}, {"display": ["public", "protected", "private"], "proc_internals": "true"},
    {"sort": "type-alpha"}, {"incl_src": "false"}, {"display": "public", "hide_undoc": "false"},
]

BAD_KINDS = ["missing", "isdir", "truncated", "garbage", "empty", "notutf8", "wrongshape", "wrongshape", "emptylist"]


def spoil(rng, adoc: Path, kind: str):
    p = adoc / "modules.json"
    good = p.read_bytes()
    if kind == "missing":
        p.unlink()
    elif kind == "isdir":
        p.unlink()
        p.mkdir()
    elif kind == "truncated":
        p.write_bytes(good[: rng.randint(1, max(1, len(good) - 2))])
    elif kind == "garbage":
        p.write_text(rng.choice(["<html>404</html>", "not json at all", "{'single': 'quotes'}", "[1, 2,"]))
    elif kind == "empty":
        p.write_text("")
    elif kind == "notutf8":
        p.write_bytes(b'{"modules": ["\xff\xfe"]}')
    elif kind == "emptylist":
        p.write_text(rng.choice(["[]", "{}"]))
    elif kind == "wrongshape":
        doc = json.loads(good)
        d2, tag = damage(rng, doc)
        for _ in range(20):
            im = impl_import(d2, False, "/abs/A/doc")
            if im[0] == "err":
                break
            d2, tag = damage(rng, doc)
        p.write_text(json.dumps(d2))
    return good


SIBLING_KINDS = ["nodesc", "nodir", "truncated", "garbage", "empty", "notutf8", "isdir", "unreachable", "http404",
                 "emptyok", "other-local", "other-remote"]
SIBLING_USABLE = {"emptyok", "other-local", "other-remote"}


def make_sibling(rs, d: Path, i: int, kind: str, good: bytes):
    """Another external project next to A in B's `external:` option.
    -> (the `name = location` entry, {URL: bytes} to be served by the fake host)"""
    root = d / f"S{i}"
    shutil.rmtree(root, ignore_errors=True)
    name = f"sib{i}"
    tiny = json.dumps({"ford-metadata": {"version": "0"}, "modules": [
        {"name": f"zzsibling{i}", "external_url": f"./module/zzsibling{i}.html", "obj": "module", "pub_procs": {},
         "pub_absints": {}, "pub_types": {}, "pub_vars": {}, "functions": [], "subroutines": [], "interfaces": [],
         "absinterfaces": [], "types": [], "variables": []}]}).encode()
    if kind == "unreachable":
        return f"{name} = https://docs{i}.elsewhere.invalid/proj" + rs.choice(["", "/"]), {}
    if kind == "http404":
        return f"{name} = http://{REMOTE_HOST}/gone{i}" + rs.choice(["", "/"]), {}
    if kind == "other-remote":
        url = f"http://{REMOTE_HOST}/sibling{i}" + rs.choice(["", "/"])
        return f"{name} = {url}", {index_of(url): tiny}
    entry = f"{name} = ../S{i}/doc" + rs.choice(["", "/"])
    if kind == "nodir":
        return entry, {}
    sd = root / "doc"
    sd.mkdir(parents=True)
    (sd / "index.html").write_text("<html><body>another project</body></html>")
    p = sd / "modules.json"
    if kind == "truncated":
        p.write_bytes(good[: rs.randint(1, max(1, len(good) - 2))])
    elif kind == "garbage":
        p.write_text(rs.choice(["<html>404</html>", "not json at all", "{'single': 'quotes'}", "[1, 2,"]))
    elif kind == "empty":
        p.write_text("")
    elif kind == "notutf8":
        p.write_bytes(b'{"modules": ["\xff\xfe"]}')
    elif kind == "isdir":
        p.mkdir()
    elif kind == "emptyok":
        p.write_text(rs.choice(["[]", "{}", '{"ford-metadata": {"version": "0"}, "modules": []}']))
    elif kind == "other-local":
        p.write_bytes(tiny)
    elif kind != "nodesc":
        raise common.Infra(f"unknown sibling kind {kind}")
    return entry, {}


# B is a project like any other: it may itself be documented for others (`externalize`), show private entities,
# sort differently ... - none of which is a reason for a link into A to change
B_OPTION_SETS = [
    {}, {"externalize": "true"}, {"display": ["public", "private"]}, {"externalize": "true", "display": ["public", "protected", "private"]},
    {}, {"externalize": "true", "sort": "type-alpha"}, {"proc_internals": "true"}, {"externalize": "true", "incl_src": "false"},
]


def run_b(d: Path, B_files, ext_value, extra=None):
    shutil.rmtree(d / "B", ignore_errors=True)
    opts = {"project": "projB", "external": ext_value}
    opts.update(extra or {})
    pb = e2e.write_project(d / "B", B_files, opts)
    return e2e.run_inprocess(pb)


def pair_case(rep, drv, rng, d: Path, k: int, tier: str, stats, docs_out, counters):
    A = G.gen_a(rng, size=2 if k % 3 else 3)
    mode = ["local", "remote", "local", "remote", "local-abs", "remote"][k % 6]
    links_ok = not (mode == "local" and k % 4 == 0)     # some local pairs without [[...]] so that the rest is seen
    B = G.gen_b(rng, A, links_ok=links_ok if mode != "local-abs" else (k % 12 == 4))
    a_files = G.render_a(A, rng)
    b_files = G.render_b(B, rng)
    a_opts = dict(rng.choice(A_OPTION_SETS))
    rebuilt = rng.random() < 0.35
    base_case = {"stream": "pairs", "index": k, "mode": mode, "A": A, "B": {"modules": B["modules"], "expect": B["expect"], "program": B.get("program")},
                 "a_files": a_files, "b_files": b_files, "a_options": a_opts, "rebuilt": rebuilt}
    shutil.rmtree(d / "A", ignore_errors=True)
    ford = ford_mod()
    captured = {}
    orig_dump = ford.dump_modules

    def hook(project, path="."):
        toks = []
        st = {}
        for m in project.modules:
            reflect(m, toks, st)
        captured["toks"], captured["n"], captured["stats"] = toks, len(project.modules), st
        return orig_dump(project, path=path)

    ford.dump_modules = hook
    try:
        if rebuilt:
            first = dict(rng.choice(A_OPTION_SETS))
            pa = e2e.write_project(d / "A", a_files, dict({"externalize": "true", "project": "projA"}, **first))
            e2e.run_inprocess(pa)
        pa = e2e.write_project(d / "A", a_files, dict({"externalize": "true", "project": "projA"}, **a_opts))
        ra = e2e.run_inprocess(pa)
    finally:
        ford.dump_modules = orig_dump
    adoc = d / "A" / "doc"
    counters["runs"] += 2 if rebuilt else 1
    if ra["rc"] != 0 or not (adoc / "modules.json").is_file():
        rep.failing_input(dict(base_case, why="project A (externalize) did not build / wrote no modules.json",
                               exc=ra["exc"], trace=ra.get("trace", "")[-800:]), None)
        return
    real_doc = json.loads((adoc / "modules.json").read_text())
    docs_out.append(real_doc)
    # --- export correspondence on the very objects dump_modules saw
    toks = ["c16.dump", real_doc.get("ford-metadata", {}).get("version", ""), str(captured["n"])] + captured["toks"]
    res = drv.call(*toks)
    for kk, v in captured["stats"].items():
        stats[kk] = stats.get(kk, 0) + v
    if res[0] != "ok":
        rep.tie_broken("correspondence export: driver rejected the reflected modules", dict(base_case, model=res[:3]))
    else:
        model_doc, _ = dec_json(res, 1)
        counters["export_cmp"] += 1
        if model_doc != real_doc:
            rep.tie_broken("correspondence export: model dumpModules differs from the real modules.json: "
                           + str(first_diff(model_doc, real_doc)), dict(base_case, diff=first_diff(model_doc, real_doc)))
    # --- export oracle
    report_export(rep, base_case, real_doc, A)
    homes = a_homes(A, adoc)
    # every exported public entity's URL exists in A's output and documents it
    for tr, (kind, lname, hs, pub) in homes.items():
        if pub and not hs:
            rep.failing_input(dict(base_case, oracle="A documents its public entity", why=f"{kind} {lname}: no page contains {tr}"), None)
    why = export_positions_oracle(real_doc, A, adoc, homes)
    if why:
        rep.failing_input(dict(base_case, oracle="each exported description is that of the entity listed there", why=why), None)
    seen_fid = set()
    for why in exported_urls_oracle(real_doc, adoc, homes):
        fid = None
        if isinstance(why, tuple):
            why, nm_, f_ = why
            if undisplayed_parent_member(A, a_opts, f_, nm_):
                fid = "C16-inherited-member-url-of-undisplayed-parent"
            elif Path(f_).parent.name == "interface" and nm_.lower() in ctor_statement_names(A) and \
                    any(t["name"].lower() == nm_.lower() and t["acc"] == "private" for m_ in A["modules"] for t in m_["types"]):
                fid = "C16-constructor-access-statement-ignored"     # a private constructor listed: its page is not written
        if fid in seen_fid:
            continue
        seen_fid.add(fid)
        rep.failing_input(dict(base_case, oracle="exported URL exists in A's output and documents the entity", why=why), fid)
    # --- B against A
    # remote: the URL as a user writes it - any of the published locations, with or without trailing slash
    written = REMOTE_BASES[(k // 2) % len(REMOTE_BASES)] + ("/" if ((k // 2) // len(REMOTE_BASES)) % 2 else "")
    local_spelling = ["../A/doc", "../A/doc/", "./../A/doc", "../A/./doc"][(k // 2) % 4]
    ext_value = {"local": f"a = {local_spelling}", "local-abs": f"a = {adoc}" + ("/" if k % 4 == 0 else ""),
                 "remote": f"a = {written}"}[mode]
    has_links = any(e.get("ford_link") for e in B["expect"]) or any(m["refs"] for m in B["modules"])
    # A among other external projects: listed before / after / between them; the others are unusable in the ways
    # the run has to survive, or usable and unrelated.  Everything below is judged exactly as for A alone.
    served, siblings = {}, []
    if k % 4 in (1, 2):
        rs = random.Random(common.digest([a_files, b_files, k]))
        place = ["after", "before", "between"][(k // 4) % 3]       # where A stands relative to the others
        kinds = [rs.choice(SIBLING_KINDS) for _ in range(2 if place == "between" else rs.choice([1, 1, 2]))]
        if not set(kinds) - SIBLING_USABLE and rs.random() < 0.8:
            kinds[0] = rs.choice(sorted(set(SIBLING_KINDS) - SIBLING_USABLE))
        if len(kinds) == 2 and rs.random() < 0.5:
            kinds[1] = rs.choice(sorted(SIBLING_USABLE))
        entries = []
        for i, kind in enumerate(kinds):
            e, sv = make_sibling(rs, d, i + 1, kind, (adoc / "modules.json").read_bytes())
            entries.append(e)
            served.update(sv)
        n_first = {"after": len(entries), "before": 0, "between": 1}[place]
        ext_value = entries[:n_first] + [ext_value] + entries[n_first:]
        siblings = [{"kind": kd, "entry": e} for kd, e in zip(kinds, entries)]
        stats[f"pair:several-externals:A-{place}"] = stats.get(f"pair:several-externals:A-{place}", 0) + 1
        for kd in kinds:
            stats["pair:sibling:" + kd] = stats.get("pair:sibling:" + kd, 0) + 1
    # B's graphs (uses / calls / inheritance / component types): their nodes are links as well
    graphs = k % 8 != 7
    stats[f"pair:graphs:{'on' if graphs else 'off'}"] = stats.get(f"pair:graphs:{'on' if graphs else 'off'}", 0) + 1
    b_opts = dict(B_OPTION_SETS[(k + k // 8) % len(B_OPTION_SETS)])
    stats["pair:B-externalize:" + b_opts.get("externalize", "false")] = stats.get("pair:B-externalize:" + b_opts.get("externalize", "false"), 0) + 1
    for m_ in B["modules"]:
        if m_.get("prelude"):
            stats["pair:B-prelude:" + m_["default"]] = stats.get("pair:B-prelude:" + m_["default"], 0) + 1
    with patched_fetch(adoc, base=written, extra=served):
        rb = run_b(d, b_files, ext_value, dict(b_opts, **({"graph": "true"} if graphs else {})))
    counters["runs"] += 1
    bcase = dict(base_case, external=ext_value, other_external_projects=siblings, has_ford_links=has_links,
                 description=None, b_graphs=graphs, b_options=b_opts)
    stats[f"pair:{mode}:{'links' if has_links else 'nolinks'}"] = stats.get(f"pair:{mode}:{'links' if has_links else 'nolinks'}", 0) + 1
    if mode == "remote":
        shape = ("host-only" if urlsplit(written).path in ("", "/") else "with-path") + (":slash" if written.endswith("/") else ":noslash")
        stats["pair:remote-url:" + shape] = stats.get("pair:remote-url:" + shape, 0) + 1
    for cc in {c for m in A["modules"] for c in m.get("coincide", [])}:
        stats["pair:shared-identifier:" + cc] = stats.get("pair:shared-identifier:" + cc, 0) + 1
    if rb["rc"] != 0:
        c = dict(bcase, why="B's run aborted", exc=rb["exc"], trace=(rb.get("trace") or "")[-900:])
        rep.failing_input(c, classify_abort(c))
    else:
        fails, n_out = check_links(B, A, d / "B" / "doc", adoc, written if mode == "remote" else None, homes, stats,
                                   graphs=graphs)
        counters["pairs_checked"] += 1
        if n_out > 0:
            counters["nontrivial"].add(common.digest([a_files, b_files, mode]))
        if len(counters["samples"]) < 2 and n_out > 3:
            counters["samples"].append({"mode": mode, "a_files": a_files, "b_files": b_files, "outward_links": n_out,
                                        "expected_refs": len(B["expect"])})
        seen = set()
        for f in fails:
            fid = classify_link(f, A, a_opts)
            keyf = (fid, f["oracle"])
            if keyf in seen:
                continue
            seen.add(keyf)
            rep.failing_input(dict(bcase, **f), fid)
    # --- damaged descriptions: B must still build (only the links may go)
    # (quick tier: two re-runs for every other pair, one for the rest - 48 re-runs over the nine ways of spoiling)
    for bad in rng.sample(BAD_KINDS, (2 if k % 2 == 0 else 1) if tier == "quick" else 4):
        if mode == "local-abs":
            break
        good = spoil(rng, adoc, bad)
        with patched_fetch(adoc, base=written, extra=served):
            rb2 = run_b(d, {n: re.sub(r"\[\[([^\]]*)\]\]", r"\1", t) for n, t in b_files.items()}, ext_value)
        counters["runs"] += 1
        stats[f"bad:{bad}:{mode}:{'ok' if rb2['rc'] == 0 else 'abort'}"] = \
            stats.get(f"bad:{bad}:{mode}:{'ok' if rb2['rc'] == 0 else 'abort'}", 0) + 1
        p = adoc / "modules.json"
        spoiled = None
        if p.is_file():
            spoiled = p.read_bytes()[:400].decode("latin1")
        if p.is_dir():
            p.rmdir()
        p.write_bytes(good)
        if rb2["rc"] != 0:
            c = dict(bcase, description=bad, spoiled_modules_json=spoiled, why="B's run aborted because of A's description",
                     exc=rb2["exc"], trace=(rb2.get("trace") or "")[-600:], has_ford_links=False)
            c.pop("A", None)
            rep.failing_input(c, classify_abort(c))


def exported_urls_oracle(doc, adoc: Path, homes):
    """every entity description in modules.json: URL (first segment stripped) exists in A's output,
    anchor exists, and the page is one that documents an entity of that name; all violations"""
    by_name = {}
    for tr, (kind, lname, hs, pub) in homes.items():
        by_name.setdefault(lname, []).append(hs)

    found = []

    def walk(v):
        if isinstance(v, dict):
            if "name" in v and "external_url" in v:
                u = v["external_url"].split("/", 1)[-1]
                f, _, frag = u.partition("#")
                p = adoc / f
                if not p.is_file():
                    found.append((f"{v['name']}: {v['external_url']} does not exist in A's output", v["name"], f))
                elif frag and frag not in scan(p)[1]:
                    found.append(f"{v['name']}: anchor #{frag} missing in {f}")
                else:
                    hs = by_name.get(v["name"].lower())
                    if hs is not None and not any(p in h for h in hs) and v.get("obj") != "variable":
                        found.append(f"{v['name']}: {f} does not document it")
            for x in v.values():
                walk(x)
        elif isinstance(v, list):
            for x in v:
                walk(x)

    walk(doc)
    return found


# --------------------------------------------------------------------------- positional export oracle

OWN_LISTS = {"types": ("types", "type"), "functions": ("funcs", "func"), "subroutines": ("subs", "sub"),
             "interfaces": ("generics", "generic"), "absinterfaces": ("absints", "absint"), "variables": ("vars", "var")}
PUB_DICTS = {"pub_procs": ("func", "sub", "generic"), "pub_absints": ("absint",), "pub_types": ("type",),
             "pub_vars": ("var",)}


def export_positions_oracle(doc, A, adoc: Path | None = None, homes=None):
    """"The exported description lists A's modules with their public entities": the description found at a
    given place of modules.json (module M -> pub_types[T] -> variables[i], M -> interfaces[j], ...) must be the
    description of the entity that *is* at that place in the source - decided by kind (directory of the URL,
    anchor prefix) and, when A's output is at hand, by the entity's tracer on the page the URL names.  An
    identifier shared by entities of different kinds (type + constructor, component + module function,
    binding + the subroutine it binds to) therefore does not satisfy it with the other entity's description.
    Returns None (holds) or a description of the first violation."""
    mods = doc.get("modules") if isinstance(doc, dict) else None
    if not isinstance(mods, list):
        return None                     # reported by export_oracle
    exp = G.expected_export(A)
    public = [(k, e) for k, m, e, p in G.a_entities(A) if p]
    tracer_kind = {e["tracer"]: k for k, m, e, p in G.a_entities(A)}

    def judge(d, cands, path):
        """`d` must be the description of one of `cands` [(kind, entity)] (same entity, several spellings of
        where it is documented are fine)"""
        if not isinstance(d, dict) or not cands:
            return None
        u = d.get("external_url")
        if not isinstance(u, str):
            return f"{path}: description of {d.get('name')} has no URL"
        rel = u.split("/", 1)[-1]
        f, _, frag = rel.partition("#")
        why = []
        for kind, e in cands:
            if Path(f).parent.name != KIND_DIR[kind] or len(Path(f).parts) != 2:
                why.append(f"a {kind} is documented under {KIND_DIR[kind]}/")
                continue
            pre = KIND_ANCHOR.get(kind)
            if (pre and not frag.startswith(pre)) or (not pre and frag):
                why.append(f"a {kind} is documented at {'#' + pre + '...' if pre else 'a page of its own'}")
                continue
            if homes is not None:
                hs = homes[e["tracer"]][2]
                if not hs or not (adoc / f).is_file():
                    return None         # not displayed at all / missing page: the existence oracles speak
                if (adoc / f) not in hs:
                    why.append(f"{kind} {e['name']} is documented on {sorted(str(h.relative_to(adoc)) for h in hs)}")
                    continue
            return None
        return f"{path}: {d.get('name')} is described as obj={d.get('obj')!r} at {u}, but " + "; ".join(why)

    def type_members(m, t):
        """components / bindings of t, inherited ones included (extension inside the module)"""
        comps, bound, seen = [], [], set()
        while t is not None and id(t) not in seen:
            seen.add(id(t))
            comps += t["comps"]
            bound += t["bound"]
            t = next((x for x in m["types"] if t["extends"] and x["name"].lower() == t["extends"].lower()), None)
        return comps, bound

    def walk_type(d, owner_m, t, path):
        comps, bound = type_members(owner_m, t)
        for key, lst, kind in (("variables", comps, "comp"), ("boundprocs", bound, "bound")):
            for i, c in enumerate(d.get(key) or [] if isinstance(d.get(key), list) else []):
                if isinstance(c, dict):
                    r = judge(c, [(kind, e) for e in lst if e["name"].lower() == str(c.get("name", "")).lower()],
                              f"{path}.{key}[{i}]")
                    if r:
                        return r
        return None

    def owner_of_type(t):
        return next(m for m in A["modules"] if any(x is t for x in m["types"]))

    for md in mods:
        if not isinstance(md, dict) or str(md.get("name", "")).lower() not in exp:
            continue
        m = G.module_of(A, md["name"])
        path = f"$.modules[{md['name']}]"
        r = judge(md, [("module", m)], path)
        if r:
            return r
        for key, (lst, kind) in OWN_LISTS.items():
            items = md.get(key)
            for i, d in enumerate(items if isinstance(items, list) else []):
                if not isinstance(d, dict):
                    continue
                cands = [(kind, e) for e in m[lst] if e["name"].lower() == str(d.get("name", "")).lower()]
                r = judge(d, cands, f"{path}.{key}[{i}]")
                if r:
                    return r
                if kind == "type" and cands:
                    r = walk_type(d, m, cands[0][1], f"{path}.{key}[{i}]")
                    if r:
                        return r
        for key, kinds in PUB_DICTS.items():
            dd = md.get(key)
            for x, d in (dd.items() if isinstance(dd, dict) else []):
                if not isinstance(d, dict):
                    continue
                o = exp[m["name"].lower()]["origin"].get(x.lower())
                cands = [(k, e) for k, e in public if k in kinds and e["name"].lower() == o]
                r = judge(d, cands, f"{path}.{key}[{x}]")
                if r:
                    return r
                if key == "pub_types" and cands:
                    t = cands[0][1]
                    r = walk_type(d, owner_of_type(t), t, f"{path}.{key}[{x}]")
                    if r:
                        return r
    return None


# --------------------------------------------------------------------------- entry point

def translate():
    from translate import c16 as T
    return T.translate()


def run(tier: str, seed: int, replay: str | None = None) -> int:
    rep = Report(PROP, tier, seed)
    lean = lean_prove(PROP, translate=translate, thorough=(tier == "thorough"))
    for b in lean.broken():
        rep.tie_broken("proof: " + b)
    ford_mod()
    rng = random.Random(seed * 10007 + 16)
    drv = Driver()
    stats: dict[str, int] = {}
    counters = {"runs": 0, "export_cmp": 0, "pairs_checked": 0, "nontrivial": set(), "samples": []}
    n_pairs = 32 if tier == "quick" else 200
    n_export = 40 if tier == "quick" else 400
    n_import = 400 if tier == "quick" else 4000
    n_lookup = 1500 if tier == "quick" else 15000
    n_multi = 300 if tier == "quick" else 3000
    n_node = 1500 if tier == "quick" else 15000
    n_assoc = 150 if tier == "quick" else 1500
    n_child_docs = 150 if tier == "quick" else 1500
    n_history = 30 if tier == "quick" else 300
    n_href = 1500 if tier == "quick" else 15000
    docs: list = []
    ev = 0
    import time
    clock = {"t": time.time()}
    secs: dict = {}

    def lap(name):
        now = time.time()
        secs[name] = round(now - clock["t"], 1)
        clock["t"] = now

    with common.scratch_dir() as d:
        init_b_pool(d)
        # ---------------- export stream (correlate only, many option sets)
        bad_export = 0
        for k in range(n_export):
            A = G.gen_a(rng, size=2 if k % 4 else 4)
            files = G.render_a(A, rng)
            opts = dict(rng.choice(A_OPTION_SETS))
            shutil.rmtree(d / "E", ignore_errors=True)
            pf = e2e.write_project(d / "E", files, dict({"externalize": "true", "project": "projA"}, **opts))
            try:
                project = correlate_only(pf)
                ford = ford_mod()
                ford.dump_modules(project, path=d / "E")
                real_doc = json.loads((d / "E" / "modules.json").read_text())
            except Exception as e:  # the generator produces valid Fortran: the real code must cope
                rep.failing_input({"stream": "export", "index": k, "A": A, "files": files, "options": opts,
                                   "why": f"parsing/correlating/exporting A raised {type(e).__name__}: {e}"}, None)
                continue
            st: dict = {}
            if not check_export(rep, drv, project, real_doc, A, st, f"export#{k}"):
                bad_export += 1
            for kk, v in st.items():
                stats[kk] = stats.get(kk, 0) + v
            report_export(rep, {"stream": "export", "index": k, "A": A, "files": files, "options": opts}, real_doc, A)
            why = export_positions_oracle(real_doc, A)
            if why:
                rep.failing_input({"stream": "export", "index": k, "A": A, "files": files, "options": opts,
                                   "oracle": "each exported description is that of the entity listed there", "why": why}, None)
            for cc in {c for m in A["modules"] for c in m.get("coincide", [])}:
                stats["export:shared-identifier:" + cc] = stats.get("export:shared-identifier:" + cc, 0) + 1
            if len(docs) < 60:
                docs.append(real_doc)
            ev += 1
        lap("export")
        # ---------------- pairs (end to end)
        for k in range(n_pairs):
            pair_case(rep, drv, rng, d, k, tier, stats, docs, counters)
        lap("pairs")
        # ---------------- import + lookup streams
        if not docs:
            docs.append({"ford-metadata": {"version": "0"}, "modules": []})
        n_imp, bad_imp = import_stream(rep, drv, rng, docs, n_import, stats)
        lap("import")
        n_lk, bad_lk = lookup_stream(rep, drv, rng, n_lookup, stats)
        lap("lookup")
        n_mu, bad_mu = multi_stream(rep, drv, random.Random(seed * 7919 + 1605), docs, n_multi, stats)
        lap("multi")
        n_nd, bad_nd = node_stream(rep, drv, random.Random(seed * 6007 + 1604), n_node, stats)
        lap("node")
        n_as, bad_as = assoc_stream(rep, drv, random.Random(seed * 4001 + 1603), d, docs, n_assoc, stats)
        lap("assoc")
        from . import c16_child as CH
        import sys
        H = sys.modules[__name__]
        n_ch, bad_ch = CH.child_stream(H, rep, drv, random.Random(seed * 3001 + 1606), docs, n_child_docs, 6, stats)
        lap("child")
        n_hi, bad_hi = CH.history_stream(H, rep, drv, random.Random(seed * 2003 + 1607), docs, n_history, stats, d)
        lap("history")
        n_hr, bad_hr = CH.href_stream(H, rep, drv, random.Random(seed * 1009 + 1608), n_href, stats, d)
        lap("href")
    drv.close()
    rep.coverage.update(
        evaluations=ev + n_imp + n_lk + n_mu + n_nd + n_as + n_ch + n_hi + n_hr + counters["runs"],
        distinct_nontrivial=len(counters["nontrivial"]),
        rule="pairs: distinct (A sources, B sources, mode) whose B output contains at least one link that leaves B "
             "and was checked against A's output; export/import/lookup stream sizes are listed separately",
        samples=counters["samples"],
        traces_validated_against_impl=ev + counters["export_cmp"] + n_imp + n_lk + n_mu + n_nd + n_as + n_ch + n_hi + n_hr,
        export_cases=ev + counters["export_cmp"], import_cases=n_imp, lookup_cases=n_lk, multi_project_cases=n_mu,
        graph_node_cases=n_nd, use_association_cases=n_as, child_lookup_cases=n_ch, history_loads=n_hi, href_cases=n_hr, stream_seconds=secs,
        end_to_end_runs=counters["runs"], pairs_with_links_checked=counters["pairs_checked"],
        correspondence_disagreements=len(rep.tie_breaks),
        input_distribution=dict(sorted(stats.items())),
        variant={"fetch_errors_caught": None},
    )
    try:
        from translate import c16 as T
        t = T.extract(common.REPO)
        rep.coverage["variant"] = {"except_clause": t["caughtSource"], "fetch_errors": dict(t["fetchErrors"]),
                                   "handler_exits": dict(t["handlerExits"]), "loop_shape": t["loopShape"]}
    except Exception:
        pass
    rep.assumptions += [
        "remote externals: the network fetch is replaced by the harness (urlopen serves <URL as published>/modules.json "
        "and nothing else); urljoin is modelled for bases http(s)://authority[/path] without query, fragment or empty "
        "path segments and for the relative references get_url produces (dir/file.html#anchor) only",
        "pathlib's special case of exactly two leading slashes is not modelled",
        "Jinja templates / Markdown are on the implementation side only; their links are judged by the oracle on the HTML",
        "href of a textual reference: paths as segment lists without symbolic links (the harness's directories have none); "
        "os.path.relpath / normpath as in FordModel/Path.lean (absolute POSIX paths)",
        "graph nodes: HYPERLINK_RE is modelled on the strings FortranBase.__str__ produces for URLs without quote "
        "characters and names without <, >, quotes; graphs saved to graph_dir and an absolute project_url of B are not observed",
    ]
    return rep.finish(lean)
