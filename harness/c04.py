"""C04 - accessibility of every entity follows Fortran's PUBLIC/PRIVATE rules.

Streams (every run)
  table : the full product of the property's quantifier
            default {none, public, private} x {early, late}
          x declaration attribute {none, public, private, protected}
          x access statement {none, public, private} x {before, after}
          x entity kind {variable, parameter, type, subroutine, function, generic
            interface, abstract interface, operator interface, component, binding}
          (+ the submodule cells), every cell embedded in R random legal modules.
          For each module: (a) correspondence - FORD's permissions (Project + correlate,
          in-process) == the Lean model `runUnit` on the same abstract program,
          (b) property oracle - FORD's permission of every entity of a *legal* program ==
          `spec_access` (Python, written from the standard) and the Lean `fortranAccess`
          agrees with the Python oracle.
          Entity kind `specific` = a procedure declared by an interface body inside a generic interface
          (a module entity of its own: module default, or the access statement naming *it*; a statement that
          names only the generic does not touch it).
          (c) export oracle - the module's pub_procs / pub_vars / pub_types / pub_absints (what other scopes get
          by use association, built in _cleanup *before* correlate) hold exactly the entities whose Fortran
          accessibility is not private.
  wild  : random programs that need not be legal (several bare statements, attribute and
          statement on the same entity, `protected ::` statements, repeated access words,
          constructor interfaces, components after CONTAINS ...): correspondence only.

Families (round 5).  "Entities of a submodule stay private" also covers the bodies of separate module procedures: a
          module with `module subroutine/function` interface bodies (accessibility by default or by access statement),
          a child submodule and now and then a grandchild submodule that implement them in the short form
          (`module procedure f ... end procedure`, FORD's `modprocedures`) or the long form (`module subroutine f(...)`,
          after correlate in `modsubroutines` / `modfunctions`).  Every unit of a family is a case of its own (cell
          `submodule x implementation` of the table, 5 % of the wild stream); the units of a family are parsed and
          correlated in one project, the model of a submodule receives the interface bodies its ancestor module makes
          visible (`H:` fields) and follows the measured truth table "does correlate hand the interface's accessibility
          to the implementation".  A failing submodule is stored with its ancestors (`ancestors` in the replay).

Spelling (round 4).  "An access statement naming the entity" presupposes that the name in the statement and the
name in the declaration are recognised as the same identifier.  Every case therefore carries a *spelling*
(`decorate`): each entity-decl is written name / NAME / Name, with blanks, array-spec, coarray-spec, char-length,
initialisation after it (`Grid (10, 10) = 0`, `c *4`, `co [*]`), each name list with blanks around the commas and
now and then a continuation line, each `operator(+)` / `assignment(=)` with blanks between its tokens.  The text of
these three lists goes to the Lean model as it is written (`Ford.Access.keyed`: the model derives the `attr_dict`
keys with its own `paren_split` / blank removal / name cut, tables measured on the code under test) and is stored
in the replay.  Everything else that surrounds an access word is varied by the renderer: type-specs
(`double precision`, `character*4`, `type(x)`), other attributes with parentheses and commas, `::` or none,
procedure prefixes and suffixes (`pure elemental`, `module`, `bind(C, name=..)`), `procedure(iface), deferred`
bindings, generic bindings named by an operator, several program units in one file.
"""
from __future__ import annotations

import itertools
import random
import re
from pathlib import Path

from . import common
from .common import Driver, Report, lean_prove

PROP = "C04"
PCODE = {"public": "u", "private": "r", "protected": "t"}
KINDS = ["variable", "parameter", "type", "subroutine", "function", "generic", "abstract", "operator",
         "component", "binding", "specific", "separate"]
OPERATORS = ["operator(+)", "operator(-)", "operator(*)", "operator(.dot.)", "operator(==)", "assignment(=)",
             "operator(.x.)", "operator(<)", "operator(//)", "operator(/=)", "operator(.not.)", "operator(>=)",
             "read(formatted)", "write(unformatted)"]

F_LATE = "C04-late-bare-private"
F_PROT_PRIV = "C04-protected-overrides-private"
F_PROT_LOST = "C04-protected-lost-after-public"
F_SPEC_STMT = "C04-specific-access-statement-ignored"
F_CTOR_STMT = "C04-constructor-access-statement-ignored"
F_SAME_NAME = "C04-self-named-generic-access-statement-ignored"
VARIANT = "p"  # set by run(): what probe_variant found in the code under test
F_CTOR_ATTR = "C04-constructor-export-before-correlate"
F_GSPEC = "C04-generic-spec-blank-spelling"
F_OWN_SHORT = "C04-own-module-short-body-access-statement-ignored"
TABS = (("procs", "pub_procs"), ("vars", "pub_vars"), ("types", "pub_types"), ("absints", "pub_absints"))
TAB_OF = {"var": "vars", "type": "types", "absiface": "absints", "func": "procs", "sub": "procs", "iface": "procs",
          "spec": "procs"}


# ---------------------------------------------------------------------------
# abstract programs
#   stmt := ("bare", perm) | ("access", word, [names]) | ("var", [names], [attrs], is_param)
#         | ("type", name, [attrs], body) | ("iface", kind, name, [procs]) | ("proc", is_func, name)
#           (procs of a generic interface: "mp_x" = `module procedure x` reference, anything else = the name of
#            a specific procedure declared by an interface body; `model_view` splits them: procs, refs)
#         | ("impl", form, name)   body of a separate module procedure in the procedure part: form "short" =
#           `module procedure name ... end procedure`, "long" = `module subroutine/function name(...) ...`
#           (a function iff the name starts with "mf"); the interface body of that name stands in an ancestor:
#           ("iface", "mplain", "", [names]) = a plain interface block whose bodies carry the MODULE prefix
#         | ("contains",) | ("other", text)
#   body stmt := ("bare", perm) | ("contains",) | ("comp", [names], [attrs]) | ("bind", generic, [names], [attrs])
#         | ("other", text)
#   attrs / word: "public" | "private" | "protected" | any other text (an unrelated attribute)
# ---------------------------------------------------------------------------


def acode(a):
    return PCODE.get(a, "o")


def enc_body(body):
    out = []
    for s in body:
        if s[0] == "bare":
            out.append("B/" + PCODE[s[1]])
        elif s[0] == "contains":
            out.append("K")
        elif s[0] == "comp":
            out.append("C/" + ",".join(s[1]) + "/" + "".join(acode(a) for a in s[2]))
        elif s[0] == "bind":
            out.append("N/" + ("1" if s[1] else "0") + "/" + ",".join(s[2]) + "/" + "".join(acode(a) for a in s[3]))
        else:
            out.append("O")
    return "|".join(out)


def hexs(t):
    """the text as the parser sees it: a continued list is one line (the continuation marks are layout), and every
    character literal has been replaced by a numbered placeholder (`"0"`, `"1"` ...) before a statement is looked at"""
    t = re.sub(r"&\s*\n\s*&?", "", t)
    k = itertools.count()
    t = re.sub(r"'[^']*'|\"[^\"]*\"", lambda m: f'"{next(k)}"', t)
    return t.encode("ascii").hex()


def enc_stmt(s, sp=None):
    """abstract statement for the Lean side.  With a spelling `sp` (see `decorate`) the three statements whose
    *text* decides under which key FORD files the names - a declaration's entity list, the name list of an
    attribute statement, the generic-spec of an interface statement - are sent as they are written (hex), and the
    model derives the keys itself (`Ford.Access.keyed`)."""
    k = s[0]
    if sp is not None:
        if k == "access":
            return "Q:" + acode(s[1]) + ":" + hexs(sp)
        if k == "var":
            return "W:" + hexs(sp[1]) + ":" + "".join(acode(a) for a in s[2])
        if k == "iface" and s[1] == "generic":
            return "J:" + hexs(sp) + ":" + ",".join(s[3]) + ":" + ",".join(s[4] if len(s) > 4 else [])
    if k == "bare":
        return "B:" + PCODE[s[1]]
    if k == "access":
        return "A:" + acode(s[1]) + ":" + ",".join(s[2])
    if k == "var":
        return "V:" + ",".join(s[1]) + ":" + "".join(acode(a) for a in s[2])
    if k == "type":
        return "T:" + s[1] + ":" + "".join(acode(a) for a in s[2]) + ":" + enc_body(s[3])
    if k == "iface":
        return "I:" + {"generic": "g", "abstract": "a", "plain": "p", "mplain": "p"}[s[1]] + ":" + s[2] + ":" + ",".join(s[3]) \
            + ":" + ",".join(s[4] if len(s) > 4 else [])
    if k == "proc":
        return ("F:" if s[1] else "S:") + s[2]
    if k == "mproc":
        return "M:" + s[1]
    if k == "contains":
        return "K"
    return "O"


# ---------------------------------------------------------------------------
# rendering to Fortran
#
# Two layers.  `decorate` fixes the *spelling* of every name occurrence whose text reaches FORD's name keying (the
# entity list of a type declaration statement, the name list of an attribute statement, the generic-spec of an
# interface statement): letter case, blanks, array-spec / coarray-spec / char-length / initialisation after the
# name, `operator (+)` with blanks.  The spelling is part of the case (stored in replays, sent to the Lean model).
# `render` lays the statements out and varies everything else (type-specs, attribute spellings, `::`, procedure
# prefixes, continuation lines).
# ---------------------------------------------------------------------------


def rcase(rng, w):
    r = rng.random()
    if r < 0.6:
        return w
    if r < 0.8:
        return w.upper()
    return w.capitalize()


def sp(rng):
    return rng.choice(["", " ", "  "])


def rname(rng, n):
    """names are matched case-insensitively: vary the case of declared / referenced names"""
    r = rng.random()
    if r < 0.12:
        return n.upper()
    if r < 0.18:
        return n.capitalize()
    return n


def gap(rng):
    """blanks between the tokens of one entity / name (legal anywhere between tokens in free form)"""
    return rng.choice(["", "", "", " ", " ", "  "])


def spell_generic(rng, n):
    """generic-spec of an interface statement / of an access statement: identifiers vary in case; in
    `operator(.op.)` / `assignment(=)` blanks may stand between the tokens `operator`, `(`, the operator, `)`"""
    if "(" not in n:
        return rname(rng, n)
    kw, op = n[:n.index("(")], n[n.index("(") + 1:-1]
    if rng.random() < 0.2:
        op = op.upper()
    r = rng.random()
    if r < 0.62:
        return f"{rcase(rng, kw)}({op})"
    if r < 0.8:
        return f"{rcase(rng, kw)} ({op})"
    if r < 0.9:
        return f"{rcase(rng, kw)}( {op} )"
    return f"{rcase(rng, kw)} ( {op} )"


ARRAY_SPECS = ["(2)", "(2)", "(2, 3)", "(2,3)", "( 2 )", "(0:1)", "(2,2, 2)"]


def spell_decl(rng, n, is_param, is_char, allow_init=True, deferred=False):
    """one entity-decl: object-name [(array-spec)] [lbracket coarray-spec rbracket] [* char-length] [initialization]"""
    t = rname(rng, n)
    r = rng.random()
    shape = None
    if deferred:
        if r < 0.5:
            t += gap(rng) + rng.choice(["(:)", "(:, :)", "( : )"])
    elif r < 0.45:
        shape = rng.choice(ARRAY_SPECS)
        t += gap(rng) + shape
    elif r < 0.52 and not is_param:
        t += gap(rng) + rng.choice(["[*]", "[ * ]", "[2, *]"])
        allow_init = False
    if is_char and rng.random() < 0.5:
        t += gap(rng) + "*" + gap(rng) + rng.choice(["4", "(4)", "( 4 )"])
    if is_param or (allow_init and not deferred and rng.random() < 0.25):
        if is_char:
            v = rng.choice(['"ab"', "'a,b'", '"x = y :: z"', "'(/'", '"private"'])
        elif shape is not None and shape.replace(" ", "") == "(2)":
            v = rng.choice(["[1, 2]", "(/ 1, 2 /)", "[ 1,2 ]", "0", "(/1,2/)"])
        elif shape is not None:
            v = rng.choice(["0", "1"])
        else:
            v = rng.choice(["1", "2 * 3", "-1", "max(1, 2)", "kind(1)"])
        t += gap(rng) + "=" + gap(rng) + v
    return t


def join_list(rng, items, cont_ok=True):
    """a comma-separated list; blanks around the commas; now and then continued on the next line"""
    out = ""
    for i, it in enumerate(items):
        if i:
            out += rng.choice(["", "", " "]) + ","
            if cont_ok and rng.random() < 0.06:
                out += " &\n      " + rng.choice(["", "& ", "&"])
            else:
                out += sp(rng)
        out += it
    return out


CHAR_TYPES = ["character(len=4)", "character(4)", "character*4", "character", "CHARACTER(LEN=4)", "character (len = 4)"]
NUM_TYPES = ["integer", "integer", "real", "real(kind=8)", "real (8)", "logical", "complex", "double precision",
             "integer(kind = 4)", "integer*4", "INTEGER", "Real", "type(c04_ext)", "TYPE (c04_ext)"]


def spell_var(rng, s):
    """(type-spec, entity list) of a type declaration statement"""
    names, attrs, is_param = s[1], s[2], s[3]
    deferred = any(a in ("allocatable", "pointer") for a in attrs)
    is_char = rng.random() < 0.2
    if is_param:
        ty = rng.choice(["character(len=*)", "character(*)", "character(len=4)"]) if is_char else \
            rng.choice(["integer", "integer", "INTEGER", "integer(kind=4)"])
    else:
        ty = rng.choice(CHAR_TYPES) if is_char else rng.choice(NUM_TYPES)
    if ty.lower().startswith("type") and (deferred or "protected" in attrs):
        pass
    decls = [spell_decl(rng, n, is_param, is_char, allow_init="type" not in ty.lower(), deferred=deferred) for n in names]
    return [ty, join_list(rng, decls)]


def split_top(t):
    """the items of a comma-separated list as written (commas inside parentheses / brackets do not separate;
    continuation marks are layout)"""
    t = re.sub(r"&\s*\n\s*&?", "", t)
    out, depth, cur = [], 0, ""
    for ch in t:
        if ch in "([":
            depth += 1
        elif ch in ")]":
            depth -= 1
        if ch == "," and depth == 0:
            out.append(cur)
            cur = ""
        else:
            cur += ch
    return out + [cur]


def decorate(rng, stmts):
    """the spelling of every name occurrence that reaches FORD's name keying; list parallel to `stmts`"""
    out = []
    for s in stmts:
        if s[0] == "var":
            out.append(spell_var(rng, s))
        elif s[0] == "access":
            out.append(join_list(rng, [spell_generic(rng, n) for n in s[2]]))
        elif s[0] == "iface" and s[1] == "generic":
            out.append(spell_generic(rng, s[2]))
        else:
            out.append(None)
    return out


def attr_word(rng, a):
    """spelling of one attribute of a declaration: access words in any case; a few others have variants"""
    if a in PCODE:
        return rcase(rng, a)
    if a == "dimension(2)":
        return rng.choice(["dimension(2)", "dimension(2, 3)", "DIMENSION( 2,3 )", "dimension (2)"])
    if a == "bind(c)":
        return rng.choice(["bind(c)", "bind(C)", "bind (c)"])
    if a == "extends(c04_base)":
        return rng.choice(["extends(c04_base)", "extends (c04_base)", "EXTENDS( c04_base )"])
    if a in ("save", "target", "abstract", "nopass", "non_overridable", "volatile", "asynchronous", "allocatable",
             "pointer", "contiguous"):
        return rcase(rng, a)
    return a


def attr_text(rng, attrs):
    return "".join(rng.choice(["", "", " "]) + "," + sp(rng) + attr_word(rng, a) for a in attrs) \
        + (rng.choice(["", " "]) if attrs else "")


COMP_TYPES = ["integer", "real", "real(8)", "logical", "character(len=4)", "type(c04_ext)", "INTEGER", "complex"]


def render_body(rng, body, tname, ind="    "):
    L = []
    for s in body:
        if s[0] == "bare":
            L.append(ind + rcase(rng, s[1]) + rng.choice(["", " "]))
        elif s[0] == "contains":
            L.append(ind[:-2] + rcase(rng, "contains"))
        elif s[0] == "comp":
            ty = rng.choice(COMP_TYPES)
            deferred = any(a in ("allocatable", "pointer") for a in s[2])
            is_char = ty.startswith("character")
            decls = [spell_decl(rng, n, False, is_char, allow_init=not ty.lower().startswith("type"), deferred=deferred)
                     for n in s[1]]
            names = join_list(rng, decls)
            if s[2] or "=" in names or rng.random() < 0.7:
                L.append(f"{ind}{ty}{attr_text(rng, s[2])}{sp(rng)}::{sp(rng)}{names}")
            else:
                L.append(f"{ind}{ty} {names}")
        elif s[0] == "bind":
            if s[1]:
                what = spell_generic(rng, s[2][0])
                L.append(f"{ind}{rcase(rng, 'generic')}{attr_text(rng, s[3])}{sp(rng)}::{sp(rng)}{what} => impl_{tname}")
            else:
                single = len(s[2]) == 1
                tgt = [rname(rng, n) + (f"{sp(rng)}=>{sp(rng)}impl_{tname}" if rng.random() < 0.5 or single else "") for n in s[2]]
                kw = rcase(rng, "procedure")
                if single and "=>" not in tgt[0] and rng.random() < 0.15:
                    # deferred binding with an interface name
                    kw += rng.choice(["(c04_aif)", " (c04_aif)"])
                    attrs = list(s[3])
                    attrs.insert(rng.randint(0, len(attrs)), "deferred")
                    L.append(f"{ind}{kw}{attr_text(rng, attrs)}{sp(rng)}::{sp(rng)}{tgt[0]}")
                    continue
                if s[3] or len(s[2]) > 1 or any("=>" in t for t in tgt) or rng.random() < 0.7:
                    dc = f"{sp(rng)}::{sp(rng)}"  # C772: `::` is required when `=> procedure-name` appears
                else:
                    dc = " "
                L.append(f"{ind}{kw}{attr_text(rng, s[3])}{dc}{join_list(rng, tgt, cont_ok=False)}")
        else:
            L.append(ind + s[1])
    return L


SUB_PREFIX = ["", "", "", "pure ", "recursive ", "elemental ", "impure elemental ", "PURE "]
FUN_PREFIX = ["", "", "", "pure ", "recursive ", "elemental ", "pure elemental ", "integer ", "real(kind=8) ",
              "pure integer ", "INTEGER "]


def render_sub(rng, ind, name, module=False, body=True, bind_name=True, fixed=False):
    """a subroutine (module procedure or interface body) in one of its legal spellings; `fixed`: interface body and
    implementation of a separate module procedure are written with the same characteristics (no random prefix)"""
    pre = ("" if fixed else rng.choice(SUB_PREFIX)) + (rcase(rng, "module") + " " if module else "")
    args = rng.choice(["(x)", " (x)", "( x )"])
    suffix = rng.choice(["", "", "", " bind(c)", f' bind(C, name="c_{name}")' if bind_name else " BIND(C)"]) \
        if not module and "elemental" not in pre else ""
    L = [f"{ind}{pre}{rcase(rng, 'subroutine')} {rname(rng, name)}{args}{suffix}", f"{ind}  integer{', intent(inout)' if pre.strip() else ''} :: x"]
    if body:
        L.append(f"{ind}  x = 1")
    L.append(ind + rng.choice(["end subroutine", f"end subroutine {name}", "END SUBROUTINE"]))
    return L


def render_fun(rng, ind, name, module=False, body=True, fixed=False):
    pre = ("" if fixed else rng.choice(FUN_PREFIX)) + (rcase(rng, "module") + " " if module else "")
    typed = any(w in pre.lower() for w in ("integer", "real"))
    args = rng.choice(["(x)", " (x)", "( x )"])
    if typed:
        L = [f"{ind}{pre}function {rname(rng, name)}{args}", f"{ind}  integer, intent(in) :: x"]
        if body:
            L.append(f"{ind}  {name} = x")
    else:
        res = rng.choice([" result(r)", " result (r)", " RESULT(r)"])
        suffix = rng.choice(["", "", " bind(c)"]) if not module and "elemental" not in pre else ""
        L = [f"{ind}{pre}{rcase(rng, 'function')} {rname(rng, name)}{args}{res}{suffix}", f"{ind}  integer, intent(in) :: x",
             f"{ind}  integer :: r"]
        if body:
            L.append(f"{ind}  r = x")
    L.append(ind + rng.choice(["end function", f"end function {name}", "END FUNCTION"]))
    return L


def is_mfunc(name):
    """separate module procedures: a function iff the name says so (interface body and implementation are rendered
    independently and must agree)"""
    return name.startswith("mf")


def render(rng, scope, name, stmts, parent="mparent", spell=None):
    if spell is None:
        spell = decorate(rng, stmts)
    L = []
    L.append(f"module {name}" if scope == "m" else f"submodule ({parent}) {name}")
    ind = "  "
    for s, spl in zip(stmts, spell):
        k = s[0]
        if k == "bare":
            L.append(ind + rcase(rng, s[1]))
        elif k == "access":
            w = rcase(rng, s[1]) if s[1] in PCODE else s[1]
            if rng.random() < 0.7:
                L.append(f"{ind}{w}{sp(rng)}::{sp(rng)}{spl}")
            else:
                L.append(f"{ind}{w} {spl}")
        elif k == "var":
            ty, decls = spl
            attrs = list(s[2])
            if s[3]:
                attrs.insert(rng.randint(0, len(attrs)), "parameter")
            if attrs or "=" in decls or rng.random() < 0.7:
                L.append(f"{ind}{ty}{attr_text(rng, attrs)}{sp(rng)}::{sp(rng)}{decls}")
            else:
                L.append(f"{ind}{ty} {decls}")
        elif k == "type":
            if s[2] or rng.random() < 0.6:
                L.append(f"{ind}{rcase(rng, 'type')}{attr_text(rng, s[2])}{sp(rng)}::{sp(rng)}{rname(rng, s[1])}")
            else:
                L.append(f"{ind}type {rname(rng, s[1])}")
            L += render_body(rng, s[3], s[1])
            L.append(ind + rng.choice(["end type", f"end type {s[1]}", "END TYPE"]))
        elif k == "iface":
            kind, iname, procs = s[1], s[2], s[3]
            if kind == "generic":
                L.append(f"{ind}{rcase(rng, 'interface')}{rng.choice([' ', ' ', '  '])}{spl}")
                for p in procs:
                    if p.startswith("mp_"):
                        L.append(f"{ind}  {rng.choice(['module procedure', 'module procedure', 'MODULE PROCEDURE', 'module procedure ::', 'procedure'])} {rname(rng, p[3:])}")
                    elif rng.random() < 0.6:
                        L += render_sub(rng, ind + "  ", p, body=False)
                    else:
                        L += render_fun(rng, ind + "  ", p, body=False)
                L.append(ind + rng.choice(["end interface", f"end interface {spl}", "END INTERFACE"]))
            else:
                L.append(ind + (rcase(rng, "abstract") + " " + rcase(rng, "interface") if kind == "abstract" else rcase(rng, "interface")))
                for p in procs:
                    if kind == "mplain":
                        # separate module procedure whose body stands in a submodule (or nowhere)
                        L += (render_fun if is_mfunc(p) else render_sub)(rng, ind + "  ", p, module=True, body=False, fixed=True)
                        continue
                    module = kind == "plain" and rng.random() < 0.25  # separate module procedure (F2008 15.6.2.5)
                    if rng.random() < 0.5:
                        L += render_sub(rng, ind + "  ", p, module=module, body=False, bind_name=kind != "abstract")
                    else:
                        L += render_fun(rng, ind + "  ", p, module=module, body=False)
                L.append(ind + "end interface")
        elif k == "proc":
            L += render_fun(rng, ind, s[2]) if s[1] else render_sub(rng, ind, s[2])
        elif k == "impl":
            if s[1] == "short":
                L.append(f"{ind}{rcase(rng, 'module')}{rng.choice([' ', ' ', '  '])}{rcase(rng, 'procedure')} {rname(rng, s[2])}")
                L.append(f"{ind}  {'r' if is_mfunc(s[2]) else 'x'} = {'x' if is_mfunc(s[2]) else '1'}")
                L.append(ind + rng.choice(["end procedure", f"end procedure {s[2]}", "END PROCEDURE"]))
            else:
                L += (render_fun if is_mfunc(s[2]) else render_sub)(rng, ind, s[2], module=True, fixed=True)
        elif k == "contains":
            L.append(rcase(rng, "contains"))
        else:
            L.append(ind + s[1])
    L.append(f"end module {name}" if scope == "m" else f"end submodule {name}")
    return "\n".join(L) + "\n"


# ---------------------------------------------------------------------------
# specification (written from the standard; independent of the Lean model)
# ---------------------------------------------------------------------------


def first_access(words):
    for w in words:
        if w in ("public", "private"):
            return w
    return None


def spec_module(scope, stmts):
    """expected permission of every entity of a legal program: {(cat, name): perm} plus
    components {("comp", type, name)} and bindings {("bind", type, name)}"""
    exp = {}
    default = "private" if ("bare", "private") in [tuple(s[:2]) for s in stmts if s[0] == "bare"] else "public"
    named = {}
    prot = set()
    for s in stmts:
        if s[0] == "access":
            for n in s[2]:
                if s[1] in ("public", "private"):
                    named.setdefault(n, s[1])
                elif s[1] == "protected":
                    prot.add(n)

    def access(name, attrs):
        if scope == "s":
            return "private"  # nothing in a submodule is accessible by use association
        a = first_access(attrs) or named.get(name) or default
        if a == "private":
            return "private"
        return "protected" if ("protected" in attrs or name in prot) else "public"

    types = {}
    for s in stmts:
        k = s[0]
        if k == "var":
            for n in s[1]:
                exp[("var", n)] = access(n, s[2])
        elif k == "type":
            exp[("type", s[1])] = access(s[1], s[2])
            types[s[1]] = exp[("type", s[1])]
            body = s[3]
            ci = [i for i, b in enumerate(body) if b[0] == "contains"]
            cpart = body[: ci[0]] if ci else body
            bpart = body[ci[0] + 1:] if ci else []
            cdef = "private" if ("bare", "private") in [tuple(b) for b in cpart if b[0] == "bare"] else "public"
            bdef = "private" if ("bare", "private") in [tuple(b) for b in bpart if b[0] == "bare"] else "public"
            for b in cpart:
                if b[0] == "comp":
                    for n in b[1]:
                        exp[("comp", s[1], n)] = first_access(b[2]) or cdef
            for b in bpart:
                if b[0] == "bind":
                    for n in (b[2][:1] if b[1] else b[2]):
                        exp[("bind", s[1], n)] = first_access(b[3]) or bdef
        elif k == "iface":
            if s[1] == "generic":
                exp[("iface", s[2])] = access(s[2], [])
                # an interface body declares the specific procedure as an entity of the module in its own right
                for p in s[3]:
                    exp[("spec", s[2], p)] = access(p, [])
            else:
                for p in s[3]:
                    exp[("absiface" if s[1] == "abstract" else "iface", p)] = access(p, [])
        elif k == "proc":
            exp[("func" if s[1] else "sub", s[2])] = access(s[2], [])
        elif k == "mproc":
            # the body of a separate module procedure; in a submodule: an entity of the submodule, not accessible
            # by use association whatever the accessibility of its interface in the ancestor module
            exp[("mproc", s[1])] = access(s[1], [])
    # a generic interface named like a type is the same identifier: one accessibility
    for key in list(exp):
        if key[0] == "iface" and key[1] in types:
            exp[key] = types[key[1]]
    return exp


def spec_exports(exp):
    """what the module makes accessible by use association: {(table, name): entity key} of every entity whose
    accessibility is not private (PROTECTED variables are accessible)"""
    out = {}
    allk = {}
    for key, perm in exp.items():
        tab = TAB_OF.get(key[0])
        if tab is None:
            continue
        name = key[-1]
        if perm != "private":
            out[(tab, name)] = key
        if allk.get((tab, name), ("",))[0] != "iface":
            allk[(tab, name)] = key  # a generic named like one of its specific procedures: the dict entry is the generic
    return out, allk


def legality(scope, stmts):
    """None when the program is legal w.r.t. the access rules, else the reason (correspondence only)."""
    bares = [s for s in stmts if s[0] == "bare"]
    if len(bares) > 1:
        return "more than one bare access statement"
    if any(b[1] == "protected" for b in bares):
        return "bare protected"
    if scope == "s" and (bares or any(s[0] == "access" for s in stmts)):
        return "access statement in a submodule"
    seen_contains = False
    count = {}
    declared = {}
    self_named = {s[2] for s in stmts if s[0] == "iface" and s[1] == "generic" and "mp_" + s[2] in s[3]}
    # separate module procedures whose interface body stands in this unit: the body may stand in its procedure part
    # (F2008 14.2.3: "in the module or a descendant submodule"); interface body and body are one entity
    sep_names = {p for s in stmts if s[0] == "iface" and s[1] == "mplain" for p in s[3]}
    for s in stmts:
        k = s[0]
        if k == "contains":
            if seen_contains:
                return "two contains"
            seen_contains = True
        elif k in ("bare", "access", "var", "type", "iface") and seen_contains:
            return "specification statement after contains"
        elif k in ("proc", "impl") and not seen_contains:
            return "procedure before contains"
        if k == "impl" and scope != "s" and s[2] not in sep_names:
            return "implementation of a separate module procedure in a module that does not declare its interface"
        if k == "access":
            if s[1] not in PCODE:
                continue
            for n in s[2]:
                if s[1] != "protected":
                    count[n] = count.get(n, 0) + 1
        names = []
        if k == "var":
            names = [("var", n, s[2]) for n in s[1]]
            if s[3] and "protected" in s[2]:
                return "protected parameter"
        elif k == "type":
            names = [("type", s[1], s[2])]
            if "protected" in s[2]:
                return "protected type"
            part = 0
            decl_seen = False
            for b in s[3]:
                if b[0] == "contains":
                    part += 1
                    decl_seen = False
                    if part > 1:
                        return "two contains in type"
                elif b[0] == "bare":
                    if decl_seen:
                        return "private statement after a component/binding"
                    if b[1] != "private":
                        return "bare public/protected in a type"
                    decl_seen = False
                elif b[0] == "comp":
                    if part:
                        return "component after contains"
                    decl_seen = True
                    if "protected" in b[2] or len([a for a in b[2] if a in PCODE]) > 1:
                        return "component attributes"
                elif b[0] == "bind":
                    if not part:
                        return "binding before contains"
                    decl_seen = True
                    if "protected" in b[3] or len([a for a in b[3] if a in PCODE]) > 1:
                        return "binding attributes"
            for part_stmts in (s[3],):
                bb = [b for b in part_stmts if b[0] == "bare"]
                # at most one private per part
                idx = [i for i, b in enumerate(part_stmts) if b[0] == "contains"]
                cut = idx[0] if idx else len(part_stmts)
                if len([b for b in part_stmts[:cut] if b[0] == "bare"]) > 1 or \
                        len([b for b in part_stmts[cut:] if b[0] == "bare"]) > 1:
                    return "two private statements in one part"
        elif k == "iface":
            names = ([("iface", s[2], [])] + [("spec", p, []) for p in s[3] if not p.startswith("mp_")]) \
                if s[1] == "generic" else [("x", p, []) for p in s[3]]
        elif k in ("proc", "impl"):
            names = [("proc", s[2], [])]
        for cat, n, attrs in names:
            if scope == "s" and any(a in PCODE for a in attrs):
                return "access attribute in a submodule"
            acc = [a for a in attrs if a in ("public", "private")]
            count[n] = count.get(n, 0) + len(acc)
            if len([a for a in attrs if a == "protected"]) > 1:
                return "protected twice"
            if n in declared and not ({declared[n], cat} == {"type", "iface"}) \
                    and not ({declared[n], cat} == {"proc", "iface"} and n in self_named) \
                    and not (k == "impl" and declared[n] == "x" and n in sep_names):
                return "name declared twice"
            declared[n] = cat
    for s in stmts:
        if s[0] == "access" and s[1] in PCODE:
            for n in s[2]:
                if n not in declared:
                    return "access statement names an undeclared entity"
                if s[1] == "protected" and declared[n] != "var":
                    return "protected non-variable"
    if any(c > 1 for c in count.values()):
        return "entity given an access-spec twice"
    return None


def default_at(stmts, pos):
    """the default FORD has in force when it constructs the entity of statement `pos` (last bare statement before it)"""
    d = "public"
    for s in stmts[:pos]:
        if s[0] == "bare":
            d = s[1]
    return d


def gspec_key(t):
    """the key FORD files / looks a generic-spec up under as the code stands: stripped and lower-cased"""
    return t.strip().lower()


def classify(scope, stmts, key, expected, observed, spell=None):
    """Known defect classes of the unchanged tree (decidable descriptions, see known_findings/C04.json).
    `stmts` is the model view of the program, `spell` its spelling (see `decorate`)."""
    if scope != "m":
        return None
    cat = key[0]
    if cat in ("comp", "bind"):
        return None
    name = key[-1]
    attrs = []
    pos = None
    if cat == "mproc":
        # short-form body (`module procedure f`) in the module that declares the interface of f: an object of its own
        # in `modprocedures`, a list process_attribs never walks - it keeps the default in force when it was parsed
        # (the procedure part comes after every bare statement: that default is the module's)
        named = [s[1] for s in stmts if s[0] == "access" and name in s[2] and s[1] in ("public", "private")]
        if named and "i" not in VARIANT and any(s[0] == "mproc" and s[1] == name for s in stmts) \
                and expected == named[0] and observed == default_at(stmts, len(stmts)) and observed != expected:
            return F_OWN_SHORT
        return None
    for i, s in enumerate(stmts):
        if s[0] == "var" and cat == "var" and name in s[1]:
            attrs, pos = s[2], i
        elif s[0] == "type" and cat == "type" and s[1] == name:
            attrs, pos = s[2], i
        elif s[0] == "iface" and cat == "spec" and s[1] == "generic" and s[2] == key[1] and name in s[3]:
            pos = i
        elif s[0] == "iface" and cat in ("iface", "absiface") and (s[2] == name if s[1] == "generic" else name in s[3]):
            pos = i
            # constructor interface: follows its type
            for t in stmts:
                if t[0] == "type" and t[1] == name and s[1] == "generic":
                    return classify(scope, stmts, ("type", name), expected, observed)
        elif s[0] == "proc" and cat in ("func", "sub") and s[2] == name:
            pos = i
    if pos is None:
        return None
    named = [s[1] for s in stmts if s[0] == "access" and name in s[2]]
    has_prot = "protected" in attrs or "protected" in named
    explicit = first_access(attrs) or first_access(named)
    late_private = any(s[0] == "bare" and s[1] == "private" for s in stmts[pos + 1:])
    if cat == "spec":
        # process_attribs never looks at the interface bodies of a generic interface: the specific procedure keeps
        # the default that was in force when the block was parsed
        if explicit is not None and expected == explicit and observed == default_at(stmts, pos) and not has_prot \
                and "s" not in VARIANT:
            return F_SPEC_STMT
        if explicit is None and late_private and expected == "private" and observed == "public":
            return F_LATE
        return None
    if cat == "iface" and "(" in name and explicit is not None and "g" not in VARIANT and spell is not None \
            and expected == explicit and observed == default_at(stmts, pos) and not has_prot:
        # operator(..) / assignment(=): the access statement and the interface statement space the tokens of the
        # generic-spec differently, so the two keys differ
        written = gspec_key(spell[pos])
        in_stmts = [gspec_key(t) for s, q in zip(stmts, spell) if s[0] == "access" and name in s[2]
                    for n, t in zip(s[2], split_top(q)) if n == name]
        if in_stmts and all(t != written for t in in_stmts) and all(canon(t) == canon(written) for t in in_stmts):
            return F_GSPEC
    if cat == "iface" and explicit is not None and "a" not in VARIANT and expected == explicit \
            and observed == default_at(stmts, pos) \
            and any(s[0] == "proc" and s[2] == name for s in stmts) \
            and any(s[0] == "iface" and s[1] == "generic" and s[2] == name and name in s[4] for s in stmts):
        # the module procedure of that name comes first in process_attribs, takes the statement and deletes it
        return F_SAME_NAME
    # PROTECTED and the accessibility share FORD's single permission value: the word processed last wins.  The
    # order of processing is part of the two classes: the attributes of the declaration in the order they are
    # written, then the attribute statements naming the variable in the order they stand in the module.  A
    # protected variable that comes out `protected` although the word processed last is `private` (or `public`
    # although it is `protected`) is *not* in either class.
    processed = [a for a in attrs if a in PCODE] + [w for w in named if w in PCODE]
    last = processed[-1] if processed else None
    if has_prot and expected == "private" and observed == "protected" and last == "protected":
        return F_PROT_PRIV
    if has_prot and explicit == "public" and expected == "protected" and observed == "public" and last == "public":
        return F_PROT_LOST
    if explicit is None and late_private and expected == "private" and observed in ("public", "protected"):
        return F_LATE
    return None


def classify_export(scope, stmts, tab, name, key, exp, got, spell=None):
    """class of a wrong entry of an export table.  The tables are filled from the permissions the entities have
    when `_cleanup` runs: (1) the permission itself is wrong (also after correlate) - the same defect, the same
    class; (2) the permission is right after correlate but was not yet when the tables were built - only the
    constructor idiom (an interface named like a type takes the type's permission in correlate)."""
    if scope != "m" or key is None:
        return None
    e, g = exp.get(key), got.get(key)
    if e is None or g is None:
        return None
    if e != g:
        return classify(scope, stmts, key, e, g, spell)
    if key[0] == "iface" and tab == "procs":
        for t in stmts:
            if t[0] == "type" and t[1] == name:
                named = [s[1] for s in stmts if s[0] == "access" and name in s[2]]
                if first_access(t[2]) is not None:
                    return None if "e" in VARIANT else F_CTOR_ATTR
                if first_access(named) is not None:
                    return None if ("e" in VARIANT or "a" in VARIANT) else F_CTOR_STMT
    return None


# ---------------------------------------------------------------------------
# generators
# ---------------------------------------------------------------------------


class Names:
    def __init__(self, rng):
        self.rng = rng
        self.n = 0
        self.last_generic = None
        self.ops = list(OPERATORS)
        rng.shuffle(self.ops)

    def new(self, prefix):
        self.n += 1
        return f"{prefix}{self.n}"

    def op(self):
        return self.ops.pop() if self.ops else None


def gen_generic_binding_name(rng, nm, binds):
    """a generic binding is named by an identifier or by a generic-spec (`generic :: operator(+) => add`)"""
    used = {b[2][0] for b in binds if b[0] == "bind"}
    free = [o for o in ("operator(+)", "operator(.x.)", "assignment(=)", "operator(==)", "operator(<)") if o not in used]
    if free and rng.random() < 0.3:
        return rng.choice(free)
    return nm.new("gb")


def gen_type_body(rng, nm, legal=True, target=None):
    """target = None | ("component"|"binding", default, position, attr)"""
    body = []
    cpriv = rng.random() < 0.35
    bpriv = rng.random() < 0.35
    tk = target[0] if target else None
    if tk == "component":
        cpriv = None
    if tk == "binding":
        bpriv = None
    comps = []
    for _ in range(rng.randint(0, 2)):
        a = rng.choice([[], [], ["public"], ["private"], ["pointer"], ["allocatable", "private"], ["private", "pointer"],
                        ["dimension(2)"], ["dimension(2)", "public"], ["private", "dimension(2)"]])
        a = list(a)
        comps.append(("comp", [nm.new("c") for _ in range(rng.choice([1, 1, 2]))], a))
    if tk == "component":
        tgt = ("comp", [nm.new("c")], [target[3]] if target[3] != "none" else [])
        comps.insert(rng.randint(0, len(comps)), tgt)
        d, where = target[1], target[2]
        if d != "none":
            if where == "early":
                comps.insert(0, ("bare", d))
            else:
                comps.append(("bare", d))
    elif cpriv:
        comps.insert(0, ("bare", "private"))
    body += comps
    binds = []
    if tk == "binding" or rng.random() < 0.6:
        for _ in range(rng.randint(0, 2)):
            a = list(rng.choice([[], [], ["public"], ["private"], ["nopass"], ["non_overridable", "private"], ["public", "nopass"],
                                 ["pass(x)"], ["private", "pass (x)"], ["pass(x)", "public"]]))
            if rng.random() < 0.2:
                binds.append(("bind", True, [gen_generic_binding_name(rng, nm, binds)], [x for x in a if x in PCODE]))
            else:
                binds.append(("bind", False, [nm.new("b") for _ in range(rng.choice([1, 1, 1, 2, 3]))], a))
        if tk == "binding":
            generic = rng.random() < 0.2
            tgt = ("bind", generic, [gen_generic_binding_name(rng, nm, binds) if generic else nm.new("b")],
                   [target[3]] if target[3] != "none" else [])
            binds.insert(rng.randint(0, len(binds)), tgt)
            d, where = target[1], target[2]
            if d != "none":
                if where == "early":
                    binds.insert(0, ("bare", d))
                else:
                    binds.append(("bare", d))
        elif bpriv:
            binds.insert(0, ("bare", "private"))
        body.append(("contains",))
        body += binds
    return body


def gen_decl(rng, nm, kind, attr="none", procs=None):
    """one declaration of the given kind (module level); returns (stmts for the specification part,
    stmts for the procedure part, entity name)"""
    a = [] if attr == "none" else [attr]
    extra = lambda pool: [rng.choice(pool)] if rng.random() < 0.3 else []
    if kind in ("variable", "parameter"):
        n = nm.new("v" if kind == "variable" else "p")
        attrs = a + (extra(["save", "target", "dimension(2)", "volatile", "asynchronous", "allocatable", "bind(c)"])
                     if kind == "variable" else [])
        rng.shuffle(attrs)
        names = [n] + ([nm.new("w")] if rng.random() < 0.25 else [])
        return [("var", names, attrs, kind == "parameter")], [], n
    if kind == "type":
        n = nm.new("t")
        attrs = a + extra(["bind(c)", "abstract", "extends(c04_base)"])
        rng.shuffle(attrs)
        return [("type", n, attrs, gen_type_body(rng, nm))], [("proc", False, f"impl_{n}")], n
    if kind in ("subroutine", "function"):
        n = nm.new("s" if kind == "subroutine" else "f")
        return [], [("proc", kind == "function", n)], n
    if kind in ("generic", "specific"):
        # a generic interface with 1-3 specific procedures: interface bodies (external procedures, entities of the
        # module in their own right) and/or `module procedure` references; kind "specific": the entity of interest
        # is one of the interface bodies
        n = nm.new("g")
        members, pr = [], []
        for _ in range(rng.choice([1, 1, 2, 3])):
            if rng.random() < 0.5:
                q = nm.new("sp")
                members.append("mp_" + q)
                pr.append(("proc", rng.random() < 0.3, q))
            else:
                members.append(nm.new("ext"))
        refs = [m[3:] for m in members if m.startswith("mp_")]
        if kind == "generic" and refs and rng.random() < 0.2:
            # a generic name may be the name of one of its specific procedures (F2018 15.4.3.4.1): one identifier,
            # one accessibility - an access statement naming it applies to the generic and to the procedure
            n = rng.choice(refs)
        nm.last_generic = n
        if kind == "specific":
            x = nm.new("x")
            members.insert(rng.randint(0, len(members)), x)
            return [("iface", "generic", n, members)], pr, x
        return [("iface", "generic", n, members)], pr, n
    if kind == "operator":
        n = nm.op()
        p = nm.new("fp")
        return [("iface", "generic", n, ["mp_" + p])], [("proc", True, p)], n
    if kind == "abstract":
        n = nm.new("a")
        procs = [n] + ([nm.new("a")] if rng.random() < 0.25 else [])
        return [("iface", "abstract", "", procs)], [], n
    if kind == "plain":
        n = nm.new("e")
        return [("iface", "plain", "", [n])], [], n
    if kind == "separate":
        # a separate module procedure (interface body with the MODULE prefix) whose body stands in the procedure part
        # of the module itself, in the long (`module subroutine n(..)`) or the short form (`module procedure n`);
        # the block may declare further separate module procedures (body here, or nowhere)
        names = [nm.new(rng.choice(["ms", "mf"])) for _ in range(rng.choice([1, 1, 2, 3]))]
        n = rng.choice(names)
        pr = [("impl", "long" if rng.random() < 0.6 else "short", m) for m in names if m == n or rng.random() < 0.5]
        return [("iface", "mplain", "", names)], pr, n
    raise ValueError(kind)


def strip_mp(stmts):
    """`mp_x` marks a `module procedure x` reference for the renderer; the abstract name is `x`"""
    return stmts


def model_view(stmts):
    out = []
    for s in stmts:
        if s[0] == "iface":
            out.append(("iface", s[1], s[2], [p for p in s[3] if not p.startswith("mp_")],
                        [p[3:] for p in s[3] if p.startswith("mp_")]))
        elif s[0] == "impl":
            # long form: an ordinary subroutine / function of the unit; short form: a statement of its own
            out.append(("proc", is_mfunc(s[2]), s[2]) if s[1] == "long" else ("mproc", s[2]))
        else:
            out.append(s)
    return out


OTHERS = ["implicit none", "save", "use iso_fortran_env", "integer, parameter :: dp_unused = 8"][:2]


def gen_context(rng, nm, n_items, default_private):
    """random legal declarations with legal access specs; returns (spec stmts, access stmts, proc stmts)"""
    spec, access, procs = [], [], []
    for _ in range(n_items):
        kind = rng.choice(["variable", "variable", "parameter", "type", "subroutine", "function", "generic",
                           "abstract", "operator", "plain", "specific", "separate"])
        attr = "none"
        stmt = None
        r = rng.random()
        if r < 0.3:
            if kind in ("variable", "parameter", "type"):
                attr = rng.choice(["public", "private"])
            else:
                stmt = rng.choice(["public", "private"])
        elif r < 0.45:
            stmt = rng.choice(["public", "private"])
        elif r < 0.55 and kind == "variable":
            attr = "protected"
            if rng.random() < 0.3:
                stmt = "private"
        elif r < 0.62 and kind == "variable":
            access.append(("access", "protected", ["@next"]))
            if rng.random() < 0.4:
                stmt = rng.choice(["public", "private"])
        if kind == "operator" and not nm.ops:
            kind = "generic"
        sp_, pr_, n = gen_decl(rng, nm, kind, attr)
        spec.append(sp_)
        procs += pr_
        access[:] = [(a[0], a[1], [n if x == "@next" else x for x in a[2]]) for a in access]
        if stmt:
            access.append(("access", stmt, [n]))
        if kind == "specific" and rng.random() < 0.5:
            # the generic the specific procedure belongs to gets an access statement of its own
            access.append(("access", rng.choice(["public", "private"]), [nm.last_generic]))
        if kind == "type" and rng.random() < 0.3:
            # constructor idiom: a generic interface named like the type (same identifier, same accessibility)
            p = nm.new("cf")
            spec.append([("iface", "generic", n, ["mp_" + p])])
            procs.append(("proc", True, p))
    return spec, access, procs


def assemble(rng, spec_groups, access, procs, bare, bare_pos, target_idx=None, stmt=None, stmt_pos=None):
    """lay a specification part out: declarations in order, access statements at random places
    (the target's statement before/after its declaration), the bare statement early or late."""
    items = [list(g) for g in spec_groups]
    seq = []
    for gi, g in enumerate(items):
        seq.append(("decl", gi, g))
    # random positions for the context access statements
    for a in access:
        seq.insert(rng.randint(0, len(seq)), ("acc", None, [a]))
    if stmt is not None:
        ti = [i for i, x in enumerate(seq) if x[0] == "decl" and x[1] == target_idx]
        if ti:
            ti = ti[0]
            pos = rng.randint(0, ti) if stmt_pos == "before" else rng.randint(ti + 1, len(seq))
        else:
            pos = rng.randint(0, len(seq))
        seq.insert(pos, ("acc", None, [stmt]))
    out = []
    if rng.random() < 0.6:
        out.append(("other", "implicit none"))
    if bare is not None and bare_pos == "early":
        out.append(("bare", bare))
    for x in seq:
        out += x[2]
    if bare is not None and bare_pos == "late":
        out.append(("bare", bare))
    if procs:
        out.append(("contains",))
        pr = list(procs)
        rng.shuffle(pr)
        out += pr
    return out


def gen_family(rng, want_short=False):
    """A module that declares separate module procedures (`module subroutine/function` interface bodies in a plain
    interface block, accessibility by module default or by access statement) and the submodules that implement
    them: a child, now and then a grandchild (`submodule (m:child) grandchild`), each with some declarations of its
    own and the bodies in the short (`module procedure f`) or the long form (`module subroutine f(...)`).
    Returns (module stmts, [(index of the parent submodule or None, submodule stmts)]); `want_short`: the last
    submodule holds at least one short-form body."""
    nm = Names(rng)
    bare = rng.choice([None, None, "public", "private", "private"])
    spec, access, procs = gen_context(rng, nm, rng.randint(0, 2), bare == "private")
    names = [nm.new(rng.choice(["ms", "mf"])) for _ in range(rng.choice([1, 2, 2, 3, 4]))]
    for n in names:
        r = rng.random()
        if r < 0.45:
            access.append(("access", "public" if bare == "private" or rng.random() < 0.5 else "private", [n]))
    if len(names) > 1 and rng.random() < 0.3:
        cut = rng.randint(1, len(names) - 1)
        groups = [[("iface", "mplain", "", names[:cut])], [("iface", "mplain", "", names[cut:])]]
    else:
        groups = [[("iface", "mplain", "", list(names))]]
    for g in groups:
        spec.insert(rng.randint(0, len(spec)), g)
    # some of the bodies stand in the module itself (legal: "in the module or a descendant submodule")
    own = []
    if rng.random() < 0.45:
        pool = list(names) if (len(names) == 1 and not want_short) else names[:-1]
        own = [n for n in pool if rng.random() < 0.6]
    procs += [("impl", "long" if rng.random() < 0.6 else "short", n) for n in own]
    module = assemble(rng, spec, access, procs, bare, rng.choice(["early", "early", "late"]) if bare else "early")
    todo = [n for n in names if n not in own]
    rng.shuffle(todo)
    subs = []
    n_sub = 2 if rng.random() < 0.35 else 1
    for k in range(n_sub):
        snm = Names(rng)
        snm.n = 100 * (k + 1)  # names of a submodule differ from those of its ancestors (no shadowing games here)
        sspec, sprocs = [], []
        for _ in range(rng.randint(0, 2)):
            sp_, pr_, _n = gen_decl(rng, snm, rng.choice(["variable", "type", "subroutine", "function", "generic", "abstract"]))
            sspec.append(sp_)
            sprocs += pr_
        # every separate module procedure gets at most one body; the last submodule at least one
        take = todo if k == n_sub - 1 else todo[: rng.randint(0, max(0, len(todo) - 1))]
        todo = todo[len(take):]
        if rng.random() < 0.25 and k == n_sub - 1 and len(take) > 1:
            take = take[:-1]  # an interface without a body is fine for a documentation tool
        impls = [("impl", "short" if rng.random() < 0.6 else "long", n) for n in take]
        if want_short and k == n_sub - 1 and impls and not any(i[1] == "short" for i in impls):
            impls[0] = ("impl", "short", impls[0][2])
        sprocs += impls
        subs.append((None if k == 0 else k - 1, assemble(rng, sspec, [], sprocs, None, None)))
    return module, subs


def table_cells():
    for d, a, s, k in itertools.product(
            ["none", "public-early", "public-late", "private-early", "private-late"],
            ["none", "public", "private", "protected"],
            ["none", "public-before", "public-after", "private-before", "private-after"],
            KINDS):
        # cells that cannot be written down at all
        if a in ("public", "private") and k in ("subroutine", "function", "generic", "abstract", "operator", "specific",
                                                "separate"):
            continue  # no place for an attribute on these declarations
        if a == "protected" and k != "variable":
            continue  # PROTECTED is an attribute of variables only
        if k in ("component", "binding") and s != "none":
            continue  # access statements cannot name components / bindings
        if k in ("component", "binding") and d.startswith("public"):
            continue  # a type body has no `public` statement
        if k in ("subroutine", "function") and s.endswith("after"):
            continue  # module procedures are declared after CONTAINS, access statements before
        yield d, a, s, k
    for k in KINDS + ["implementation"]:
        if k == "separate":
            continue  # body in the unit of its interface: a submodule's case is `implementation`
        yield "submodule", "none", "none", k


def gen_table_case(rng, cell):
    d, a, s, k = cell
    nm = Names(rng)
    scope = "m"
    if d == "submodule" and k == "implementation":
        # the body of a separate module procedure in a submodule; the interface body stands in the ancestor module
        module, subs = gen_family(rng, want_short=rng.random() < 0.7)
        return "family", module, subs
    if d == "submodule":
        scope = "s"
        spec, access, procs = [], [], []
        for _ in range(rng.randint(0, 2)):
            sp_, pr_, _n = gen_decl(rng, nm, rng.choice(["variable", "type", "subroutine", "function", "generic", "abstract",
                                                         "specific"]))
            spec.append(sp_)
            procs += pr_
        if k in ("component", "binding"):
            n = nm.new("t")
            tgt = [("type", n, [], gen_type_body(rng, nm, target=(k, "none", "early", "none")))]
            procs.append(("proc", False, f"impl_{n}"))
        else:
            tgt, pr_, n = gen_decl(rng, nm, k)
            procs += pr_
        spec.insert(rng.randint(0, len(spec)), tgt)
        return scope, assemble(rng, spec, [], procs, None, None)
    bare, bare_pos = (None, None) if d == "none" else d.split("-")
    spec, access, procs = gen_context(rng, nm, rng.randint(1, 4), bare == "private")
    stmt = None
    stmt_pos = None
    if k in ("component", "binding"):
        # the cell's default / attribute are those of the type part; the module around it is random
        n = nm.new("t")
        tattr = rng.choice([[], [], ["public"], ["private"]])
        tgt = [("type", n, list(tattr), gen_type_body(rng, nm, target=(k, bare or "none", bare_pos, a)))]
        procs.append(("proc", False, f"impl_{n}"))
        mb = rng.choice([None, None, "private", "public"])
        mpos = rng.choice(["early", "late"])
        idx = rng.randint(0, len(spec))
        spec.insert(idx, tgt)
        return scope, assemble(rng, spec, access, procs, mb, mpos)
    tgt, pr_, n = gen_decl(rng, nm, k, a)
    procs += pr_
    if k == "specific" and rng.random() < 0.6:
        # an access statement that names only the generic: it must not reach the specific procedure
        access.append(("access", rng.choice(["public", "private"]), [nm.last_generic]))
    idx = rng.randint(0, len(spec))
    spec.insert(idx, tgt)
    if s != "none":
        w, stmt_pos = s.split("-")
        others = []
        stmt = ("access", w, [n])
    if not tgt:
        # procedures: the declaration is in the procedure part; the statement is anywhere in the specification part
        idx = None
    # target index after insertion: groups are addressed by position
    return scope, assemble(rng, spec, access, procs, bare, bare_pos, target_idx=idx, stmt=stmt, stmt_pos=stmt_pos)


def gen_wild_case(rng):
    if rng.random() < 0.05:
        module, subs = gen_family(rng)
        return "family", module, subs
    nm = Names(rng)
    scope = "s" if rng.random() < 0.12 else "m"
    stmts = []
    names = []
    procs = []
    n_items = rng.randint(1, 6)
    for _ in range(n_items):
        r = rng.random()
        if r < 0.18:
            stmts.append(("bare", rng.choice(["public", "private", "private", "protected"])))
        elif r < 0.4 and names:
            k = rng.randint(1, min(3, len(names)))
            word = rng.choice(["public", "private", "private", "protected", "save", "target"])
            pool = names
            if word not in PCODE:
                # `save :: x` on a non-variable makes process_attribs raise (no `attribs` list): outside C04
                pool = [n for n in names if n[0] in "vw"]
                if not pool:
                    continue
                k = min(k, len(pool))
            stmts.append(("access", word, rng.sample(pool, k) + ([nm.new("undecl")] if rng.random() < 0.15 else [])))
        else:
            kind = rng.choice(["variable", "variable", "parameter", "type", "generic", "abstract", "operator", "plain",
                               "subroutine", "function", "ctor", "specific", "separate"])
            if kind == "operator" and not nm.ops:
                kind = "generic"
            if kind == "ctor":
                types = [s for s in stmts if s[0] == "type"]
                if not types:
                    continue
                t = rng.choice(types)
                if any(s[0] == "iface" and s[2] == t[1] for s in stmts):
                    continue
                p = nm.new("cf")
                stmts.append(("iface", "generic", t[1], ["mp_" + p]))
                procs.append(("proc", True, p))
                continue
            sp_, pr_, n = gen_decl(rng, nm, kind)
            # arbitrary attribute words (several, any order) where the syntax has a place for them
            out = []
            for s in sp_:
                if s[0] == "var":
                    extra = [rng.choice(["public", "private", "protected", "save"]) for _ in range(rng.choice([0, 0, 1, 1, 2, 3]))]
                    s = ("var", s[1], list(s[2]) + extra, s[3])
                elif s[0] == "type":
                    extra = [rng.choice(["public", "private", "abstract"]) for _ in range(rng.choice([0, 0, 1, 2]))]
                    body = list(s[3])
                    # illegal placements inside the type: late private, components after contains
                    if rng.random() < 0.3:
                        body.insert(rng.randint(0, len(body)), ("bare", rng.choice(["private", "public", "protected"])))
                    if rng.random() < 0.15:
                        body.append(("comp", [nm.new("c")], [rng.choice(["public", "private", "protected"])] if rng.random() < 0.5 else []))
                    s = ("type", s[1], list(s[2]) + extra, body)
                out.append(s)
            stmts += out
            procs += pr_
            names.append(n)
            names += [x for s in out if s[0] == "var" for x in s[1][1:]]
            if kind in ("generic", "specific"):
                # the generic and (some of) its interface bodies can be named in access statements too
                names += [x for s in out if s[0] == "iface" for x in [s[2]] + list(s[3])
                          if x != n and not x.startswith("mp_") and rng.random() < 0.5]
    # late access statements too
    if names and rng.random() < 0.5:
        stmts.append(("access", rng.choice(["public", "private", "protected"]), rng.sample(names, 1)))
    if rng.random() < 0.3:
        stmts.append(("bare", rng.choice(["public", "private"])))
    if procs:
        stmts.append(("contains",))
        rng.shuffle(procs)
        stmts += procs
    # procedures named in access statements
    pn = [p[2] for p in procs]
    if pn and rng.random() < 0.5:
        ci = stmts.index(("contains",))
        stmts.insert(rng.randint(0, ci), ("access", rng.choice(["public", "private"]), rng.sample(pn, 1)))
    return scope, stmts


# ---------------------------------------------------------------------------
# implementation side
# ---------------------------------------------------------------------------


def canon(n):
    """canonical form of an observed name.  A generic-spec (`operator (+)`, `ASSIGNMENT( = )`) is the same
    identifier however its tokens are spaced: blanks are not part of the observation.  Ordinary names are left
    exactly as FORD reports them (lower-cased by the caller) - a blank in one of them is a difference."""
    return "".join(n.split()) if "(" in n else n


def ident(n):
    """the Fortran identifier a reported name stands for (the property oracle identifies entities by it, so that
    a name FORD reports with stray characters still meets the accessibility Fortran gives that entity)"""
    if "(" in n and n.lstrip()[:1].isalpha() and n.lstrip().lower().startswith(("operator", "assignment", "read", "write")):
        return canon(n)
    m = re.match(r"\s*(\w+)", n)
    return m.group(1) if m else n


def observe_unit(m):
    """canonical observation of one parsed module / submodule: sorted list of tuples"""
    obs = []
    dyn_bad = []
    for v in m.variables:
        obs.append(("E", "var", v.name.lower(), v.permission, "-"))
    for t in m.types:
        obs.append(("E", "type", t.name.lower(), t.permission, "-"))
        for c in getattr(t, "local_variables", t.variables):
            obs.append(("C", t.name.lower(), c.name.lower(), c.permission))
        for b in t.boundprocs:
            obs.append(("N", t.name.lower(), canon(b.name.lower()), b.permission))
    # after correlate a submodule keeps the long-form bodies of separate module procedures (`module subroutine f`)
    # in lists of their own
    for f in list(m.functions) + list(getattr(m, "modfunctions", [])):
        obs.append(("E", "func", f.name.lower(), f.permission, "-"))
    for f in list(m.subroutines) + list(getattr(m, "modsubroutines", [])):
        obs.append(("E", "sub", f.name.lower(), f.permission, "-"))
    # ... and the short-form bodies (`module procedure f ... end procedure`)
    for f in getattr(m, "modprocedures", []):
        obs.append(("M", f.name.lower(), f.permission))
    for cat, lst in (("iface", m.interfaces), ("absiface", m.absinterfaces)):
        for i in lst:
            wrapper = hasattr(i, "procedure") and not getattr(i, "generic", False)
            obs.append(("E", cat, canon(i.name.lower()), i.permission, "w" if wrapper else "-"))
            if wrapper:
                if i.procedure.permission != i.permission:
                    dyn_bad.append((cat, i.name.lower(), i.permission, i.procedure.permission))
            else:
                # interface bodies: procedures, shown with their own `permission` on the interface's page and
                # exported under their own name; `module procedure` references: their stored value is never shown
                for r in i.routines:
                    obs.append(("P", canon(i.name.lower()), r.name.lower(), r.permission))
                for r in i.modprocs:
                    obs.append(("R", canon(i.name.lower()), r.name.lower(), r.permission))
    pl = sorted(canon(x.lower()) for x in getattr(m, "public_list", []))
    xp = sorted((tab, canon(k.lower())) for tab, attr in TABS for k in getattr(m, attr, {}))
    return sorted(obs), pl, dyn_bad, xp


def parse_model(fields):
    obs, pl, xp = [], [], []
    for f in fields:
        p = f.split(":")
        if p[0] == "E":
            obs.append(("E", p[1], canon(p[2]), p[3], p[4]))
        elif p[0] in ("C", "N", "P", "R"):
            obs.append((p[0], canon(p[1]), p[2], p[3]))
        elif p[0] == "M":
            obs.append(("M", p[1], p[2]))
        elif p[0] == "L":
            pl.append(canon(p[1]))
        elif p[0] == "X":
            xp.append((p[1], canon(p[2])))
    return sorted(obs), sorted(pl), sorted(xp)


def parse_model_page(fields):
    """the `Z:` lines of the model = the places of the module page with a visibility word, in the vocabulary of
    `c04_pages.page_words` (the page cannot tell a procedure declared under a generic interface from one referenced
    there: both are `member`)"""
    out = []
    for f in fields:
        p = f.split(":")
        if p[0] == "Z":
            kind = "member" if p[1] == "ref" else p[1]
            out.append((kind, canon(p[2]), canon(p[3]), p[4]))
    return sorted(out)


def run_pages(ford, d: Path, sample):
    """sample: list of (unit name, text) of modules.  Real parse + correlate, then the real module page of every unit
    rendered in-process; returns {unit name: page_words} and the log"""
    import shutil
    import ford.sourceform as sf
    from ford.fortran_project import Project
    from ford.settings import ProjectSettings
    from .c04_pages import Renderer, page_words

    src = d / "pagesrc"
    if src.exists():
        shutil.rmtree(src)
    src.mkdir(parents=True)
    for name, text in sample:
        (src / f"{name}.f90").write_text(text)
    sf.namelist = sf.NameSelector()
    settings = ProjectSettings(src_dir=[src], output_dir=d / "doc", display=["public", "private", "protected"], dbg=True,
                               preprocess=False, graph=False, search=False, warn=False, quiet=True, incl_src=False)
    settings.project_url = str(d / "doc")
    out = {}
    with common.quiet() as buf:
        project = Project(settings)
        project.correlate()
        rnd = Renderer(settings, project)
        for m in project.modules:
            try:
                out[m.name.lower()] = page_words(rnd.module_page(m))
            except Exception as e:  # a page that cannot be rendered is an observation too
                out[m.name.lower()] = f"{type(e).__name__}: {e}"
    shutil.rmtree(src)
    return out, buf.getvalue()


PAGE_KEY = {"var": "var", "type": "type", "generic": "iface", "wrapper": "iface", "absiface": "absiface", "func": "func",
            "sub": "sub", "mproc": "mproc"}


def page_entity(line, exp):
    """the entity (key of `spec_module`) a place of the module page belongs to"""
    kind, owner, name, _ = line
    owner, name = ident(owner), ident(name)
    if kind in ("comp", "bind"):
        return (kind, owner, name)
    if kind == "member":
        if ("spec", owner, name) in exp:
            return ("spec", owner, name)
        return ("func", name) if ("func", name) in exp else ("sub", name)
    return (PAGE_KEY[kind], name)


PROBE_SAME = """module c04probe_1
  private
  public :: s
  interface s
    module procedure s
  end interface s
contains
  subroutine s(x)
    integer :: x
    x = 1
  end subroutine s
end module c04probe_1
"""
PROBE_SPEC = """module c04probe_3
  private
  public :: x1
  interface g
    subroutine x1(a)
      integer :: a
    end subroutine x1
  end interface g
end module c04probe_3
"""
PROBE_CTOR = """module c04probe_2
  type, private :: t
    integer :: c
  end type t
  interface t
    module procedure f
  end interface t
contains
  function f() result(r)
    type(t) :: r
    r%c = 1
  end function f
end module c04probe_2
"""


PROBE_GSPEC = """module c04probe_4
  private
  public :: operator (+)
  interface operator(+)
    module procedure f
  end interface
contains
  function f(a, b) result(r)
    integer, intent(in) :: a, b
    integer :: r
    r = a + b
  end function f
end module c04probe_4
"""


PROBE_OWN_SHORT = """module c04probe_5
  private
  public :: f
  interface
    module subroutine f(x)
      integer :: x
    end subroutine f
  end interface
contains
  module procedure f
    x = 1
  end procedure f
end module c04probe_5
"""


def probe_variant(ford, d: Path):
    """Which of the two places where a candidate repair changes the mechanism does the code under test have?
    Decided on the real code (parse only, no correlate):
      * `private` + `public :: s` + generic interface s + its specific module procedure s (legal: a generic name
        may be the name of one of its specific procedures): does the interface see the access statement too
        ('a': attr_dict entry forgotten after the loop) or only the first entity of that name, the subroutine
        ('p': per entity, the code as it is);
      * `type, private :: t` + interface t in a default-public module: is the constructor already private when the
        export tables are built ('e') or only after correlate ('')?
      * `private` + `public :: x1` + interface g with the interface body x1: does process_attribs hand the statement
        to the specific procedure ('s') or not ('')?
      * `private` + `public :: operator (+)` + `interface operator(+)`: is a generic-spec the same key however its
        tokens are spaced ('g') or only when both are written alike ('')?
      * `private` + `public :: f` + interface body `module subroutine f` + the body `module procedure f` in the same
        module: does the access statement reach the short-form body ('i') or does it keep the module default ('')?
    Returns (variant string, problem or None)."""
    import shutil
    import ford.sourceform as sf
    from ford.fortran_project import Project
    from ford.settings import ProjectSettings

    src = d / "probe"
    src.mkdir(parents=True, exist_ok=True)
    (src / "p1.f90").write_text(PROBE_SAME)
    (src / "p2.f90").write_text(PROBE_CTOR)
    (src / "p3.f90").write_text(PROBE_SPEC)
    (src / "p4.f90").write_text(PROBE_GSPEC)
    (src / "p5.f90").write_text(PROBE_OWN_SHORT)
    sf.namelist = sf.NameSelector()
    settings = ProjectSettings(src_dir=[src], display=["public", "private", "protected"], dbg=True,
                               preprocess=False, graph=False, search=False, warn=False)
    with common.quiet():
        project = Project(settings)
    mods = {m.name.lower(): m for m in project.modules}
    shutil.rmtree(src)
    m1, m2 = mods["c04probe_1"], mods["c04probe_2"]
    problem = None
    s1, i1 = m1.subroutines[0].permission, m1.interfaces[0].permission
    if (s1, i1) == ("public", "private"):
        v = "p"
    elif (s1, i1) == ("public", "public"):
        v = "a"
    else:
        v = "p"
        problem = (f"probe 1 (`private`, `public :: s`, interface s, subroutine s): subroutine {s1}, interface {i1} "
                   "after process_attribs - neither the per-entity nor the after-loop deletion order")
    if m2.types[0].permission != "private":
        problem = f"probe 2 (`type, private :: t`): type is {m2.types[0].permission}"
    if "t" not in m2.pub_procs:
        v += "e"
    m3 = mods["c04probe_3"]
    x1 = [r.permission for i in m3.interfaces for r in i.routines]
    if x1 == ["public"]:
        v += "s"
    elif x1 != ["private"]:
        problem = f"probe 3 (`private`, `public :: x1`, interface g with body x1): specific procedure reports {x1}"
    g4 = [i.permission for i in mods["c04probe_4"].interfaces]
    if g4 == ["public"]:
        v += "g"
    elif g4 != ["private"]:
        problem = f"probe 4 (`private`, `public :: operator (+)`, `interface operator(+)`): interface reports {g4}"
    b5 = [b.permission for b in getattr(mods["c04probe_5"], "modprocedures", [])]
    if b5 == ["public"]:
        v += "i"
    elif b5 != ["private"]:
        problem = f"probe 5 (`private`, `public :: f`, `module subroutine f` interface, `module procedure f` body): body reports {b5}"
    return v, problem


def run_impl(ford, d: Path, cases):
    """cases: list of (unit name, text).  One FORD project per chunk; returns {unit name: unit object}"""
    import ford.sourceform as sf
    from ford.fortran_project import Project
    from ford.settings import ProjectSettings

    src = d / "src"
    if src.exists():
        import shutil
        shutil.rmtree(src)
    src.mkdir(parents=True)
    (src / "mparent.f90").write_text("module mparent\nend module mparent\n")
    # several program units in one file (every third file holds two or three): the state of one unit - default
    # accessibility, pending access statements - must not reach the next one
    group = []
    for k, (name, text) in enumerate(cases):
        group.append((name, text))
        if k % 7 in (0, 1, 3, 4) and k + 1 < len(cases):
            continue
        (src / f"{group[0][0]}.f90").write_text("\n".join(t for _, t in group))
        group = []
    if group:
        (src / f"{group[0][0]}.f90").write_text("\n".join(t for _, t in group))
    sf.namelist = sf.NameSelector()
    settings = ProjectSettings(src_dir=[src], display=["public", "private", "protected"], dbg=True,
                               preprocess=False, graph=False, search=False, warn=False)
    with common.quiet() as buf:
        project = Project(settings)
        project.correlate()
    units = {}
    for m in list(project.modules) + list(project.submodules):
        units[m.name.lower()] = m
    return units, buf.getvalue()


# ---------------------------------------------------------------------------


def add_units(cases, stream, cell, gen):
    """append what a generator returned: one unit `(scope, stmts)`, or a family `("family", module, subs)` - the
    module and every submodule become cases of their own, a submodule knows its ancestors (`anc`: indices of the
    ancestor module and, for a grandchild, of its parent submodule)"""
    if gen[0] != "family":
        cases.append({"stream": stream, "cell": cell, "scope": gen[0], "stmts": gen[1], "anc": []})
        return
    _, module, subs = gen
    mi = len(cases)
    cases.append({"stream": "family", "cell": None, "scope": "m", "stmts": module, "anc": []})
    idx = []
    for k, (par, st) in enumerate(subs):
        anc = [mi] + ([idx[par]] if par is not None else [])
        cases.append({"stream": stream if k == len(subs) - 1 else "family", "cell": cell if k == len(subs) - 1 else None,
                      "scope": "s", "stmts": st, "anc": anc})
        idx.append(len(cases) - 1)


def run(tier: str, seed: int, replay: str | None = None) -> int:
    from translate import c04 as tr

    rep = Report(PROP, tier, seed)
    table = {}

    def translate():
        table.update(tr.translate())

    lean = lean_prove(PROP, translate=translate, thorough=(tier == "thorough"))
    for b in lean.broken():
        rep.tie_broken("proof: " + b)
    ford = common.import_ford()
    rng = random.Random(seed * 104729 + 4)
    drv = Driver()
    reps = 6 if tier == "quick" else 24
    n_wild = 3000 if tier == "quick" else 30000

    cells = list(table_cells())
    cases = []  # dicts: stream, cell, scope, stmts, anc, (spell), text, name
    for cell in cells:
        for r in range(reps):
            add_units(cases, "table", cell, gen_table_case(rng, cell))
    for _ in range(n_wild):
        add_units(cases, "wild", None, gen_wild_case(rng))
    if replay:
        import json
        data = json.loads(Path(replay).read_text())
        cases = []
        for c in data.get("cases", []) + data.get("first_disagreements", []):
            if "stmts" not in c:
                continue
            anc = []
            for a_ in c.get("ancestors", []):
                cases.append({"stream": "replay-ancestor", "cell": None, "scope": a_["scope"], "stmts": _untuple(a_["stmts"]),
                              "anc": list(anc), "spell": a_.get("spell")})
                anc.append(len(cases) - 1)
            cases.append({"stream": c.get("stream", "replay"), "cell": tuple(c["cell"]) if c.get("cell") else None,
                          "scope": c["scope"], "stmts": _untuple(c["stmts"]), "anc": anc, "spell": c.get("spell")})
    for k, c in enumerate(cases):
        c["name"] = f"u{k}"
        if not c.get("spell") or len(c["spell"]) != len(c["stmts"]):
            c["spell"] = decorate(rng, c["stmts"])
        parent = ":".join(cases[i]["name"] for i in c["anc"]) if c["anc"] else "mparent"
        c["text"] = render(rng, c["scope"], c["name"], c["stmts"], parent=parent, spell=c["spell"])

    # which variant of the mechanism does the code under test have? (probe of the real code)
    global VARIANT
    with common.scratch_dir() as d0:
        try:
            VARIANT, problem = probe_variant(ford, Path(d0))
        except Exception as e:  # the probe modules could not be parsed
            VARIANT, problem = "p", f"probe failed: {type(e).__name__}: {e}"
    if problem:
        rep.tie_broken("variant probe: " + problem)
    if table and bool(table.get("specLoopInSource")) != ("s" in VARIANT):
        rep.tie_broken(f"variant probe: process_attribs {'has' if table.get('specLoopInSource') else 'has no'} loop over the "
                       f"interface bodies of generic interfaces in the source, but the probe found the specific procedure "
                       f"{'reached' if 's' in VARIANT else 'not reached'} by the access statement")

    if table and table.get("delAfterLoopInSource") is not None and bool(table["delAfterLoopInSource"]) != ("a" in VARIANT):
        rep.tie_broken(f"variant probe: process_attribs was seen to forget the names of its first loop "
                       f"{'after the loop' if table['delAfterLoopInSource'] else 'entity by entity'}, but the probe with two "
                       f"entities of one name behaves like the {'after-loop' if 'a' in VARIANT else 'per-entity'} deletion")

    # model: units without ancestors first; a submodule of a family is run with the interface bodies its ancestor
    # module makes visible (`H:` fields, taken from the model's own result for that module)
    def request(c, host=()):
        return ["c04.run", VARIANT, c["scope"]] + [f"H:{n}:{PCODE[p_]}" for n, p_ in host] \
            + [enc_stmt(s_, q) for s_, q in zip(model_view(c["stmts"]), c["spell"])]

    model = [None] * len(cases)
    first = [k for k, c in enumerate(cases) if not c["anc"]]
    for k, mo in zip(first, drv.batch([request(cases[k]) for k in first])):
        model[k] = mo
    second = [k for k, c in enumerate(cases) if c["anc"]]
    hosts = {}
    for k in second:
        m0 = cases[k]["anc"][0]
        if m0 not in hosts:
            hosts[m0] = [(f.split(":")[2], f.split(":")[3]) for f in (model[m0] or [])[1:]
                         if f.startswith("E:iface:") and f.endswith(":w")] if model[m0] and model[m0][0] == "ok" else []
    for k, mo in zip(second, drv.batch([request(cases[k], hosts[cases[k]["anc"][0]]) for k in second])):
        model[k] = mo

    hist_spell: dict[str, int] = {}

    def count(k, on=True):
        if on:
            hist_spell[k] = hist_spell.get(k, 0) + 1

    for c in cases:
        for st, q in zip(c["stmts"], c["spell"]):
            if st[0] == "var":
                for dcl in split_top(q[1]):
                    count("entity-decls")
                    count("entity-decl: blank between name and array-spec / coarray-spec / char-length",
                          re.search(r"\w\s+[(\[*]", dcl) is not None)
                    count("entity-decl: array-spec", re.match(r"\s*\w+\s*\(", dcl) is not None)
                    count("entity-decl: coarray-spec", "[" in dcl.split("=")[0])
                    count("entity-decl: char-length", "*" in dcl.split("=")[0])
                    count("entity-decl: initialisation", "=" in dcl)
                    count("entity-decl: name not in lower case", re.match(r"\s*\w+", dcl).group(0).strip() !=
                          re.match(r"\s*\w+", dcl).group(0).strip().lower())
                count("entity list continued on the next line", "&" in q[1])
            elif st[0] == "access":
                count("attribute statements")
                count("access-statement name list continued on the next line", "&" in q)
                count("access-statement name with a blank before the comma", re.search(r"\s,", q) is not None)
                count("access statement naming a generic-spec with blanks between its tokens",
                      any("(" in t and canon(t.strip()) != t.strip() for t in split_top(q)))
            elif st[0] == "iface" and st[1] == "generic" and "(" in q:
                count("interface statement with blanks inside the generic-spec", canon(q) != q)
    hist_cells: dict[str, int] = {}
    hist_kinds: dict[str, int] = {}
    hist_legal: dict[str, int] = {}
    distinct = set()
    samples = []
    n_corr_bad = n_oracle_fail = n_entities = n_legal = n_exports = n_specifics = n_impls = 0
    hist_impl: dict[str, int] = {}
    spec_reqs = []
    spec_exp = []
    with common.scratch_dir() as d:
        CH = 400
        # one FORD project per chunk; a family (module + its submodules, consecutive cases) is never split
        bounds = [0]
        for k in range(1, len(cases)):
            if k - bounds[-1] >= CH and not cases[k]["anc"]:
                bounds.append(k)
        bounds.append(len(cases))
        for lo, hi in zip(bounds, bounds[1:]):
            chunk = cases[lo:hi]
            units, log = run_impl(ford, d, [(c["name"], c["text"]) for c in chunk])
            for c, mo in zip(chunk, model[lo:hi]):
                stream, cell, scope, stmts, text, name, spell = (c[x] for x in ("stream", "cell", "scope", "stmts", "text", "name", "spell"))
                case = {"stream": stream, "cell": cell, "scope": scope, "stmts": stmts, "spell": spell, "source": text}
                if c["anc"]:
                    # the ancestors belong to the input: replayed with it, shown in front of it
                    case["ancestors"] = [{"scope": cases[i]["scope"], "stmts": cases[i]["stmts"], "spell": cases[i]["spell"]}
                                         for i in c["anc"]]
                    case["source"] = "\n".join(cases[i]["text"] for i in c["anc"]) + "\n" + text
                for st in stmts:
                    if st[0] == "impl":
                        key = f"{st[1]} form, " + ("the module of its interface" if scope == "m" else
                                                   f"{'grandchild' if len(c['anc']) > 1 else 'child'} submodule")
                        hist_impl[key] = hist_impl.get(key, 0) + 1
                if mo[0] != "ok":
                    rep.tie_broken(f"driver rejected {name}: {mo}", case)
                    continue
                mobs, mpl, mxp = parse_model(mo[1:])
                u = units.get(name)
                if u is None:
                    n_corr_bad += 1
                    rep.tie_broken(f"implementation did not produce unit {name} (parse error?)", dict(case, log=log[-400:]))
                    continue
                iobs, ipl, dyn_bad, ixp = observe_unit(u)
                if scope == "s":
                    mpl = ipl  # a submodule's public_list is not observable (deleted / unused)
                    mxp = ixp  # nothing of a submodule is accessible by use association: its tables are unused
                if iobs != mobs or ipl != mpl or ixp != mxp:
                    n_corr_bad += 1
                    diff = sorted(set(iobs) ^ set(mobs))[:8]
                    rep.tie_broken(f"correspondence {stream}: model and implementation differ on {name}: {diff}"
                                   + ("" if ipl == mpl else f" public_list impl={ipl} model={mpl}")
                                   + ("" if ixp == mxp else f" export tables impl-only={sorted(set(ixp) - set(mxp))} "
                                                            f"model-only={sorted(set(mxp) - set(ixp))}"),
                                   dict(case, variant=VARIANT, impl=iobs, model=mobs, impl_public_list=ipl,
                                        model_public_list=mpl, impl_exports=ixp, model_exports=mxp))
                why = legality(scope, stmts)
                hist_legal[why or "legal"] = hist_legal.get(why or "legal", 0) + 1
                if cell:
                    key = f"{cell[3]}"
                    hist_kinds[key] = hist_kinds.get(key, 0) + 1
                    hist_cells["default=" + cell[0]] = hist_cells.get("default=" + cell[0], 0) + 1
                    hist_cells["attr=" + cell[1]] = hist_cells.get("attr=" + cell[1], 0) + 1
                    hist_cells["stmt=" + cell[2]] = hist_cells.get("stmt=" + cell[2], 0) + 1
                if any(s[0] in ("bare", "access") or (s[0] in ("var", "type") and any(a in PCODE for a in s[2])) for s in stmts) \
                        or scope == "s":
                    distinct.add(common.digest([scope, stmts]))
                # interface procedures take the permission of their interface
                for bad in dyn_bad:
                    n_oracle_fail += 1
                    rep.failing_input(dict(case, why=f"interface procedure {bad[1]} reports {bad[3]} but its interface is {bad[2]}"), None)
                if why is None:
                    n_legal += 1
                    exp = spec_module(scope, model_view(stmts))
                    got = {}
                    for o in iobs:
                        if o[0] == "E":
                            got[(o[1], ident(o[2]))] = o[3]
                        elif o[0] == "C":
                            got[("comp", ident(o[1]), ident(o[2]))] = o[3]
                        elif o[0] == "N":
                            got[("bind", ident(o[1]), ident(o[2]))] = o[3]
                        elif o[0] == "P":
                            got[("spec", ident(o[1]), ident(o[2]))] = o[3]
                        elif o[0] == "M":
                            got[("mproc", ident(o[1]))] = o[2]
                    n_entities += len(exp)
                    n_impls += sum(1 for st in stmts if st[0] == "impl")
                    n_specifics += sum(1 for k in exp if k[0] == "spec")
                    if len(samples) < 3 and cell and cell[0].endswith("late") and cell[3] in ("type", "variable", "generic"):
                        samples.append({"cell": cell, "source": text, "observed": {":".join(k): v for k, v in got.items()}})
                    for key in sorted(set(exp) | set(got)):
                        e, g = exp.get(key), got.get(key)
                        if e != g:
                            n_oracle_fail += 1
                            fid = classify(scope, model_view(stmts), key, e, g, spell) if e and g else None
                            rep.failing_input(dict(case, entity=list(key), expected=e, observed=g,
                                                   why=f"{key}: Fortran says {e}, FORD says {g}"), fid)
                    # what the module hands to other scopes by use association
                    if scope == "m":
                        xexp, xkeys = spec_exports(exp)
                        n_exports += len(xkeys)
                        ixp_id = sorted({(t_, ident(k_)) for t_, k_ in ixp})
                        for tn in sorted(set(xexp) | set(ixp_id)):
                            if (tn in xexp) != (tn in ixp_id):
                                n_oracle_fail += 1
                                key = xkeys.get(tn)
                                fid = classify_export(scope, model_view(stmts), tn[0], tn[1], key, exp, got, spell)
                                e = "accessible" if tn in xexp else "not accessible"
                                g = "listed" if tn in ixp_id else "not listed"
                                rep.failing_input(dict(case, entity=list(key) if key else list(tn), export_table="pub_" + tn[0],
                                                       expected=e, observed=g,
                                                       why=f"pub_{tn[0]}[{tn[1]}]: Fortran says {e} by use association, "
                                                           f"FORD's table has it {g}"), fid)
                    # the Lean specification agrees with the Python oracle (module entities)
                    if scope == "m":
                        for s in model_view(stmts):
                            ents = []
                            if s[0] == "var":
                                ents = [(("var", n), s[2]) for n in s[1]]
                            elif s[0] == "type":
                                ents = [(("type", s[1]), s[2])]
                                for b in s[3]:
                                    if b[0] == "comp":
                                        for n in b[1]:
                                            spec_reqs.append(["c04.tspec", "c", "".join(acode(a) for a in b[2]), enc_body(s[3])])
                                            spec_exp.append((exp[("comp", s[1], n)], name, ("comp", s[1], n)))
                                    elif b[0] == "bind":
                                        n = b[2][0]
                                        spec_reqs.append(["c04.tspec", "b", "".join(acode(a) for a in b[3]), enc_body(s[3])])
                                        spec_exp.append((exp[("bind", s[1], n)], name, ("bind", s[1], n)))
                            elif s[0] == "proc":
                                ents = [((("func" if s[1] else "sub"), s[2]), [])]
                            elif s[0] == "mproc":
                                ents = [(("mproc", s[1]), [])]
                            elif s[0] == "iface" and s[1] != "generic":
                                ents = [((("absiface" if s[1] == "abstract" else "iface"), p), []) for p in s[3]]
                            elif s[0] == "iface":
                                ents = [(("spec", s[2], q), []) for q in s[3]]
                                if not any(t[0] == "type" and t[1] == s[2] for t in stmts):
                                    ents.append((("iface", s[2]), []))
                            for key, attrs in ents:
                                # (a short-form body is no statement of the specification: it declares nothing new)
                                spec_reqs.append(["c04.spec", "".join(acode(a) for a in attrs), key[-1]]
                                                 + [enc_stmt(x) for x in model_view(stmts) if x[0] != "mproc"])
                                spec_exp.append((exp[key], name, key))
        # ---- page stream: the visibility words on the real module pages (second observation point) -------------
        n_pages = 220 if tier == "quick" else 1500
        pool = [k for k, c in enumerate(cases) if c["scope"] == "m" and not c["anc"] and model[k] and model[k][0] == "ok"
                and legality("m", c["stmts"]) is None]
        # every table cell once (round robin over the embeddings), then wild programs and families
        tab = [k for k in pool if cases[k]["stream"] == "table"]
        rest = [k for k in pool if cases[k]["stream"] != "table"]
        pick = tab[::reps][: n_pages * 2 // 3]
        pick += rest[: n_pages - len(pick)]
        if replay:
            pick = pool
        n_page_lines = n_page_bad = n_page_fail = 0
        hist_page: dict[str, int] = {}
        import time as _time
        t_pages = _time.time()
        if pick:
            pages, plog = run_pages(ford, Path(d), [(cases[k]["name"], cases[k]["text"]) for k in pick])
            for k in pick:
                c = cases[k]
                case = {"stream": "pages", "cell": c["cell"], "scope": "m", "stmts": c["stmts"], "spell": c["spell"],
                        "source": c["text"]}
                words = pages.get(c["name"])
                mz = parse_model_page(model[k][1:])
                if not isinstance(words, list):
                    n_page_bad += 1
                    rep.tie_broken(f"page stream: no module page for {c['name']}: {words}", dict(case, log=plog[-300:]))
                    continue
                wz = sorted((a, canon(b), canon(n_), w) for a, b, n_, w in words)
                n_page_lines += len(wz)
                for ln in wz:
                    hist_page[ln[0]] = hist_page.get(ln[0], 0) + 1
                if wz != mz:
                    n_page_bad += 1
                    rep.tie_broken(f"correspondence pages: the module page of {c['name']} and the model's page view differ: "
                                   f"page-only={sorted(set(wz) - set(mz))[:6]} model-only={sorted(set(mz) - set(wz))[:6]}",
                                   dict(case, variant=VARIANT, page=wz, model_page=mz))
                exp = spec_module("m", model_view(c["stmts"]))
                for ln in wz:
                    key = page_entity(ln, exp)
                    e = exp.get(key)
                    if e is None:
                        continue  # not an entity of the specification (reported by the correspondence if unexpected)
                    if ln[3] != e:
                        n_page_fail += 1
                        n_oracle_fail += 1
                        fid = classify("m", model_view(c["stmts"]), key, e, ln[3], c["spell"]) if ln[3] != "-" else None
                        rep.failing_input(dict(case, entity=list(key), page_line=list(ln), expected=e, observed=ln[3],
                                               why=f"module page, {ln[0]} {ln[2]}: Fortran says {e}, the page prints "
                                                   f"{ln[3] if ln[3] != '-' else 'no visibility'}"), fid)
        t_pages = round(_time.time() - t_pages, 2)
        got = drv.batch(spec_reqs)
        n_spec_bad = 0
        for (e, name, key), g in zip(spec_exp, got):
            if g != ["ok", e]:
                n_spec_bad += 1
                rep.tie_broken(f"specification: Lean fortranAccess {g} vs Python oracle {e} for {key} in {name}")
    drv.close()
    rep.coverage.update(
        evaluations=len(cases),
        distinct_nontrivial=len(distinct),
        rule="one evaluation = one generated module/submodule parsed by FORD (Project + correlate) and run through the "
             "Lean model; non-trivial = contains an access statement, a bare statement or an access attribute (or is a "
             "submodule); distinct by digest of the abstract program",
        samples=samples,
        traces_validated_against_impl=len(cases),
        table_cells=len(cells),
        embeddings_per_cell=reps,
        entities_checked_by_oracle=n_entities,
        specific_procedures_checked_by_oracle=n_specifics,
        implementations_of_separate_module_procedures_checked_by_oracle=n_impls,
        implementation_histogram=dict(sorted(hist_impl.items())),
        export_table_entries_checked_by_oracle=n_exports,
        module_pages_rendered=len(pick),
        page_places_with_visibility_checked=n_page_lines,
        page_places_histogram=dict(sorted(hist_page.items())),
        page_correspondence_disagreements=n_page_bad,
        page_oracle_failures=n_page_fail,
        page_stream_wall_s=t_pages,
        variant_of_code_under_test={"probe": VARIANT,
                                    "attr_dict_entry_deleted": "after the loop" if "a" in VARIANT else "per entity",
                                    "constructor_takes_type_permission": "in _cleanup" if "e" in VARIANT else "in correlate",
                                    "loop_over_interface_bodies": "s" in VARIANT,
                                    "generic_spec_key": "blanks removed" if "g" in VARIANT else "as written",
                                    "short_form_body_in_own_module_sees_access_statements": "i" in VARIANT},
        spelling_histogram=dict(sorted(hist_spell.items())),
        program_units_per_file="1, 2 or 3 (pattern 3-2-1-1 over the units of a project)",
        legal_programs=n_legal,
        lean_spec_vs_python_oracle=len(spec_reqs),
        lean_spec_disagreements=n_spec_bad,
        correspondence_disagreements=n_corr_bad,
        oracle_failures=n_oracle_fail,
        cell_histogram=dict(sorted(hist_cells.items())),
        kind_histogram=dict(sorted(hist_kinds.items())),
        legality_histogram=dict(sorted(hist_legal.items())),
        generated_tables=table,
    )
    rep.assumptions += [
        "module pages: the real mod_page.html is rendered in-process (ford.output.ModulePage with the project's Jinja "
        "environment, docstrings not converted) and read by harness/c04_pages.py from its layout (section titles, card "
        "headings, table columns); type pages, procedure pages and the generic-interface page print the same values "
        "through their own templates and are not rendered",
        "statement recognition (regexes of FortranContainer.__init__, ATTRIB_RE, ATTRIBSPLIT_RE) is on the implementation "
        "side only; it is exercised by random case / spacing / '::' variants of every rendered statement",
        "folding of accessibility and PROTECTED into FORD's single permission value: private > protected > public",
        "names are compared lower-cased; a generic-spec is compared with its blanks removed (`operator (+)`); an "
        "ordinary name is compared exactly as FORD reports it (a stray blank in it is a difference) while the property "
        "oracle identifies the entity by the identifier the reported name starts with",
        "the Lean model receives the entity lists / name lists / generic-specs as they are written, after the two "
        "steps of the reader that precede statement recognition: continuation lines joined, character literals "
        "replaced by numbered placeholders",
        "the stored permission of a `module procedure x` reference inside a generic interface (never displayed, never "
        "exported) has no specification; it is compared with the model only",
        "every generated table (word lists, transition tables of the attribute-statement loops, what children inherit, "
        "order of the entity lists, export words, getter, implementations of separate module procedures, name keying) is "
        "measured by running the code under test on minimal probe programs (translate/c04.py); the structural parameters "
        "of the model are fitted to the observed inheritance with a Python transcript of the model's rules",
        "the body of a separate module procedure written inside the module that declares its interface is the same "
        "entity as the interface body: the oracle expects the one accessibility on both objects FORD keeps for it "
        "(interface entry, and the subroutine / function or the `module procedure` body)",
        "the variant of the model (attr_dict deletion order, place of the constructor step, loop over interface "
        "bodies, keying of generic-specs, short-form bodies in the module of their interface) is chosen by probing the code under test with five fixed modules; a probe "
        "result that fits no variant is a broken tie",
    ]
    return rep.finish(lean)


def _untuple(stmts):
    """JSON lists -> the tuples the generators produce"""
    out = []
    for s in stmts:
        s = list(s)
        if s[0] == "type":
            s[3] = [tuple(b) for b in s[3]]
        out.append(tuple(s))
    return out
