"""C11 - `[[name(kind):item(kind)]]` references link to the entity the documented rules select.

Streams
  conv : generated projects (harness/c11_gen.py; names collide across levels) are parsed and
         correlated by the real FORD in-process exactly as `ford.main` does; for every sampled
         (context, reference) the real `MetaMarkdown.convert` (-> `convert_link`) is run and
         (a) correspondence: (text, href | plain text | exception kind) must equal the Lean model's
             `convertLink` on the entity store abstracted from FORD's objects;
         (b) property oracle: the documented lookup evaluated on the *abstract* project decides
             link/plain text and the page+anchor the href must resolve to from every page on
             which the text is displayed.
  code : the same references inside code spans / fenced / indented blocks must stay verbatim.
  e2e  : a few projects with the references embedded in doc comments, the project file, the
         summary and static pages run through `ford.main`; every produced <a> is resolved on disk.
  path : `os.path.relpath` vs the model's `relpath` on random segment lists.

Round 2: projects with `project_url` set (URL / absolute path), so that the coordinate system of the URLs
(`md.base_url`) differs from where the pages are written (`output_dir`); the oracle resolves hrefs below
`output_dir`.  The `path=` given to texts without entity context (project file, summary, static pages) is not
assumed but read from the call sites by the translator (`context_free_paths`).  Pages of one directory may
share a name (`name~2.html`): the page file name of an abstract entity is the identifier FORD gave to the
object at that position.  For every (context kind, parent kind) a context with a shadowed name next to it
is added and asked for exactly those names (`shadowed_near`).

Round 3: the *recognition* of a reference in a text (the pattern `FordLinkProcessor.LINK_RE` and the inline
loop) is part of the model (lean/FordModel/LinkSyntax.lean) and of the correspondence:
  syntax : the real `LINK_RE` (finditer) vs the model's tokenizer on random strings over the alphabet of the
           pattern and on mutated references; oracle: every documented spelling must be matched as written.
           The character class `\\w` of the model is compared with Python's for every code point it covers.
  conv   : besides the parsed references (`Q`), whole texts with several references, adjacent brackets and
           surrounding words (`T`) are converted by the real Markdown object and by the model's `convertText`.
Source files get *file* names (leading digit / underscore, capitals, letters outside ASCII, hyphen, several
dots; an `extra_filetypes` file), entity names carry underscores, absent names may start with a digit.
A plain-text rendering must come with a warning (captured from FORD's console).
"""
from __future__ import annotations

import html as htmllib
import os
import random
import re
from pathlib import Path

from . import c11_gen as G
from . import common, e2e
from .common import Driver, Report, lean_prove

PROP = "C11"
A_RE = re.compile(r'<a(?: href="([^"]*)")?>([^<]*)</a>')


# ----------------------------------------------------------------------------- real FORD, in-process

def load_project(ford, root: Path, files, options, pages=None, text="Project text.\n"):
    """What `ford.main` does up to (and including) the construction of the Markdown object."""
    import copy
    import pathlib

    import ford.fortran_project
    from ford._markdown import MetaMarkdown

    pf = e2e.write_project(root, files, options, text=text, pages=pages)
    e2e.reset_global_state(ford)
    with common.quiet():
        proj_docs, proj_data = ford.load_settings(pf.read_text(), pf.parent, pf.name)
        proj_data, proj_docs = ford.parse_arguments({"project_file": e2e._Named(pf)}, proj_docs, proj_data, pf.parent)
        project = ford.fortran_project.Project(proj_data)
        project.correlate()
        aliases = copy.copy(proj_data.alias)
        aliases.update(proj_data.external)
        url_path = pathlib.Path(proj_data.project_url)
        aliases.update({"url": str(url_path), "media": str(url_path / "media"), "page": str(url_path / "page")})
        md = MetaMarkdown(proj_data.md_base_dir, base_url=proj_data.project_url,
                          extensions=proj_data.md_extensions, aliases=aliases, project=project)
    return project, md, proj_data


def set_page_names(P, real):
    """record the identifier (page file name) FORD gave to the entity at each abstract position"""
    for e in P["ents"]:
        o = real.get(e["id"])
        if o is not None and e["page_dir"] is not None and e["kind"] != "file":
            e["page_name"] = str(o.ident)


def locate(project, P):
    """abstract entity id -> FORD object (visible entities only)"""
    import ford.sourceform as sf

    out = {}

    def by_name(lst, name):
        for x in lst or []:
            if isinstance(x, sf.FortranBase) and (x.name or "").lower() == name.lower():
                return x
        return None

    def attrs_for(e):
        k = e["kind"]
        if k == "proc":
            return ["functions", "subroutines", "modprocedures", "modfunctions", "modsubroutines"]
        return {"module": ["modules"], "submodule": ["submodules"], "program": ["programs"], "blockdata": ["blockdata"],
                "type": ["types"], "interface": ["interfaces"], "absinterface": ["absinterfaces"],
                "variable": ["args", "variables"], "bound": ["boundprocs"], "final": ["finalprocs"],
                "common": ["common"], "namelist": ["namelists"]}[k]

    for e in P["ents"]:
        if e["kind"] == "file":
            out[e["id"]] = by_name(list(project.files) + list(getattr(project, "extra_files", [])), e["name"])
            continue
        if e["kind"] == "namelist":
            out[e["id"]] = by_name(project.namelists, e["name"])
            continue
        par = out.get(e["scope"]["id"])
        if par is None:
            continue
        obj = None
        for a in attrs_for(e):
            obj = by_name(getattr(par, a, None), e["name"])
            if obj is not None:
                break
        if obj is None and e["kind"] == "namelist":
            obj = by_name(project.namelists, e["name"])
        out[e["id"]] = obj
    return out


class Store:
    """Abstraction of FORD's correlated objects into the model's entity store."""

    def __init__(self, project, tables):
        import ford.sourceform as sf

        self.sf = sf
        self.ids = {}
        self.objs = []
        self.problems = []
        self.attr_names = list(dict.fromkeys(tables["childrenOrder"] + tables["nonListChildren"]
                                             + [v for _, v in tables["sublinkTypes"]]))
        self.list_attrs = set(tables["childrenOrder"])
        self.proj_lists = list(dict.fromkeys(v for _, v in tables["linkTypes"]))
        self.project = project
        todo = []
        for a in self.proj_lists:
            for x in getattr(project, a):
                if isinstance(x, sf.FortranBase):
                    todo.append(x)
        while todo:
            x = todo.pop()
            if id(x) in self.ids:
                continue
            self.ids[id(x)] = len(self.objs)
            self.objs.append(x)
            p = getattr(x, "parent", None)
            if isinstance(p, sf.FortranBase):
                todo.append(p)
            for a in self.attr_names:
                if not hasattr(x, a):
                    continue
                v = getattr(x, a)
                if isinstance(v, sf.FortranBase):
                    todo.append(v)
                elif isinstance(v, (list, tuple)):
                    todo.extend(i for i in v if isinstance(i, sf.FortranBase))

    def idof(self, obj):
        return self.ids[id(obj)]

    def items(self, seq):
        return ",".join(str(self.ids[id(i)]) if isinstance(i, self.sf.FortranBase) else "x" for i in seq)

    def fields(self):
        sf = self.sf
        out = []
        for x in self.objs:
            chain = []
            cur = x
            while isinstance(cur, sf.FortranBase):
                chain.append(",".join([type(cur).__name__, str(cur.obj), str(cur.ident),
                                       "0" if cur.name else "1",
                                       "1" if getattr(cur, "is_interface_procedure", False) else "0"]))
                cur = getattr(cur, "parent", None)
            attrs = []
            for a in self.attr_names:
                if not hasattr(x, a):
                    continue
                v = getattr(x, a)
                if isinstance(v, (list, tuple)):
                    attrs.append(f"{a},m,{self.items(v)}" if v else f"{a},m")
                elif isinstance(v, sf.FortranBase):
                    attrs.append(f"{a},o,{self.ids[id(v)]}")
                elif v is None:
                    attrs.append(f"{a},n")
                elif isinstance(v, str):
                    attrs.append(f"{a},s")
                else:
                    self.problems.append(f"attribute {a} of {type(x).__name__} has unexpected type {type(v).__name__}")
                    attrs.append(f"{a},s")
                if a in self.list_attrs and not isinstance(v, (list, tuple)):
                    self.problems.append(f"children attribute {a} of {type(x).__name__} is not a list")
            p = getattr(x, "parent", None)
            ext = hasattr(x, "external_url")
            name = x.name or ""
            for s in (name, str(x.ident)):
                if any(c in s for c in "|;,\t\n"):
                    self.problems.append(f"name {s!r} not encodable")
            try:
                fname = str(x.filename)      # what `warn_prefix` prints for text that belongs to the entity
            except Exception:  # noqa  (external entities have no source file)
                fname = ""
            if any(c in fname for c in "|\t\n"):
                self.problems.append(f"file name {fname!r} not encodable")
            out.append("|".join(["E", name, str(self.ids[id(p)]) if isinstance(p, sf.FortranBase) else "",
                                 "1" if ext else "0", (x.external_url or "") if ext else "",
                                 ";".join(chain), ";".join(attrs), fname]))
        for a in self.proj_lists:
            out.append("|".join(["L", a, self.items(list(getattr(self.project, a)))]))
        return out


def classify_exc(e: BaseException) -> str:
    s = str(e)
    if isinstance(e, TypeError) and "not iterable" in s:
        return "not-iterable"
    if "Unknown class of entity" in s:
        return "unknown-entity"
    if "cannot have child" in s:
        return "cannot-have-child"
    if "but no url" in s:
        return "no-url"
    return f"{type(e).__name__}:{s[:80]}"


def impl_convert_raw(md, text, ctx, path, reset=True):
    """-> (html | None, exception kind | None, what FORD printed)"""
    with common.quiet() as buf:
        try:
            html = (md.reset() if reset else md).convert(text, context=ctx, path=path)
        except Exception as e:  # noqa
            return None, classify_exc(e), buf.getvalue()
    return html, None, buf.getvalue()


def impl_convert(md, text, ctx, path, reset=True, log=None):
    """-> ('L', text, href) | ('T', text) | ('X', kind) | ('V',) reference left verbatim | ('?', html);
    what FORD printed meanwhile is appended to the list `log`"""
    html, exc, printed = impl_convert_raw(md, text, ctx, path, reset)
    if log is not None:
        log.append(printed)
    if exc is not None:
        return ("X", exc)
    m = A_RE.findall(html)
    if len(m) != 1:
        if html == f"<p>{htmllib.escape(text, quote=False)}</p>":
            return ("V",)
        return ("?", html)
    href, t = m[0]
    if href == "" and 'href=""' not in html:
        return ("T", t)
    return ("L", t, href)


def html_segments(html):
    """the converted text cut at the <a> elements: [('P', text) | ('L', text, href) | ('T', text)], or None
    when the html is not one paragraph of text and <a> elements"""
    if not (html.startswith("<p>") and html.endswith("</p>")):
        return None
    body = html[3:-4]
    out, pos = [], 0
    for m in A_RE.finditer(body):
        if m.start() > pos:
            out.append(("P", body[pos:m.start()]))
        href, t = m.group(1), m.group(2)
        out.append(("T", htmllib.unescape(t)) if href is None else ("L", htmllib.unescape(t), href))
        pos = m.end()
    if pos < len(body):
        out.append(("P", body[pos:]))
    if any(seg[0] == "P" and ("<" in seg[1] or ">" in seg[1]) for seg in out):
        return None
    return [("P", htmllib.unescape(x[1])) if x[0] == "P" else x for x in out]


def squash(s):
    return re.sub(r"\s+", "", s)


def printed_warnings(printed):
    """the messages FORD printed through `ford.console.warn`, in order, without white space (rich wraps
    lines at the console width): everything between one `Warning:` and the next"""
    return [squash(x) for x in printed.split("Warning:")[1:]]


def split_model_warnings(ans):
    """model answer `...|#W|msg|msg` -> (answer, [squashed messages])"""
    body, _, w = ans.rpartition("|#W")
    return body, [squash(x) for x in w.split("|")[1:]]


def compare_warnings(rep, stats, model_w, printed, case, what):
    """exact correspondence of the warnings: the model's `convertLinkW` / `convertTextW` vs what FORD printed"""
    impl_w = printed_warnings(printed)
    kind = "none" if not impl_w else "+".join("child-not-found" if "linkingtopagefor" in x else "not-found" if x.endswith("notfound") else "other" for x in impl_w[:3]) + ("+..." if len(impl_w) > 3 else "")
    stats["warnings"][kind] = stats["warnings"].get(kind, 0) + 1
    if impl_w != model_w:
        stats["disagree"] += 1
        rep.tie_broken(f"correspondence conv (warnings): model {model_w!r} vs printed {impl_w!r} for {what}",
                       dict(case, model_warnings=model_w, printed=printed))
        return False
    if impl_w:
        stats["distinct"].add(common.digest(["warn", case.get("context"), kind]))
    return True


def warned_about(log, name):
    """FORD printed a warning that names the reference (rich wraps long lines at blanks)"""
    return log is not None and "Warning" in log and squash(name) in squash(log)


# ----------------------------------------------------------------------------- oracle helpers

def norm_join(base: str, rel: str) -> str:
    return os.path.normpath(os.path.join(base, rel))


def display_dirs(out: str, ctx_abs, loc):
    """directories (below the site root `out`, where the pages are written) of the pages on which the
    converted text is displayed; `loc` is the location of a text without context: "" for the front page
    (project file, summary), "page/..." for a static page"""
    if ctx_abs is None:
        return [os.path.normpath(os.path.join(out, loc))]
    h = G.page_holder(ctx_abs)
    own = "sourcefile" if h["kind"] == "file" else h["page_dir"]
    dirs = [os.path.join(out, own), os.path.join(out, "lists")]
    if ctx_abs["scope"] is not None:
        hp = G.page_holder(ctx_abs["scope"])
        dirs.append(os.path.join(out, "sourcefile" if hp["kind"] == "file" else hp["page_dir"]))
    return list(dict.fromkeys(dirs))


def in_local_type(e):
    while e is not None:
        if e["kind"] == "type" and e["scope"] is not None and e["scope"]["kind"] == "proc":
            return True
        e = e["scope"]
    return False


def check_oracle(P, out, ctx_abs, loc, ref, im, log=None):
    """None when the real output is what the documented rules give, else a reason.
    `log` (when given): what FORD printed during the conversion - a plain-text rendering needs a warning."""
    verdict, why = _check_oracle(P, out, ctx_abs, loc, ref, im)
    if verdict == "ok" and im[0] == "T" and log is not None and not warned_about(log, ref[0]):
        return "fail", f"rendered as plain text {im[1]!r} without a warning that names it (printed: {log[:120]!r})"
    return verdict, why


def _check_oracle(P, out, ctx_abs, loc, ref, im):
    s = G.spec(P, ctx_abs, ref)
    if s[0] == "unspecified":
        return "skip", None
    if ref[0].lower() in INTRINSIC_MODS and s[0] == "text" and ref[2] is None and (ref[1] or "extmodule").lower() == "extmodule":
        # intrinsic modules are known to every project and link to their external documentation
        ok = im[0] == "L" and im[1].lower() == ref[0].lower() and im[2].startswith("http")
        return ("ok", None) if ok else ("fail", f"expected the external link of the intrinsic module, got {im}")
    if im[0] == "X":
        return "fail", f"conversion raised {im[1]}"
    if im[0] == "?":
        return "fail", f"unexpected html {im[1][:120]!r}"
    if im[0] == "V":
        return "fail", "the reference was not recognised: it is left verbatim in the text" + \
            (" (a link is due)" if s[0] == "link" else " (plain text with a warning is due)")
    if s[0] == "text":
        if im[0] == "T" and im[1] == ref[0]:
            return "ok", None
        return "fail", f"nothing to link to, expected plain text {ref[0]!r}, got {im}"
    _, acceptable, fallback_ok = s
    if im[0] == "T":
        if fallback_ok and im[1] == ref[0]:
            return "ok", None
        if all(G.expected_url(t)[0] is None for t in acceptable) and im[1] == ref[0]:
            return "ok", None   # the selected entity has no page: plain text is the only honest rendering
        return "fail", f"expected a link to {[t['name'] for t in acceptable]}, got plain text"
    _, text, href = im
    if not acceptable:
        return "fail", f"expected plain text, got link {href}"
    why = []
    for t in acceptable:
        p, frag = G.expected_url(t)
        if p is None:
            why.append(f"{t['name']}: has no page")
            continue
        if text != t["name"]:
            why.append(f"{t['name']}: link text {text!r}")
            continue
        hpath, _, hfrag = href.partition("#")
        bad = None
        for d in display_dirs(out, ctx_abs, loc):
            got = norm_join(d, hpath)
            if got != os.path.join(out, p):
                bad = f"href {href!r} resolved from {os.path.relpath(d, out)!r} gives {os.path.relpath(got, out)!r}, expected {p!r}"
                break
        if bad is None:
            if frag is None and hfrag:
                bad = f"unexpected fragment {hfrag!r}"
            elif frag is not None and not frag.match(hfrag):
                bad = f"fragment {hfrag!r} does not match {frag.pattern!r}"
        if bad is None:
            return "ok", None
        why.append(f"{t['name']}: {bad}")
    return "fail", "; ".join(why[:3])


INTRINSIC_MODS = ("iso_fortran_env", "iso_c_binding", "mpi")

CAN_CONTAIN = {
    # documented item kinds an entity of a kind can contain at all
    "module": {"variable", "type", "interface", "absinterface", "subroutine", "function", "common"},
    "type": {"variable", "bound", "final", "constructor"},
    "interface": {"variable", "subroutine", "function", "modproc"},
}
for _k in ("submodule", "program", "proc"):
    CAN_CONTAIN[_k] = CAN_CONTAIN["module"]
CAN_CONTAIN["blockdata"] = {"variable", "type", "common"}
CAN_CONTAIN["absinterface"] = {"variable"}
CAN_CONTAIN["namelist"] = {"variable"}
CAN_CONTAIN["common"] = {"variable"}
for _k in ("file",):
    CAN_CONTAIN[_k] = {"subroutine", "function"}
for _k in ("variable", "bound", "final"):
    CAN_CONTAIN[_k] = set()


NAME_SHAPE = {"seps": ["."], "many": False}     # the `name` group of LINK_RE as the translator read it (set in run())


def name_in_pattern(name):
    """the component name has the shape LINK_RE's `name` group accepts: runs of word characters joined by
    single separator characters (one separator at most unless the group repeats)"""
    seps = "".join(re.escape(c) for c in NAME_SHAPE["seps"])
    return re.fullmatch(r"\w+(?:[" + seps + r"]\w+)" + ("*" if NAME_SHAPE["many"] else "?"), name) is not None


def classify(P, ctx_abs, what, url_set, ref):
    """Known defect classes, decided from the input alone (never from the failure).
    `what`: "entity" | "projfile" | "summary" | "page"; `url_set`: the option `project_url` is given."""
    name, kind, child, ckind = ref
    if not name_in_pattern(name):
        return "C11-file-name-outside-link-pattern"
    if (kind or "").lower() == "constructor" or (ckind or "").lower() == "constructor":
        return "C11-constructor-qualifier-raises"
    for b, t in G.bindings_to_hidden(P):
        if (ctx_abs is b and name.lower() == t["name"].lower()) or \
                (name.lower() == b["name"].lower() and (child or "").lower() == t["name"].lower()):
            return "C11-hidden-procedure-linked-through-binding"
    s = G.spec(P, ctx_abs, ref)
    if s[0] == "link" and s[1] and (ckind or "").lower() == "variable" and all(t.get("role") == "arg" for t in s[1]):
        return "C11-variable-qualifier-misses-arguments"
    if s[0] == "link" and s[1] and any(in_local_type(t) for t in s[1]):
        return "C11-target-without-page-raises"
    if ckind is not None:
        # is there a component of that name (any level) that cannot contain items of kind ckind?
        comps = [e for e in P["ents"] if e["visible"] and e["name"].lower() == name.lower()]
        if any(ckind.lower() not in CAN_CONTAIN.get(e["kind"], set()) for e in comps):
            return "C11-impossible-item-kind-raises"
    if child is not None and (ckind is None or ckind.lower() == "modproc"):
        for e in P["ents"]:
            if e["kind"] == "interface" and e["visible"] and e["name"].lower() == name.lower() \
                    and any(p["visible"] and p["name"].lower() == child.lower() for p in e["modprocs"]):
                return "C11-module-procedure-of-generic-interface-not-an-item"
    if s[0] == "link" and ((ctx_abs is not None and in_local_type(ctx_abs)) or (ctx_abs is None and what == "summary")):
        return "C11-context-without-url"
    if s[0] == "link" and ctx_abs is None and what == "page" and url_set:
        return "C11-static-page-with-project-url"
    if s[0] == "link" and s[1] and all(local_of_internal_proc(t) for t in s[1]):
        return "C11-local-variable-of-internal-procedure-has-no-anchor"
    return None


def local_of_internal_proc(t):
    """a local (non-argument) variable of a procedure that is internal to another procedure"""
    sc = t["scope"]
    return (t["kind"] == "variable" and t.get("role") == "local" and sc is not None and sc["kind"] == "proc"
            and sc["scope"] is not None and sc["scope"]["kind"] == "proc")


def site_setting(expr, settings):
    """value of one of the settings expressions the translator found at a conversion site"""
    if expr == "none":
        return None
    if expr == "proj_data.project_url":
        return settings.project_url
    if expr == "proj_data.output_dir":
        return settings.output_dir
    raise common.Infra(f"conversion site uses an expression the harness cannot evaluate: {expr!r}")


def context_free_paths(tables, settings, md):
    """The `path=` the real call sites (ford.main, PageNode.__init__; read by the translator) give to the
    conversion of texts without entity context: {"projfile": p, "summary": p, "page": function of location}."""
    import pathlib

    if tables["pagePathRoot"] == "output_dir":
        root = site_setting(tables["pageTreeRoot"], settings)
    elif tables["pagePathRoot"] in ("self.base_url", "md.base_url"):
        root = md.base_url
    else:
        raise common.Infra(f"PageNode converts at an unknown root {tables['pagePathRoot']!r}")
    return {
        "projfile": site_setting(tables["projDocsPath"], settings),
        "summary": site_setting(tables["summaryPath"], settings),
        "page": lambda loc: (pathlib.Path(root) / loc).resolve(),
    }


def shadowed_near(P, ctx_abs):
    """entities in the documented entity's own contents or in its parent's contents (the entity itself
    included) whose name is also carried by another displayed entity of the project: the references for
    which the documented order (own contents, parent's contents, whole project) decides the target"""
    near = list(G.contents(ctx_abs))
    if ctx_abs["scope"] is not None:
        near += G.contents(ctx_abs["scope"])
    out = []
    for t in near:
        ln = t["name"].lower()
        if any(e is not t and e["visible"] and e["name"].lower() == ln for e in P["ents"]) and t not in out:
            out.append(t)
    return out


def name_shape(n):
    """coarse class of a component name (histogram)"""
    if not name_in_pattern(n):
        return "outside the pattern (hyphen / several dots)"
    out = []
    if n[0].isdigit():
        out.append("digit first")
    elif n[0] == "_":
        out.append("underscore first")
    if "." in n:
        out.append("stem.ext")
    if "_" in n[1:]:
        out.append("underscore")
    if any(ord(c) > 127 for c in n):
        out.append("non-ascii")
    return ", ".join(out) or "letters/digits"


def absent_name(rng, item=False):
    """a name nothing in a generated project carries, in every shape a component name may have: a Fortran
    name, digits first (`[[1]]`, `[[2nd_pass]]`), underscores, `stem.ext` of a file that is not there
    (`item`: a name for the item part - no extension)"""
    n = str(rng.randint(1, 99))
    words = ["nosuch" + n, "nosuch" + n, n, n + "nd_pass", "_nosuch" + n, "no_such_" + n, "nosuch" + n + "_",
             "NoSuch" + n, "nosuch\u00e9" + n]
    return rng.choice(words if item else words + ["nosuch" + n + ".f90", n + "nosuch.f90"])


# ----------------------------------------------------------------------------- texts with several references

PRE = ["", "", "see ", "x", "[", "[[", "a, ", "(", "cf: ", "v1.", "the mesh of ", "]] ", "1:"]
MID = [" ", " and ", ", ", "", ") (", " / ", "] [", ": ", " - see also "]
POST = ["", "", " end.", "y", "]", "]]", ")", ": x", ",", ".", " (twice)"]
SAFE = [" ", " and ", ", "]
JUNK = ["[[ {n} ]]", "[[{n} {n}]]", "[[]]", "[[{n}:]]", "[[{n}()]]", "[[{n}.]]", "[[.{n}]]", "[{n}]]", "[[{n}]",
        "[[{n}(module):]]", "[[{n}:{n}()]]", "[[{n}(module)x]]", "[[{n}::{n}]]", "[[{n}(module)(type)]]", "[[({n})]]"]


def gen_text(rng, refs):
    """a one-line documentation text: 1-3 references (`refs`: candidates) in running text, sometimes next to
    single brackets or to something that only looks like a reference.
    -> [("words", s) | ("ref", r, tclass) | ("junk", s)]"""
    parts = []
    pre = rng.choice(PRE)
    if pre:
        parts.append(("words", pre))
    n = rng.choice([1, 1, 2, 2, 3])
    for i in range(n):
        if i:
            parts.append(("words", rng.choice(MID)))
        if rng.random() < 0.15:
            r0 = rng.choice(refs)[0]
            parts.append(("words", rng.choice(SAFE)))     # blanks around: it cannot combine with its neighbours
            parts.append(("junk", rng.choice(JUNK).replace("{n}", r0[0])))
            parts.append(("words", rng.choice(SAFE)))
        r, tclass = rng.choice(refs)
        parts.append(("ref", r, tclass))
    post = rng.choice(POST)
    if post:
        parts.append(("words", post))
    # Markdown strips the paragraph
    while parts and parts[0][0] == "words" and not parts[0][1].strip():
        parts.pop(0)
    while parts and parts[-1][0] == "words" and not parts[-1][1].strip():
        parts.pop()
    if parts[0][0] == "words":
        parts[0] = ("words", parts[0][1].lstrip())
    if parts[-1][0] == "words":
        parts[-1] = ("words", parts[-1][1].rstrip())
    return [p for p in parts if p[0] != "words" or p[1]]


def render_text(parts):
    return "".join(G.render_ref(p[1]) if p[0] == "ref" else p[1] for p in parts)


A_PAT = r'<a(?: href="([^"]*)")?>([^<]*)</a>'

CODE_RE = re.compile(r"<code>(.*?)</code>", re.S)
CODE_FORMS = ["{r}", "call {r}(x)", "x = {r}", "{r}:{r}", "use {r}, only: y", "[[ {r}"]


def gen_code_text(rng, refs):
    """a one-paragraph text with 1-2 code spans (single or double backticks) between / next to running text that has
    references of its own: -> [("plain", text) | ("code", content, ticks)]; the span contents hold references in
    documented spellings (to existing, hidden and absent things alike).  The joiners between running text and spans never
    put `(` behind a `]` (that would be Markdown's own `[text](url)` syntax swallowing the span), and the words that are
    not references hold at most one underscore at a word boundary (two would be Markdown's `_emphasis_`)"""
    for _ in range(20):
        pieces, loose = _gen_code_text(rng, refs)
        if len(re.findall(r"(?<![^\W_])_|_(?![^\W_])", " ".join(loose))) < 2:
            break
    return pieces


def _gen_code_text(rng, refs):
    pieces, loose = [], []     # loose: the words / look-alikes of the running text that are not references

    def running():
        parts = gen_text(rng, refs)
        loose.extend(p[1] for p in parts if p[0] != "ref")
        return render_text(parts)

    n_code = rng.choice([1, 1, 2])
    if rng.random() < 0.8:
        pieces.append(("plain", running() + rng.choice([" ", " in ", ", e.g. ", " - "])))
    for i in range(n_code):
        if i:
            pieces.append(("plain", rng.choice([" and ", ", ", " / ", None]) or (" or " + running() + " vs. ")))
        r = G.render_ref(rng.choice(refs)[0])
        pieces.append(("code", rng.choice(CODE_FORMS).replace("{r}", r), rng.choice(["`", "`", "``"])))
    if rng.random() < 0.7:
        pieces.append(("plain", rng.choice([" ", " - ", ": ", ", see "]) + running()))
    if pieces[0][0] == "plain":
        pieces[0] = ("plain", pieces[0][1].lstrip())
    return [x for x in pieces if x[0] == "code" or x[1]], loose


def render_pieces(pieces):
    return "".join(x[1] if x[0] == "plain" else x[2] + x[1] + x[2] for x in pieces)


def html_pieces(html):
    """the converted paragraph cut at its <code> elements: [('C', content as displayed) | ('K', inner html: something
    inside the span was converted) | ('P', ..) | ('L', ..) | ('T', ..)], or None for an unexpected shape"""
    if not (html.startswith("<p>") and html.endswith("</p>")):
        return None
    body, out, pos = html[3:-4], [], 0
    for m in list(CODE_RE.finditer(body)) + [None]:
        part = body[pos:m.start()] if m is not None else body[pos:]
        segs = html_segments(f"<p>{part}</p>")
        if segs is None:
            return None
        out += segs
        if m is not None:
            out.append(("K", m.group(1)) if "<" in m.group(1) else ("C", htmllib.unescape(m.group(1))))
            pos = m.end()
    return out


def check_text_oracle(P, out, ctx_abs, loc, parts, html, exc, log):
    """The property on a whole text: every documented reference becomes what the documented lookup gives
    (link / plain name with a warning), in the order written, and the words around stay.
    -> [(reason, reference for the classification)]"""
    refs = [p[1] for p in parts if p[0] == "ref"]
    judged = [r for r in refs if G.spec(P, ctx_abs, r)[0] != "unspecified"]
    if exc is not None:
        return [(f"conversion raised {exc}", r) for r in (judged[:1] or refs[:1])] if judged else []
    if not (html.startswith("<p>") and html.endswith("</p>")):
        return [(f"unexpected html {html[:120]!r}", r) for r in judged[:1]]
    body = html[3:-4]
    pat = ""
    for p in parts:
        if p[0] == "words":
            pat += re.escape(htmllib.escape(p[1], quote=False))
        elif p[0] == "junk":
            pat += r"(?:<a[^>]*>[^<]*</a>|[^<])*?"       # not a documented spelling: anything
        else:
            pat += A_PAT
    m = re.fullmatch(pat, body)
    if m is None:
        left = [r for r in judged if htmllib.escape(G.render_ref(r), quote=False) in body]
        if left:
            return [("the reference was not recognised: it is left verbatim in the text", r) for r in left]
        return [(f"the text around the references changed or a reference is missing: {body[:160]!r}", r) for r in judged[:1]]
    bad = []
    g = m.groups()
    for i, r in enumerate(refs):
        href, t = g[2 * i], htmllib.unescape(g[2 * i + 1])
        im = ("T", t) if href is None else ("L", t, href)
        verdict, why = check_oracle(P, out, ctx_abs, loc, r, im, log)
        if verdict == "fail":
            bad.append((why, r))
    return bad


E2E_URLS = [None, "https://example.com/docs", None, "/srv/www/fordsite"]
URLS = [None, None, "https://example.com/docs", None, "/srv/www/fordsite"]


# ----------------------------------------------------------------------------- streams

def conv_stream(ford, drv, rng, n_projects, rep, tables, stats, replay_case=None):
    import ford.sourceform as sf  # noqa

    cwd = os.getcwd()
    n_eval = 0
    for k in range(n_projects):
        prng = random.Random(rng.getrandbits(48))
        P = G.gen_project(prng, size=1 if k % 4 == 0 else 2)
        files = G.render_project(P)
        options = G.project_options(P)
        url = URLS[k % len(URLS)]
        if url is not None:
            options["project_url"] = url
        stats["project_url"][str(url)] = stats["project_url"].get(str(url), 0) + 1
        with common.scratch_dir() as d:
            try:
                project, md, settings = load_project(ford, d, files, options)
                free = context_free_paths(tables, settings, md)
            except common.Infra:
                raise
            except BaseException as e:  # noqa
                rep.tie_broken(f"conv: FORD could not load generated project {k}: {type(e).__name__}: {e}",
                               {"stream": "conv", "files": files, "options": options})
                continue
            base = str(md.base_url)          # the coordinate system of the URLs (`project_url`)
            out = str(settings.output_dir)   # where the pages are written
            real = locate(project, P)
            set_page_names(P, real)
            # which entities are displayed is property C04/C05's business: take it from FORD's pruned tree
            for e in P["ents"]:
                seen_by_ford = real.get(e["id"]) is not None
                if seen_by_ford != e["visible"]:
                    stats["visibility_model_mismatch"] = stats.get("visibility_model_mismatch", 0) + 1
                e["visible"] = seen_by_ford
            store = Store(project, tables)
            fields = store.fields()
            for pr in store.problems[:3]:
                rep.tie_broken("conv: abstraction of FORD objects failed: " + pr)
            # ---- contexts
            ctxs = [("entity", e) for e in P["ents"] if e["visible"] and real.get(e["id"]) is not None
                    and id(real[e["id"]]) in store.ids]
            missing = [e for e in P["ents"] if e["visible"] and real.get(e["id"]) is None]
            if missing:
                stats["unlocated"] = stats.get("unlocated", 0) + len(missing)
            prng.shuffle(ctxs)
            # every kind at least once, then a sample
            chosen, seen = [], set()
            for c in ctxs:
                key = (c[1]["kind"], in_local_type(c[1]))
                if key not in seen:
                    seen.add(key)
                    chosen.append(c)
            chosen += ctxs[:6]
            # contexts near which a name is shadowed: every (context kind, parent kind) once
            shadow = {}
            for c in ctxs:
                sh = shadowed_near(P, c[1])
                if sh:
                    shadow[c[1]["id"]] = sh
                    key = ("shadow", c[1]["kind"], c[1]["scope"]["kind"] if c[1]["scope"] is not None else None)
                    if key not in seen and len([x for x in seen if x[0] == "shadow"]) < 8:
                        seen.add(key)
                        if c not in chosen:
                            chosen.append(c)
            chosen += [("projfile", None), ("summary", None), ("page", "page"), ("page", "page/sub/deeper")]
            # ---- references
            targets = list(P["ents"])
            prng.shuffle(targets)
            refs = []
            for t in targets[:14]:
                sp = G.spellings(prng, t)
                prng.shuffle(sp)
                refs += [(r, "hidden" if not t["visible"] else "exists") for r in sp[:4]]
            for t in [e for e in P["ents"] if e["kind"] == "file"]:
                refs += [(r, "file") for r in G.spellings(prng, t)]
            for _ in range(3):
                nm = absent_name(prng)
                refs.append(((nm, None, None, None), "absent"))
                t = prng.choice(targets)
                refs.append(((t["name"], None, absent_name(prng, item=True), None), "absent-item"))
                refs.append(((nm, prng.choice(sorted(G.COMP_Q)), None, None), "absent"))
            if prng.random() < 0.5:
                refs.append(((prng.choice(["iso_fortran_env", "iso_c_binding", "mpi"]), prng.choice([None, "extmodule"]), None, None), "intrinsic"))
            # item kinds the component cannot have; constructor
            for t in targets[:3]:
                if t["scope"] is not None and t["scope"]["kind"] != "file":
                    refs.append(((t["scope"]["name"], None, t["name"], prng.choice(sorted(G.ITEM_Q))), "any-item-kind"))
            queries = []     # (what, context, path given to convert, location of the page below the site root, ref, class)
            for what, c in chosen:
                rs = refs if what != "entity" else prng.sample(refs, min(len(refs), 14))
                if what == "entity" and c["id"] in shadow:
                    # references to the shadowed names next to this context, in the documented component spellings
                    extra = []
                    for t in shadow[c["id"]]:
                        extra += [(r, "shadowed") for r in G.spellings(prng, t) if r[2] is None]
                    prng.shuffle(extra)
                    rs = rs + extra[:8]
                for (r, tclass) in rs:
                    if what == "entity":
                        queries.append((what, c, None, None, r, tclass))
                    elif what == "projfile":
                        queries.append((what, None, free["projfile"], "", r, tclass))
                    elif what == "summary":
                        queries.append((what, None, free["summary"], "", r, tclass))
                    else:
                        queries.append((what, None, free["page"](c), c, r, tclass))
            # ---- whole texts: several references, words and brackets around them (the model tokenizes them itself)
            tctx = [x for x in chosen if x[0] == "entity"]
            prng.shuffle(tctx)
            tctx = tctx[:3] + [("projfile", None), ("page", "page/sub/deeper")]
            tqueries = []    # (what, context, path, location, parts)
            for what, c in tctx:
                for _ in range(6):
                    parts = gen_text(prng, refs)
                    if what == "entity":
                        tqueries.append((what, c, None, None, parts))
                    elif what == "projfile":
                        tqueries.append((what, None, free["projfile"], "", parts))
                    else:
                        tqueries.append((what, None, free["page"](c), c, parts))
            # ---- texts with code spans (round 6): the model gets the text cut at its spans
            cctx = tctx[:2] + [("projfile", None)]
            cqueries = []    # (what, context, path, location, pieces)
            for what, c in cctx:
                for _ in range(4):
                    pieces = gen_code_text(prng, refs)
                    if what == "entity":
                        cqueries.append((what, c, None, None, pieces))
                    else:
                        cqueries.append((what, None, free["projfile"], "", pieces))
            reqs = ["c11.conv", base, cwd] + fields
            for what, c, path, _, r, _ in queries:
                reqs.append("|".join(["Q", str(store.idof(real[c["id"]])) if c is not None else "",
                                      str(path) if path is not None else "-", r[0], r[1] or "", r[2] or "", r[3] or ""]))
            for what, c, path, _, parts in tqueries:
                reqs.append("|".join(["T", str(store.idof(real[c["id"]])) if c is not None else "",
                                      str(path) if path is not None else "-", render_text(parts)]))
            for what, c, path, _, pieces in cqueries:
                reqs.append("|".join(["C", str(store.idof(real[c["id"]])) if c is not None else "",
                                      str(path) if path is not None else "-"] +
                                     [("c" if x[0] == "code" else "p") + x[1] for x in pieces]))
            mo = drv.batch([reqs])[0]
            if mo[0] != "ok" or len(mo) != len(queries) + len(tqueries) + len(cqueries) + 1:
                rep.tie_broken(f"conv: driver answered {mo[:2]} for project {k}")
                continue
            for (what, c, path, loc, pieces), ans in zip(cqueries, mo[1 + len(queries) + len(tqueries):]):
                text = render_pieces(pieces)
                html, exc, printed = impl_convert_raw(md, text, real[c["id"]] if c is not None else None, path)
                n_eval += 1
                ans, model_w = split_model_warnings(ans)
                a = ans.split("|")
                if a[0] == "X":
                    model, im = ["X", a[1]], (["X", exc] if exc is not None else html_pieces(html))
                else:
                    model = [[x[0], x[1:]] if x[0] in "PTCK" else ["L"] + x[1:].split(";", 1) for x in a[1:]]
                    im = ["X", exc] if exc is not None else html_pieces(html)
                    im = [list(x) for x in im] if im is not None and exc is None else im
                ckind = (c["kind"] + ("(local type)" if in_local_type(c) else "")) if c is not None else what
                shape = "code:" + "+".join(x[0] + (x[2] if x[0] == "code" else "") for x in pieces)
                stats["code"][shape] = stats["code"].get(shape, 0) + 1
                case = {"stream": "conv", "project": k, "files": files, "options": options, "context": ckind,
                        "context_name": c["name"] if c is not None else None,
                        "context_file": G.file_of(c)["name"] if c is not None else None,
                        "path": str(path) if path is not None else None, "displayed_below_site_root": loc,
                        "text": text, "pieces": [list(x) for x in pieces],
                        "impl": html if exc is None else ["X", exc], "model": ans}
                if im != model:
                    stats["disagree"] += 1
                    rep.tie_broken(f"correspondence conv (code spans): model {ans!r} vs implementation {(html if exc is None else exc)!r} for the text {text!r} in context {ckind}", case)
                else:
                    stats["distinct"].add(common.digest(["code", ckind, shape, [x[0] for x in model]]))
                compare_warnings(rep, stats, model_w, printed, case, f"the text {text!r} in context {ckind}")
                # oracle (from the statement): every span is displayed with its content exactly as written, in order
                if exc is None:
                    shown = [("K", x) if "<" in x else ("C", htmllib.unescape(x)) for x in CODE_RE.findall(html)]
                    want = [("C", x[1]) for x in pieces if x[0] == "code"]
                    if [tuple(x) for x in shown] != want:
                        rep.failing_input(dict(case, stream="code", form="span-in-text",
                                               why=f"references inside code spans were not left verbatim: displayed {shown!r}, written {want!r}"), None)
            for (what, c, path, loc, parts), ans in zip(tqueries, mo[1 + len(queries):1 + len(queries) + len(tqueries)]):
                text = render_text(parts)
                html, exc, printed = impl_convert_raw(md, text, real[c["id"]] if c is not None else None, path)
                n_eval += 1
                im = ("X", exc) if exc is not None else html_segments(html)
                ans, model_w = split_model_warnings(ans)
                a = ans.split("|")
                if a[0] == "X":
                    model = ("X", a[1])
                else:
                    model = [(x[0], x[1:]) if x[0] in "PT" else ("L",) + tuple(x[1:].split(";", 1)) for x in a[1:]]
                ckind = (c["kind"] + ("(local type)" if in_local_type(c) else "")) if c is not None else what
                nref = sum(1 for p in parts if p[0] == "ref")
                shape = f"text:{nref}ref" + ("+junk" if any(p[0] == "junk" for p in parts) else "") + \
                    ("+bracket" if any(p[0] == "words" and ("[" in p[1] or "]" in p[1]) for p in parts) else "")
                stats["form"][shape] = stats["form"].get(shape, 0) + 1
                stats["ctx"][ckind] = stats["ctx"].get(ckind, 0) + 1
                case = {"stream": "conv", "project": k, "files": files, "options": options, "context": ckind,
                        "context_name": c["name"] if c is not None else None,
                        "context_file": G.file_of(c)["name"] if c is not None else None,
                        "path": str(path) if path is not None else None, "displayed_below_site_root": loc,
                        "text": text, "impl": html if exc is None else ["X", exc], "model": ans}
                if im is None or (list(im) if isinstance(im, tuple) else im) != (list(model) if isinstance(model, tuple) else model):
                    stats["disagree"] += 1
                    rep.tie_broken(f"correspondence conv: model {ans!r} vs implementation {(html if exc is None else exc)!r} for the text {text!r} in context {ckind}", case)
                else:
                    stats["distinct"].add(common.digest([ckind, shape, [p[2] for p in parts if p[0] == "ref"],
                                                         [x[0] for x in model] if isinstance(model, list) else model]))
                compare_warnings(rep, stats, model_w, printed, case, f"the text {text!r} in context {ckind}")
                culprit = None
                if exc is not None:
                    # an exception aborts the whole text: the first reference that raises on its own explains it
                    for p in parts:
                        if p[0] == "ref" and impl_convert(md, G.render_ref(p[1]), real[c["id"]] if c is not None else None, path)[0] == "X":
                            culprit = p[1]
                            break
                if culprit is not None and G.spec(P, c, culprit)[0] == "unspecified":
                    stats["oracle"]["skip"] = stats["oracle"].get("skip", 0) + 1
                    continue
                bad = check_text_oracle(P, out, c, loc, parts, html, exc, printed)
                if exc is not None:
                    bad = [(f"conversion raised {exc}", culprit or [p[1] for p in parts if p[0] == "ref"][0])]
                stats["oracle"]["ok" if not bad else "fail"] = stats["oracle"].get("ok" if not bad else "fail", 0) + 1
                for why, r in bad:
                    cls = classify(P, c, what, url is not None, r)
                    rep.failing_input(dict(case, why=why, reference=G.render_ref(r)), cls)
                    stats["fail_class"][str(cls)] = stats["fail_class"].get(str(cls), 0) + 1
            for (what, c, path, loc, r, tclass), ans in zip(queries, mo[1:]):
                text = G.render_ref(r)
                log = []
                im = impl_convert(md, text, real[c["id"]] if c is not None else None,
                                  path, reset=(what != "summary"), log=log)
                n_eval += 1
                stats["name_shape"][name_shape(r[0])] = stats["name_shape"].get(name_shape(r[0]), 0) + 1
                ans, model_w = split_model_warnings(ans)
                a = ans.split("|")
                model = tuple(a[:3]) if a[0] == "L" else tuple(a[:2])
                ckind = (c["kind"] + ("(local type)" if in_local_type(c) else "")) if c is not None else what
                stats["ctx"][ckind] = stats["ctx"].get(ckind, 0) + 1
                stats["target"][tclass] = stats["target"].get(tclass, 0) + 1
                form = ("comp" + ("(k)" if r[1] else "")) + ((":item" + ("(k)" if r[3] else "")) if r[2] else "")
                stats["form"][form] = stats["form"].get(form, 0) + 1
                stats["outcome"][im[0] + (":" + im[1] if im[0] == "X" else "")] = stats["outcome"].get(im[0] + (":" + im[1] if im[0] == "X" else ""), 0) + 1
                for q in (r[1], r[3]):
                    if q:
                        stats["kinds"][q.lower()] = stats["kinds"].get(q.lower(), 0) + 1
                case = {"stream": "conv", "project": k, "files": files, "options": options, "context": ckind,
                        "context_name": c["name"] if c is not None else None,
                        "context_file": G.file_of(c)["name"] if c is not None else None,
                        "path": str(path) if path is not None else None, "displayed_below_site_root": loc,
                        "reference": text, "impl": list(im), "model": list(model)}
                if tuple(im) != model:
                    stats["disagree"] += 1
                    rep.tie_broken(f"correspondence conv: model {model} vs implementation {im} for {text} in context {ckind}", case)
                else:
                    stats["distinct"].add(common.digest([ckind, form, tclass, im[0], r[1], r[3]]))
                compare_warnings(rep, stats, model_w, log[0], case, f"{text} in context {ckind}")
                verdict, why = check_oracle(P, out, c, loc, r, im, log[0])
                stats["oracle"][verdict] = stats["oracle"].get(verdict, 0) + 1
                if verdict == "fail":
                    cls = classify(P, c, what, url is not None, r)
                    rep.failing_input(dict(case, why=why, target_class=tclass), cls)
                    stats["fail_class"][str(cls)] = stats["fail_class"].get(str(cls), 0) + 1
                if len(stats["samples"]) < 4 and im[0] == "L" and r[2]:
                    stats["samples"].append({"context": ckind, "reference": text, "observed": list(im)})
            # ---- code spans / blocks stay verbatim
            some = prng.sample(refs, min(4, len(refs)))
            for (r, _) in some:
                text = G.render_ref(r)
                cobj = real[chosen[0][1]["id"]] if chosen[0][0] == "entity" else None
                for form, src in (("span", f"see `{text}` here"), ("span2", f"``{text}`` is how to write it"), ("fenced", f"para\n\n```\n{text}\n```\n"),
                                  ("indented", f"para\n\n    {text}\n")):
                    try:
                        with common.quiet():
                            html = md.reset().convert(src, context=cobj)
                    except Exception as e:  # noqa
                        html = f"EXC {e}"
                    n_eval += 1
                    stats["code"][form] = stats["code"].get(form, 0) + 1
                    if "<a" in html or text not in re.sub(r"<[^>]*>", "", html) or "<code>" not in html:
                        rep.failing_input({"stream": "code", "form": form, "source": src, "html": html,
                                           "why": "reference inside a code span/block was not left verbatim"}, None)
    return n_eval


def path_stream(drv, rng, n, rep):
    segs = ["a", "b", "doc", "module", "proc", "non-existent dir", "x.html", "page"]
    reqs, exp = [], []
    for _ in range(n):
        t = "/" + "/".join(rng.choice(segs) for _ in range(rng.randint(1, 5)))
        s = "/" + "/".join(rng.choice(segs) for _ in range(rng.randint(0, 5)))
        s = s if s != "/" else "/a"
        reqs.append(["c11.relpath", t, s])
        exp.append(["ok", os.path.relpath(t, s)])
    got = drv.batch(reqs)
    bad = 0
    for r, e, g in zip(reqs, exp, got):
        if e != g:
            bad += 1
            rep.tie_broken(f"correspondence path: relpath model {g} vs os.path.relpath {e} on {r[1:]}")
    return len(reqs), bad


# ----------------------------------------------------------------------------- syntax (the pattern alone)

TOKENS = ["[[", "]]", "[[", "]]", "[", "]", "(", ")", ":", ".", "-", "_", "a", "Bc", "1", "2d", "\u00e9", "\u00fc1", " ",
          "x_y", "f90", "\u00b2", "\u00d7", "file", "(module)", ":v", "\u0101", "\u00aa"]
KINDS_ANY = ["module", "file", "PROC", "type", "variable", "bound", "k_1", "2"]


def word(rng):
    """a non-empty run of word characters: letters, digits, underscores in any order (also beyond ASCII)"""
    alpha = "abcxyzABZ0123456789__\u00e9\u00fc\u00f1\u0101"
    return "".join(rng.choice(alpha) for _ in range(rng.choice([1, 1, 2, 3, 3, 5, 5, 8, 8, 31, 63])))


def documented_ref(rng):
    """(reference in a documented spelling, shape of its component name)"""
    r = rng.random()
    if r < 0.45:
        name, shape = word(rng), "word"
    elif r < 0.8:
        name, shape = word(rng) + "." + word(rng), "stem.ext"
    elif r < 0.9:
        name, shape = word(rng) + "-" + word(rng) + "." + word(rng), "hyphen"
    else:
        name, shape = word(rng) + "." + word(rng) + "." + word(rng), "dots"
    kind = rng.choice(KINDS_ANY) if rng.random() < 0.5 else None
    child = word(rng) if rng.random() < 0.5 else None
    ckind = rng.choice(KINDS_ANY) if child and rng.random() < 0.5 else None
    return (name, kind, child, ckind), shape


def rx_segments(rx, text):
    """the pieces the real pattern cuts a text into (leftmost matches, as `finditer` yields them)"""
    out, pos = [], 0
    for m in rx.finditer(text):
        if m.start() > pos:
            out.append(("P", text[pos:m.start()]))
        out.append(("R", m["name"], m["entity"], m["child_name"], m["child_entity"]))
        pos = m.end()
    if pos < len(text):
        out.append(("P", text[pos:]))
    return out


def model_segments(ans):
    out = []
    for x in ans.split("|")[1:]:
        if x[0] == "P":
            out.append(("P", x[1:]))
        else:
            f = x[1:].split(";")
            out.append(("R", f[0]) + tuple(y[1:] if y else None for y in f[1:4]))
    return out


def syntax_stream(ford, drv, rng, n, rep, stats):
    """`FordLinkProcessor.LINK_RE` itself against the model's tokenizer, and against the documented syntax."""
    import ford._markdown as fm

    rx = fm.FordLinkProcessor.LINK_RE
    # the character class
    hi = 0x250
    got = drv.call("c11.isword", "0", str(hi))
    exp = "".join("1" if re.fullmatch(r"\w", chr(c)) else "0" for c in range(hi))
    if got != ["ok", exp]:
        diff = [hex(c) for c in range(hi) if len(got) < 2 or len(got[1]) != hi or got[1][c] != exp[c]][:8]
        rep.tie_broken(f"correspondence syntax: the model's word-character class differs from Python's \\w at {diff}")
    cases = []   # (text, expected pieces by the documented syntax or None, reference, name shape)
    for _ in range(n):
        r = rng.random()
        if r < 0.4:
            cases.append(("".join(rng.choice(TOKENS) for _ in range(rng.randint(1, 10))), None, None, "random"))
            continue
        ref, shape = documented_ref(rng)
        text = G.render_ref(ref)
        if r < 0.65:
            # one edit away from a documented spelling
            i = rng.randrange(len(text))
            e = rng.random()
            if e < 0.35:
                text = text[:i] + text[i + 1:]
            elif e < 0.7:
                text = text[:i] + rng.choice(TOKENS) + text[i:]
            else:
                text = text[:i] + rng.choice(TOKENS) + text[i + 1:]
            cases.append((text, None, None, "mutated"))
            continue
        pre = rng.choice(["", "", "see ", "x", "]", "(", "a: ", "1.", "\u00e9"])
        post = rng.choice(["", "", " end", "y", "]", ")", ":", ".", "(b)", "1", "_"])
        exp_p = ([("P", pre)] if pre else []) + [("R",) + ref] + ([("P", post)] if post else [])
        if rng.random() < 0.3:
            ref2, shape2 = documented_ref(rng)
            if shape2 in ("word", "stem.ext"):
                mid = rng.choice(["", " ", " and ", "]", ":"])
                exp_p = exp_p[:-1] if post else exp_p
                exp_p = exp_p + ([("P", post + mid)] if post + mid else []) + [("R",) + ref2]
                post = post + mid + G.render_ref(ref2)
        cases.append((pre + G.render_ref(ref) + post, exp_p, ref, shape))
    ans = drv.batch([["c11.segments"] + [c[0] for c in cases]])[0]
    if ans[0] != "ok" or len(ans) != len(cases) + 1:
        rep.tie_broken(f"syntax: driver answered {ans[:2]}")
        return 0
    bad = 0
    for (text, exp_p, ref, shape), a in zip(cases, ans[1:]):
        try:
            im = rx_segments(rx, text)
        except Exception as e:  # noqa
            im = [("X", f"{type(e).__name__}: {e}")]
        mo = model_segments(a)
        stats["syntax"][shape] = stats["syntax"].get(shape, 0) + 1
        case = {"stream": "syntax", "text": text, "pattern": rx.pattern, "impl": im, "model": mo}
        if im != mo:
            bad += 1
            if bad <= 5:
                rep.tie_broken(f"correspondence syntax: LINK_RE cuts {text!r} into {im}, the model into {mo}", case)
        else:
            stats["distinct"].add(common.digest(["syntax", shape, [x[0] for x in im], len(text)]))
        if exp_p is not None and im != exp_p:
            # the documented syntax: component [(kind)] [:item [(kind)]] in double brackets is a reference
            missing = [x for x in exp_p if x[0] == "R" and x not in im] or [("R",) + ref]
            cls = None if any(name_in_pattern(x[1]) for x in missing) else "C11-file-name-outside-link-pattern"
            stats["syntax_fail"][str(cls)] = stats["syntax_fail"].get(str(cls), 0) + 1
            if stats["syntax_fail"][str(cls)] <= 3:     # a few per class are reported, all are counted
                rep.failing_input(dict(case, why=f"a reference in a documented spelling is not recognised as written: expected {exp_p}",
                                       reference=G.render_ref(missing[0][1:])), cls)
            stats["fail_class"][str(cls)] = stats["fail_class"].get(str(cls), 0) + 1
    stats["disagree"] += bad
    return len(cases)


# ----------------------------------------------------------------------------- e2e

def e2e_stream(ford, rng, n_projects, rep, stats):
    """References embedded in the sources / project file / pages; the written site is inspected."""
    from bs4 import BeautifulSoup

    n_eval = 0
    for k in range(n_projects):
        prng = random.Random(rng.getrandbits(48))
        P = G.gen_project(prng, size=2)
        vis = [e for e in P["ents"] if e["visible"]]
        marks = {}
        ctr = [0]

        def put(ctx_abs, where):
            t = prng.choice(vis)
            r = prng.choice(G.spellings(prng, t))
            ctr[0] += 1
            tag = f"REFMARK{ctr[0]}X"
            marks[tag] = (ctx_abs, where, r)
            return f"{tag} {G.render_ref(r)} ENDMARK"

        for e in vis:
            if e["kind"] != "file" and not in_local_type(e) and prng.random() < 0.5:
                e["doc"] = [f"doc of {e['kind']} {e['name']}", "", put(e, "entity")]
        text = "Project text.\n\n" + put(None, "projfile") + "\n"
        pages = {"index.md": "---\ntitle: Top\n---\n\n" + put(None, "page:page") + "\n",
                 "sub/index.md": "---\ntitle: Sub\n---\n\n" + put(None, "page:page/sub") + "\n",
                 "sub/leaf.md": "---\ntitle: Leaf\n---\n\n" + put(None, "page:page/sub") + "\n\nverbatim `[[nosuch]]` span\n"}
        files = G.render_project(P)
        options = G.project_options(P)
        url = E2E_URLS[k % len(E2E_URLS)]
        if url is not None:
            options["project_url"] = url
        stats["e2e_project_url"][str(url)] = stats["e2e_project_url"].get(str(url), 0) + 1

        def what_of(where):
            return "page" if where.startswith("page") else where

        with common.scratch_dir() as d:
            pf = e2e.write_project(d, files, options, text=text, pages=pages)
            import ford.fortran_project as fp
            cap = {}
            orig = fp.Project

            class CapProject(orig):
                def __init__(self, *a, **k):
                    super().__init__(*a, **k)
                    cap["project"] = self

            fp.Project = CapProject
            try:
                res = e2e.run_inprocess(pf)
            finally:
                fp.Project = orig
            out = res["out"]
            if "project" in cap and res["rc"] == 0:
                real = locate(cap["project"], P)
                for e in P["ents"]:
                    e["visible"] = real.get(e["id"]) is not None
                set_page_names(P, real)
            if res["rc"] != 0:
                # a crash of the whole run: classify through the references that were embedded
                cls = None
                for tag, (c, where, r) in marks.items():
                    cls = cls or classify(P, c, what_of(where), url is not None, r)
                rep.failing_input({"stream": "e2e", "files": files, "options": options, "why": f"ford.main failed: {res['exc']}",
                                   "references": [G.render_ref(m[2]) for m in marks.values()]}, cls)
                continue
            base = str(out)
            for hp in sorted(Path(out).rglob("*.html")):
                rel = hp.relative_to(out)
                if rel.parts[0] in ("src", "search.html"):
                    continue
                html = re.sub(r"<pre>.*?</pre>", "", hp.read_text(errors="replace"), flags=re.S)   # not the source listing
                if "REFMARK" not in html:
                    continue
                for m in re.finditer(r"(REFMARK\d+X) (.*?) ENDMARK", html, re.S):
                    tag, body = m.group(1), m.group(2)
                    c, where, r = marks[tag]
                    n_eval += 1
                    stats["e2e_pages"][rel.parts[0] if len(rel.parts) > 1 else "index"] = stats["e2e_pages"].get(rel.parts[0] if len(rel.parts) > 1 else "index", 0) + 1
                    a = BeautifulSoup(body, "html.parser").find("a")
                    s = G.spec(P, c, r)
                    if s[0] != "link" or not s[1]:
                        continue
                    case = {"stream": "e2e", "files": files, "options": options, "project_text": text, "pages": pages,
                            "page": str(rel), "reference": G.render_ref(r), "observed": body}
                    if a is None or not a.get("href"):
                        if not s[2]:
                            rep.failing_input(dict(case, why="expected a link on the written page, found plain text"),
                                              classify(P, c, what_of(where), url is not None, r))
                        continue
                    href = a["href"]
                    hpath, _, hfrag = href.partition("#")
                    tgt = Path(os.path.normpath(os.path.join(hp.parent, hpath)))
                    ok = False
                    for t in s[1]:
                        p, frag = G.expected_url(t)
                        if p is not None and str(tgt) == os.path.join(base, p) and tgt.exists():
                            if frag is None and not hfrag:
                                ok = True
                            elif frag is not None and frag.match(hfrag or ""):
                                ok = f'id="{hfrag}"' in tgt.read_text(errors="replace")
                    if not ok:
                        rep.failing_input(dict(case, why=f"href {href!r} on {rel} resolves to {tgt} which is not the page/anchor of the selected entity"),
                                          classify(P, c, what_of(where), url is not None, r))
            leaf = Path(out) / "page" / "sub" / "leaf.html"
            if not leaf.exists():
                # get_page_tree swallows an exception of the conversion ("Error parsing ...") and drops the pages
                cls = None
                for tag, (c, where, r) in marks.items():
                    if where.startswith("page"):
                        cls = cls or classify(P, c, what_of(where), url is not None, r)
                warn = [ln for ln in res["log"].splitlines() if "Error parsing" in ln]
                rep.failing_input({"stream": "e2e", "files": files, "options": options, "pages": pages,
                                   "why": f"the static pages were not written ({' '.join(warn)[:200]})",
                                   "references": [G.render_ref(m[2]) for m in marks.values() if m[1].startswith("page")]}, cls)
            elif "<code>[[nosuch]]</code>" not in leaf.read_text():
                rep.failing_input({"stream": "e2e", "why": "code span on a static page not verbatim"}, None)
    return n_eval


# ----------------------------------------------------------------------------- run

def run(tier: str, seed: int, replay: str | None = None) -> int:
    from translate import c11 as T

    rep = Report(PROP, tier, seed)
    tables = {}

    def tr():
        tables.update(T.translate())

    lean = lean_prove(PROP, translate=tr, thorough=(tier == "thorough"))
    for b in lean.broken():
        rep.tie_broken("proof: " + b)
    ford = common.import_ford()
    if not tables:
        try:
            tables.update(T.extract())
        except Exception as e:  # noqa
            raise common.Infra(f"tables unavailable: {e}")
    NAME_SHAPE["seps"], NAME_SHAPE["many"] = list(tables["linkNameSeps"]), bool(tables["linkNameMany"])
    rng = random.Random(seed * 104729 + 11)
    drv = Driver()
    n_proj = 40 if tier == "quick" else 400
    n_e2e = 6 if tier == "quick" else 40
    stats = {"project_url": {}, "ctx": {}, "target": {}, "form": {}, "outcome": {}, "kinds": {}, "oracle": {}, "fail_class": {},
             "code": {}, "e2e_pages": {}, "e2e_project_url": {}, "samples": [], "distinct": set(), "disagree": 0,
             "syntax": {}, "name_shape": {}, "syntax_fail": {}, "warnings": {}}
    n_path, bad_path = path_stream(drv, rng, 2000 if tier == "quick" else 20000, rep)
    n_conv = conv_stream(ford, drv, rng, n_proj, rep, tables, stats)
    n_syn = syntax_stream(ford, drv, random.Random(seed * 7919 + 3), 6000 if tier == "quick" else 60000, rep, stats)
    n_e = e2e_stream(ford, rng, n_e2e, rep, stats)
    rep.coverage.update(
        evaluations=n_conv + n_e + n_path + n_syn,
        distinct_nontrivial=len(stats["distinct"]),
        rule="one evaluation = one (project, context, reference) converted by the real MetaMarkdown/convert_link and by the model; "
             "non-trivial = distinct (context kind, reference form, target class, outcome, qualifiers) on which both agree",
        samples=stats["samples"],
        traces_validated_against_impl=n_conv + n_path + n_syn,
        syntax_cases=dict(sorted(stats["syntax"].items())),
        component_name_shapes=dict(sorted(stats["name_shape"].items())),
        link_pattern={"name_separators": NAME_SHAPE["seps"], "name_tail_repeats": NAME_SHAPE["many"]},
        correspondence_disagreements=stats["disagree"] + bad_path,
        project_url_histogram=stats["project_url"],
        context_histogram=dict(sorted(stats["ctx"].items())),
        target_histogram=dict(sorted(stats["target"].items())),
        reference_form_histogram=dict(sorted(stats["form"].items())),
        qualifier_histogram=dict(sorted(stats["kinds"].items())),
        outcome_histogram=dict(sorted(stats["outcome"].items())),
        oracle_verdicts=stats["oracle"],
        oracle_failures_by_class=stats["fail_class"],
        code_span_cases=stats["code"],
        warnings_compared=dict(sorted(stats["warnings"].items())),
        e2e_links_checked=n_e,
        e2e_pages=stats["e2e_pages"],
        e2e_project_url_histogram=stats["e2e_project_url"],
        unlocated_entities=stats.get("unlocated", 0),
        visibility_model_mismatch=stats.get("visibility_model_mismatch", 0),
    )
    rep.assumptions += [
        "Python-Markdown's own patterns (where a code span begins and ends, escapes, block parsing) are on the implementation side only: "
        "the model is handed a text cut at its code spans; the registry order (table), LINK_RE and the apply-until-no-match loop are "
        "modelled (InlineOrder.lean, LinkSyntax.lean) and compared on every run",
        "characters above U+024F are not generated (the model's word-character class is exact below)",
        "the entity store handed to the model is abstracted from FORD's correlated objects (parsing/correlation are C01/C07)",
        "identifiers (`ident`, NameSelector) are inputs of the model (property C10)",
        "external projects are not generated (C16); intrinsic modules are",
    ]
    return rep.finish(lean)
