"""C09 - link extraction and resolution on a generated output tree.

The oracle is defined from the property statement only: every URL FORD writes
(href / src / xlink:href / form action in HTML and inline SVG, standalone SVG
files, `url` fields of the search index) that points inside the documentation
must be relative, must resolve to an existing file under the output directory,
and a `#fragment` must name an element (`id`, or `name` of an anchor) in it.
"""
from __future__ import annotations

import json
import os
import re
from html.parser import HTMLParser
from pathlib import Path
from urllib.parse import unquote, urlsplit

URL_ATTRS = ("href", "src", "xlink:href", "action", "poster", "data")
SCHEME_RE = re.compile(r"^[A-Za-z][A-Za-z0-9+.\-]*:")
EXTERNAL_SCHEMES = ("http", "https", "mailto", "javascript", "data", "ftp", "tel", "irc")


class _Collector(HTMLParser):
    def __init__(self):
        super().__init__(convert_charrefs=True)
        self.links: list[tuple[str, str, str, int, str]] = []  # tag, attr, url, line, quote character
        self.ids: set[str] = set()
        self.dup_ids: set[str] = set()
        self.stack: list[str] = []
        self.region: list[str] = []  # ids of enclosing interesting containers

    def handle_starttag(self, tag, attrs):
        line = self.getpos()[0]
        raw = None
        for k, v in attrs:
            if v is None:
                continue
            if k == "id" or (k == "name" and tag == "a"):
                if v in self.ids and k == "id":
                    self.dup_ids.add(v)
                self.ids.add(v)
            if k in URL_ATTRS:
                if raw is None:
                    raw = self.get_starttag_text() or ""
                self.links.append((tag, k, v, line, attr_quote(raw, k)))

    handle_startendtag = handle_starttag


def attr_quote(raw_tag: str, attr: str) -> str:
    """The character that delimits the value of `attr` in the start tag as written: ' or " or "" (unquoted).
    (Who wrote a link can be told from it: FortranBase.__str__ writes <a href='..'>, the markdown
    serialiser and the templates write href="..".)"""
    m = re.search(r"[\s\"']" + re.escape(attr) + r"\s*=\s*([\"']?)", raw_tag, re.I)
    return m.group(1) if m else ""


def scan_html(text: str):
    c = _Collector()
    c.feed(text)
    c.close()
    return c.links, c.ids, c.dup_ids


def is_external(url: str) -> bool:
    u = url.strip()
    if u.startswith("//"):
        return True
    m = SCHEME_RE.match(u)
    if m:
        sch = m.group(0)[:-1].lower()
        return sch in EXTERNAL_SCHEMES
    return False


class Site:
    """All links and ids of an output tree."""

    def __init__(self, root: Path):
        self.root = Path(root)
        self.files: set[str] = set()
        self.dirs: set[str] = set()
        self.ids: dict[str, set[str]] = {}
        self.links: list[dict] = []  # page, tag, attr, url, line
        self.search_urls: list[str] = []
        self.scan()

    def scan(self):
        root = self.root
        for dp, dn, fn in os.walk(root):
            rel = os.path.relpath(dp, root)
            rel = "" if rel == "." else rel
            self.dirs.add(rel)
            for f in fn:
                r = os.path.join(rel, f) if rel else f
                self.files.add(r)
        for r in sorted(self.files):
            top = r.split("/", 1)[0]
            if top in ("css", "js", "webfonts", "src") or (top == "search" and not r.endswith(".json")):
                # static assets shipped with FORD / verbatim copies of the sources
                continue
            if r.endswith((".html", ".svg")):
                text = (root / r).read_text(encoding="utf-8", errors="replace")
                links, ids, _dups = scan_html(text)
                self.ids[r] = ids
                for tag, attr, url, line, q in links:
                    self.links.append({"page": r, "tag": tag, "attr": attr, "url": url, "line": line, "q": q})
            elif r == "search/search_database.json":
                text = (root / r).read_text(encoding="utf-8")
                prefix = "var tipuesearch = "
                if text.startswith(prefix):
                    text = text[len(prefix):]
                for node in json.loads(text).get("pages", []):
                    self.search_urls.append(node.get("url"))
                    # the search page (search.html at the root) resolves these
                    self.links.append({"page": "search.html", "tag": "search-index", "attr": "url",
                                       "url": node.get("url"), "line": 0, "q": ""})

    def ids_of(self, rel: str) -> set[str]:
        if rel not in self.ids:
            p = self.root / rel
            if rel.endswith((".html", ".svg", ".htm")) and p.is_file():
                _l, ids, _d = scan_html(p.read_text(encoding="utf-8", errors="replace"))
                self.ids[rel] = ids
            else:
                self.ids[rel] = set()
        return self.ids[rel]

    def check_link(self, lk: dict, root: Path | None = None) -> str | None:
        """None when the link is fine, else a short reason."""
        root = Path(root) if root is not None else self.root
        url = lk["url"]
        if url is None:
            return "missing url"
        u = url.strip()
        if is_external(u):
            return None
        if SCHEME_RE.match(u):
            return f"absolute url with scheme ({u.split(':', 1)[0]}:)"
        if u.startswith("/"):
            return "absolute path"
        if "\\" in u:
            return "backslash in url"
        parts = urlsplit(u)
        path = unquote(parts.path)
        frag_raw = parts.fragment
        frag = unquote(parts.fragment)
        page_dir = os.path.dirname(lk["page"])
        if path == "":
            target = lk["page"]
        else:
            target = os.path.normpath(os.path.join(page_dir, path))
            if target == ".":
                target = ""
        if target.startswith(".."):
            return "leaves the output directory"
        full = root / target
        if target in self.dirs or (target and full.is_dir()) or target == "":
            # a directory URL is served as its index.html
            if (full / "index.html").is_file():
                target = os.path.join(target, "index.html") if target else "index.html"
            else:
                return "target is a directory without index.html"
        elif not full.is_file():
            return "target file does not exist"
        if frag:
            if not target.endswith((".html", ".htm", ".svg")):
                return None
            # HTML "find a potential indicated element": the raw fragment first, then percent-decoded
            ids = self.ids_of(target)
            if frag_raw not in ids and frag not in ids:
                return f"fragment #{frag} is not an id in {target}"
        return None

    def failures(self, root: Path | None = None) -> list[dict]:
        out = []
        for lk in self.links:
            why = self.check_link(lk, root)
            if why is not None:
                out.append(dict(lk, why=why))
        return out

    def internal_links(self):
        return [lk for lk in self.links if lk["url"] is not None and not is_external(lk["url"].strip())]


def page_kind(rel: str) -> str:
    """Depth class of a page (for the coverage histogram)."""
    parts = rel.split("/")
    if len(parts) == 1:
        return "root:" + parts[0] if parts[0] in ("index.html", "search.html") else "root:other"
    if parts[0] == "page":
        return f"page-depth{len(parts) - 1}"
    return parts[0]
