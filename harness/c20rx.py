"""C20, stream `patterns`: "on any input FORD terminates - it never hangs", for the part of FORD
that is not a loop FORD wrote itself: the regular expressions it applies to every line and
every statement (CPython's backtracking matcher).

  table     : the patterns the harness finds in the working tree are the ones of the generated
              table `Gen.patterns` (same names, same order).
  match     : for every pattern, on strings sampled from its own syntax tree, on statements of
              the other streams and on short pumped strings: `pattern.match(s)` succeeds
              <=> the model (`Rx.matchesAt0`, FordModel/Backtrack.lean) says so.  This ties the
              translated syntax trees - over which the theorems are stated - to `re`.
  attack    : for every loop of every pattern (found in the syntax tree, not listed by hand):
              subject = something that leads up to the loop + N copies of one iteration of
              its body + something on which the rest of the pattern fails; several samples of
              the iteration (optional parts present / absent, blanks, inner repetitions).
              `match` and `search` of the real pattern object run under a timer.  A call that
              does not come back is a hang of the matcher; it is compared with the model's
              verdict (a pattern all of whose re-enterable loops are `functional` must not hang)
              and then looked for on the property itself:
  projects  : the statement is put into a source file (in a module, in a procedure body, at
              file level, in a type after CONTAINS, in a complete module), the file is added to
              a valid project before / after the valid file and `Project(settings)` runs under
              the watchdog: oracle O2 (the run terminates), and - when it does - O1 / O3 as for
              every other rejected file.
"""
from __future__ import annotations

import signal
import time

from translate import c20rx as tr

NPUMP = 48                 # copies of the loop body in an attack subject
T_DIRECT = 0.4             # seconds a single match / search call may take
T_CONFIRM = 2.0            # ... when it is repeated to confirm a hang
MAX_HANGING_PATTERNS = 6   # bounds the time of a failing run
POISON = ["=", "@", "$x", ""]
AVOID = set("!;&'\"\n\r\t\x0b\x0c#")     # characters the reader treats specially
PREF = ["abcxyz", "0123456789", " ", "_", ",()%=/*:+-.<>[]@$?^|~{}`\\"]


class _Timeout(BaseException):
    pass


def timed(fn, s, limit):
    """-> ("ok", result) | ("hang", None)"""
    def on_alarm(signum, frame):
        raise _Timeout()

    old = signal.signal(signal.SIGALRM, on_alarm)
    signal.setitimer(signal.ITIMER_REAL, limit)
    try:
        try:
            return ("ok", fn(s))
        except _Timeout:
            return ("hang", None)
    finally:
        signal.setitimer(signal.ITIMER_REAL, 0)
        signal.signal(signal.SIGALRM, old)


# ----------------------------------------------------------------------------------------
# sampling strings from a syntax tree
# ----------------------------------------------------------------------------------------
def pick(mask, rng, variety=True):
    groups = []
    for g in PREF:
        cs = [c for c in g if (mask >> ord(c)) & 1]
        if cs:
            groups.append(cs)
    if not groups:
        cs = [chr(c) for c in range(32, 127) if (mask >> c) & 1 and chr(c) not in AVOID]
        cs = cs or [chr(c) for c in range(128) if (mask >> c) & 1]
        if not cs:
            return ""
        groups = [cs]
    g = groups[0] if not variety or rng.random() < 0.7 else rng.choice(groups)
    return g[0] if not variety or rng.random() < 0.7 else rng.choice(g)


def contains(r, target):
    if r is target:
        return True
    return any(contains(x, target) for x in r[1:] if isinstance(x, tuple))


def flat_alt(r):
    out = []
    while r[0] == "alt":
        out.append(r[1])
        r = r[2]
    out.append(r)
    return out


MARK = "\x00"


def sample(r, rng, target=None, n=0, lean=False):
    """A string the expression matches (look-arounds ignored).  The output of the `target`
    loop is `n` copies of one sampled iteration, enclosed in MARK.  `lean`: as short as possible."""
    t = r[0]
    if t == "cls":
        return pick(r[1], rng, not lean)
    if t in ("eps", "bos", "eos", "look", "lookb"):
        return ""
    if t == "seq":
        return sample(r[1], rng, target, n, lean) + sample(r[2], rng, target, n, lean)
    if t == "alt":
        branches = flat_alt(r)
        if target is not None:
            for b in branches:
                if contains(b, target):
                    return sample(b, rng, target, n, lean)
        return sample(branches[0] if lean else rng.choice(branches), rng, target, n, lean)
    if t == "rep":
        lo, hi, a = r[1], r[2], r[3]
        if r is target:
            body = sample(a, rng, None, 0, False)
            return MARK + body + MARK + body * (n - 1) + MARK
        k = lo if lean else lo + rng.choice([0, 0, 1, 1, 2])
        if hi is not None:
            k = min(k, hi)
        inside = target is not None and contains(a, target)
        if inside:
            k = max(k, 1)
        return "".join(sample(a, rng, target if (inside and i == 0) else None, n, lean) for i in range(k))
    raise ValueError(t)


def loops_of(r, out=None):
    """all `rep` nodes with hi > 1, outermost first"""
    out = [] if out is None else out
    if r[0] == "rep" and (r[2] is None or r[2] > 1):
        out.append(r)
    for x in r[1:]:
        if isinstance(x, tuple):
            loops_of(x, out)
    return out


def attack_subjects(rx, rng, variants):
    """-> [(loop index, one iteration, subject)]"""
    out, seen = [], set()
    for li, loop in enumerate(loops_of(rx)):
        simple = loop[3][0] == "cls"
        for v in range(2 if simple else variants):
            s = sample(rx, rng, loop, NPUMP, lean=(v == 0))
            parts = s.split(MARK)
            if len(parts) != 4:
                continue
            pre, body, more, post = parts
            if not body:
                continue
            for poison in POISON:
                for subject in (pre + body + more + poison, pre + body + more + post + poison):
                    if (li, subject) not in seen:
                        seen.add((li, subject))
                        out.append((li, body, subject))
    return out


# ----------------------------------------------------------------------------------------
# the known finding: CALL_RE's component chain
# ----------------------------------------------------------------------------------------
def chain_length(line: str) -> int:
    """longest run of consecutive component accesses `name [()] %` (blanks allowed), scanned by
    hand; only runs in which a blank stands next to a name or a `%` count (without blanks the
    chain can be read in one way only)"""
    best = i = 0
    n = len(line)
    while i < n:
        j, run, blanks = i, 0, False
        while True:
            k = j
            while k < n and line[k] == " ":
                k += 1
            w = k
            while w < n and (line[w].isalnum() or line[w] == "_"):
                w += 1
            if w == k:
                break
            e = w
            while e < n and line[e] == " ":
                e += 1
            if line[e:e + 2] == "()":
                e += 2
                while e < n and line[e] == " ":
                    e += 1
            if e >= n or line[e] != "%":
                break
            blanks = blanks or (k > j) or (e > w) or (e + 1 < n and line[e + 1] == " ")
            run += 1
            j = e + 1
        if blanks:
            best = max(best, run)
        i = max(j, i + 1) if run else i + 1
    return best


def classify_hang(sf, lines: list[str]) -> str | None:
    """Finding C20-call-chain-backtracking: the file contains a statement with a chain of at least
    8 component accesses `name %` written with blanks, and it is `CALL_RE.search` on that very
    statement that does not come back."""
    C = getattr(sf, "FortranContainer", None)
    call_re = getattr(C, "CALL_RE", None)
    if call_re is None:
        return None
    for ln in lines:
        if chain_length(ln) >= 8 and timed(call_re.search, ln, T_DIRECT)[0] == "hang":
            return "C20-call-chain-backtracking"
    return None


def batch_with_timeout(drv, rep, reqs, chunk=400, limit=90):
    """the model's matcher is a backtracking matcher too: it gets a time limit of its own"""
    import subprocess
    from . import common

    out = []
    for k in range(0, len(reqs), chunk):
        part = reqs[k:k + chunk]
        data = "".join("\t".join(drv.esc(f) for f in r) + "\n" for r in part)
        try:
            p = subprocess.run([str(common.DRIVER)], input=data, capture_output=True, text=True, timeout=limit)
            lines = p.stdout.split("\n")
            if lines and lines[-1] == "":
                lines.pop()
            if p.returncode != 0 or len(lines) != len(part):
                raise common.Infra(f"driver failed rc={p.returncode} on pattern requests: {p.stderr[-200:]}")
            out += [[drv.unesc(f) for f in line.split("\t")] for line in lines]
        except subprocess.TimeoutExpired:
            rep.tie_broken(f"correspondence patterns: the model's matcher did not answer {len(part)} requests within {limit} s",
                           {"stream": "patterns", "first_request": part[0]})
            out += [None] * len(part)
    return out


# ----------------------------------------------------------------------------------------
CONTEXTS = [
    ("in the specification part of a module that is never closed", ["module bad_m"], []),
    ("in the body of a subroutine that is never closed", ["subroutine bad_s(a)"], []),
    ("alone at file level", [], []),
    ("after CONTAINS in a derived type", ["module bad_m", "type bad_t", "contains"], []),
    ("in a complete module", ["module bad_m"], ["end module bad_m"]),
]
GOOD = ("good0.f90", "module rxgood\ninteger :: counter\ncontains\nsubroutine bump(n)\ninteger :: n\n"
                     "counter = counter + n\nend subroutine bump\nend module rxgood\n")


def run_stream(rep, drv, real, rng, quick: bool, corpus_lines: list[str]) -> dict:
    import ford.sourceform as sf

    cov: dict = {}
    try:
        pats = tr.collect()
    except Exception as e:  # noqa - e.g. the probe source is not parsed in time
        rep.tie_broken(f"table patterns: {type(e).__name__}: {e}")
        pats = tr.collect(dynamic=False)
    names = [n for n, _ in pats]
    rxs = []
    for n_, p_ in pats:
        try:
            rxs.append(tr.to_rx(p_))
        except ValueError as e:
            rep.tie_broken(f"table patterns: {n_}: {e}")
            rxs.append(("eps",))
    # ---- the table the theorems are about is the table of this working tree
    listing = drv.call("c20.rxlist")
    model = {}
    for field in listing[1:]:
        nm, _, nums = field.rpartition("=")
        a, b, c = (int(x) for x in nums.split(","))
        model[nm] = {"loops": a, "reenterable": b, "not_functional": c}
    table_ok = listing[0] == "ok" and list(model) == names
    if not table_ok:
        # (the build of the regenerated table failed, or the translator could not produce it): the model is
        # not consulted, the patterns of the working tree are attacked all the same
        rep.tie_broken("table patterns: the patterns found in the working tree are not the ones of the built Gen.patterns",
                       {"stream": "patterns", "only_in_tree": [n for n in names if n not in model],
                        "only_in_table": [n for n in model if n not in names]})
        model = {n: {"loops": 0, "reenterable": 0, "not_functional": -1} for n in names}
    cov["patterns"] = len(names)
    cov["table_matches_working_tree"] = table_ok
    cov["loops"] = sum(m["loops"] for m in model.values())
    cov["loops_that_can_be_reentered_after_a_failure"] = sum(m["reenterable"] for m in model.values())
    cov["patterns_with_a_loop_outside_the_functional_class"] = sorted(n for n, m in model.items() if m["not_functional"] > 0)

    # ---- match correspondence: real `match` == model `matchesAt0`
    reqs, meta = [], []
    n_variants = 6 if quick else 16
    for i, ((name, pat), rx) in enumerate(zip(pats, rxs) if table_ok else []):
        subjects = []
        for _ in range(8 if quick else 24):
            s = sample(rx, rng)
            subjects += [s, s[:-1], s + "=", " " + s]
        subjects.append(sample(rx, rng, lean=True))
        for loop in loops_of(rx):               # short pumps, with and without something that fails
            s = sample(rx, rng, loop, 3).replace(MARK, "")
            subjects += [s, s + "="]
        subjects += rng.sample(corpus_lines, min(len(corpus_lines), 25 if quick else 80))
        for s in dict.fromkeys(subjects):
            if "\t" in s or "\n" in s or "\r" in s or len(s) > 120 or any(ord(c) > 126 for c in s):
                continue
            reqs.append(["c20.rxmatch", str(i), s])
            meta.append((i, s))
    n_match = n_match_bad = n_pos = n_match_hang = 0
    hung_in_match = set()
    for (i, s), r in zip(meta, batch_with_timeout(drv, rep, reqs)):
        name, pat = pats[i]
        if r is None:
            continue
        if i in hung_in_match:
            continue
        st, res = timed(pat.match, s, T_DIRECT)
        if st != "ok":
            if st == "hang":
                n_match_hang += 1
                hung_in_match.add(i)
                rep.tie_broken(f"correspondence patterns: {name}.match({s!r}) does not come back within {T_DIRECT} s",
                               {"stream": "patterns", "pattern": name, "source": pat.pattern, "subject": s})
            continue
        got = res is not None
        want = r[0] == "ok" and r[1] == "1"
        n_match += 1
        n_pos += got
        ok = (got == want) if tr.exact(rxs[i]) else (not got or want)   # look-behind: model over-approximates
        if r[0] != "ok" or not ok:
            n_match_bad += 1
            if n_match_bad <= 5:
                rep.tie_broken(f"correspondence patterns: {name}.match({s!r}) is {got}, the model of its syntax tree says {want}",
                               {"stream": "patterns", "pattern": name, "source": pat.pattern, "subject": s,
                                "impl": got, "model": r})
    cov["match_comparisons"] = n_match
    cov["match_comparisons_positive"] = n_pos
    cov["match_disagreements"] = n_match_bad

    # ---- attack: every loop of every pattern, pumped
    hangs = []          # (pattern index, loop index, iteration, subject, which call)
    n_calls = 0
    slowest = (0.0, None)
    t0 = time.time()
    for i, ((name, pat), rx) in enumerate(zip(pats, rxs)):
        if len(hangs) >= MAX_HANGING_PATTERNS:
            break
        found = False
        for li, body, subject in attack_subjects(rx, rng, n_variants):
            if found:
                break
            for call in ("match", "search"):
                n_calls += 1
                t1 = time.time()
                st, _ = timed(getattr(pat, call), subject, T_DIRECT)
                dt = time.time() - t1
                if st == "ok" and dt > slowest[0]:
                    slowest = (dt, f"{name}.{call}")
                if st == "hang" and timed(getattr(pat, call), subject, T_CONFIRM)[0] == "hang":
                    # the shortest pump that still does not come back
                    n_min = NPUMP
                    pre, _, rest = subject.partition(body * NPUMP)
                    for n in (24, 32, 40):
                        if timed(getattr(pat, call), pre + body * n + rest, T_DIRECT)[0] == "hang":
                            n_min = n
                            break
                    hangs.append({"i": i, "pattern": name, "loop": li, "iteration": body, "call": call,
                                  "subject": pre + body * max(n_min, 40) + rest, "copies": max(n_min, 40)})
                    found = True
                    break
    cov["attack_subjects_run"] = n_calls
    cov["attack_seconds"] = round(time.time() - t0, 2)
    cov["slowest_call_that_returned_s"] = [round(slowest[0], 4), slowest[1]]
    cov["patterns_whose_matcher_did_not_come_back"] = [h["pattern"] for h in hangs]

    # ---- model verdict vs what happened
    hung_names = {h["pattern"] for h in hangs}
    for h in hangs:
        if table_ok and model[h["pattern"]]["not_functional"] == 0:
            rep.tie_broken(f"correspondence patterns: {h['pattern']}.{h['call']} does not come back on {h['copies']} copies of "
                           f"{h['iteration']!r} although every loop of its syntax tree that can be re-entered is `functional`",
                           {"stream": "patterns", **h})
    cov["predicted_not_functional_but_no_hang_found"] = sorted(
        n for n, m in model.items() if m["not_functional"] > 0 and n not in hung_names)

    # ---- on the property itself: a file with that statement
    n_proj = 0
    saved_hangs = real.hangs
    for h in hangs:
        line = h["subject"].strip()
        case = None
        tried = []
        for k, (where, before, after) in enumerate(CONTEXTS):
            bad_text = "".join(l + "\n" for l in before + [line] + after)
            files = [GOOD, ("bad.f90", bad_text)] if (k + h["i"]) % 2 == 0 else [("bad.f90", bad_text), GOOD]
            n_proj += 1
            obs = real.run(files, watchdog=4)
            tried.append(where)
            if obs["hang"]:
                case = {"stream": "patterns", "how": f"pumped loop of {h['pattern']}", "statement": line,
                        "where": where, "pattern": h["pattern"], "pattern_source": pats[h["i"]][1].pattern,
                        "iteration_repeated": h["iteration"], "copies": h["copies"],
                        "files": [{"name": n_, "text": t_} for n_, t_ in files],
                        "why": [f"O2: Project(settings) did not return within 4 s: {h['pattern']}.{h['call']} does not come "
                                f"back on this statement (a loop of the pattern is re-entered after every failure; "
                                f"the time doubles with every further copy of {h['iteration']!r})"]}
                break
        real.hangs = saved_hangs
        if case is None:
            rep.tie_broken(f"patterns: {h['pattern']}.{h['call']} does not come back on a pumped subject, but no file was found "
                           f"on which Project() hangs (tried the statement {tried})", {"stream": "patterns", **h})
        else:
            rep.failing_input(case, classify_hang(sf, [line]))
    cov["project_runs_with_a_pumped_statement"] = n_proj
    return cov
