"""C05 generator: abstract Fortran projects whose entities carry a permission, an optional
unique tracer doc, optional `display:` / `proc_internals:` metadata, rendered to Fortran
source with explicit accessibility spelling.

An entity is a dict
    id, kind, name, perm ('public'|'protected'|'private'), doc (bool), disp (None | list of words),
    pint (None|bool), children [entity], refs [ids of procedures it shows: bindings / module
    procedures / final], plus rendering hints (default, explicit, ...).

kinds
    file            children: module, program, subroutine, function
    module/program  children: variable, type, subroutine, function, generic, absint, iface, enum
    subroutine/function  children: arg, variable, type, subroutine, function (internal)
    type            children: component, boundproc, finalproc
    generic         refs -> module procedures (interface g; module procedure a, b)
    absint / iface  one interface body (abstract / plain interface block); children: arg
    enum            children: enumerator

Everything random comes from the rng passed in.
"""
from __future__ import annotations

import json

WORDS = ["public", "protected", "private"]
UNIT_KINDS = ("file", "module", "program")
PROC_KINDS = ("subroutine", "function", "modproc")
PLAIN_PROCS = ("subroutine", "function")


def tracer(i: int) -> str:
    return f"zq{i:04d}qz"


PREFIX = {"file": "f", "module": "m", "program": "prg", "subroutine": "s", "function": "fn", "type": "t",
          "variable": "v", "component": "c", "boundproc": "bp", "finalproc": "fin", "generic": "g",
          "absint": "ai", "iface": "xi", "enum": "en", "enumerator": "ev", "arg": "a", "submodule": "sm", "modproc": "mp"}


class Gen:
    def __init__(self, rng, size=1.0, risky=False, typey=False):
        self.rng = rng
        self.size = size
        self.risky = risky  # may produce inputs of the known-finding classes
        self.typey = typey  # more derived types that refer to each other (type graph edges)
        self.n = 0
        self.all = []

    def new(self, kind, perm="public", **kw):
        self.n += 1
        e = {"id": self.n, "kind": kind, "name": f"{PREFIX[kind]}{self.n}", "perm": perm, "doc": True,
             "disp": None, "pint": None, "children": [], "refs": []}
        e.update(kw)
        self.all.append(e)
        return e

    def count(self, lo, hi):
        hi = max(lo, int(round(hi * self.size)))
        return self.rng.randint(lo, hi)

    def maybe_doc(self, e, p=0.8):
        e["doc"] = self.rng.random() < p

    def disp_words(self):
        rng = self.rng
        r = rng.random()
        if r < 0.2:
            return ["none"]
        if r < 0.27:
            return [rng.choice(["none", "bogus"]), rng.choice(WORDS)]
        if r < 0.32:
            return ["bogus"]
        k = rng.randint(1, 3)
        return rng.sample(WORDS, k)

    def maybe_disp(self, e, p):
        if self.rng.random() < p:
            e["disp"] = self.disp_words()

    # ------------------------------------------------------------------ pieces
    def variable(self, default, kinds=("public", "protected", "private"), kind="variable"):
        rng = self.rng
        if rng.random() < 0.75:
            perm = rng.choice(kinds)
            e = self.new(kind, perm, explicit=True)
        else:
            e = self.new(kind, default, explicit=False)
        self.maybe_doc(e)
        return e

    def local_var(self, perm):
        e = self.new("variable", perm, explicit=False)
        self.maybe_doc(e)
        return e

    def proc(self, perm, explicit, local_perm, depth=0):
        """local_perm: the permission FORD gives to everything declared inside (inherited)."""
        rng = self.rng
        e = self.new(rng.choice(PLAIN_PROCS), perm, explicit=explicit)
        self.maybe_doc(e, 0.85)
        self.maybe_disp(e, 0.2)
        if rng.random() < 0.35:
            e["pint"] = rng.random() < 0.7
        for _ in range(self.count(0, 2)):
            a = self.new("arg", local_perm, explicit=False)
            self.maybe_doc(a, 0.6)
            e["children"].append(a)
        for _ in range(self.count(0, 2)):
            e["children"].append(self.local_var(local_perm))
        if rng.random() < 0.3:
            e["children"].append(self.dtype(local_perm, False, procs=[], in_proc=True))
        if depth == 0 and rng.random() < 0.45:
            for _ in range(self.count(1, 2)):
                e["children"].append(self.proc(local_perm, False, local_perm, depth + 1))
        return e

    def dtype(self, perm, explicit, procs, in_proc=False, prev_types=()):
        rng = self.rng
        e = self.new("type", perm, explicit=explicit)
        self.maybe_doc(e, 0.85)
        self.maybe_disp(e, 0.25)
        for _ in range(self.count(1 if self.typey else 0, 3)):
            c = self.variable("public", ("public", "private"), kind="component")
            if prev_types and rng.random() < (0.85 if self.typey else 0.5):
                c["tref"] = rng.choice(prev_types)["name"]  # component of another derived type (type graph edge)
            e["children"].append(c)
        if procs and rng.random() < 0.7:
            for _ in range(self.count(1, 2)):
                if rng.random() < 0.7:
                    b = self.new("boundproc", rng.choice(["public", "private"]), explicit=True)
                else:
                    b = self.new("boundproc", "public", explicit=False)
                self.maybe_doc(b)
                b["refs"] = [rng.choice(procs)["id"]]
                e["children"].append(b)
            if rng.random() < 0.35:
                subs = [p for p in procs if p["kind"] == "subroutine"]
                if subs:
                    f = self.new("finalproc", "public", explicit=False)
                    self.maybe_doc(f)
                    f["refs"] = [rng.choice(subs)["id"]]
                    e["children"].append(f)
        return e

    def module_like(self, kind):
        rng = self.rng
        m = self.new(kind, "public")
        self.maybe_doc(m, 0.85)
        self.maybe_disp(m, 0.3)
        if kind == "module":
            m["default"] = rng.choice([None, None, "private", "public"])
        else:
            m["default"] = None
        default = m["default"] or "public"
        can_explicit = kind == "module"

        def pick():
            if can_explicit and rng.random() < 0.7:
                return rng.choice(["public", "private"]), True
            return default, False

        procs = []
        for _ in range(self.count(1, 4)):
            perm, ex = pick()
            procs.append(self.proc(perm, ex, default))
        kids = []
        for _ in range(self.count(0, 3)):
            if can_explicit:
                kids.append(self.variable(default))
            else:
                kids.append(self.local_var(default))
        types = []
        for _ in range(self.count(2, 3) if self.typey and kind == "module" else self.count(0, 2)):
            perm, ex = pick()
            types.append(self.dtype(perm, ex, procs if kind == "module" else [], prev_types=tuple(types)))
        kids += types
        if kind == "module" and rng.random() < 0.5:
            perm, ex = pick()
            g = self.new("generic", perm, explicit=ex)
            self.maybe_doc(g)
            k = min(len(procs), rng.randint(1, 2))
            g["refs"] = [p["id"] for p in rng.sample(procs, k)]
            kids.append(g)
        if rng.random() < 0.35:
            perm, ex = pick()
            a = self.new("absint", perm, explicit=ex)
            self.maybe_doc(a)
            for _ in range(self.count(0, 1)):
                x = self.new("arg", default, explicit=False)
                self.maybe_doc(x, 0.6)
                a["children"].append(x)
            kids.append(a)
        if rng.random() < 0.3:
            perm, ex = pick()
            a = self.new("iface", perm, explicit=ex)
            self.maybe_doc(a)
            for _ in range(self.count(0, 1)):
                x = self.new("arg", default, explicit=False)
                self.maybe_doc(x, 0.6)
                a["children"].append(x)
            kids.append(a)
        if self.risky and rng.random() < 0.4:
            en = self.new("enum", default, explicit=False)
            self.maybe_doc(en)
            for _ in range(self.count(1, 2)):
                v = self.new("enumerator", default, explicit=False)
                self.maybe_doc(v)
                en["children"].append(v)
            kids.append(en)
        nt = [k for k in kids if k["kind"] != "type"]
        rng.shuffle(nt)
        cut = rng.randint(0, len(nt))
        m["children"] = nt[:cut] + [k for k in kids if k["kind"] == "type"] + nt[cut:] + procs
        return m

    def submodule(self, m):
        """a submodule of module m implementing one separate module procedure (`module procedure` form);
        adds the interface body to m.  Everything inside a submodule is private for FORD."""
        rng = self.rng
        default = m["default"] or "public"
        if rng.random() < 0.6:
            perm, ex = rng.choice(["public", "private"]), True
        else:
            perm, ex = default, False
        intr = self.new("iface", perm, explicit=ex, modsub=True)
        self.maybe_doc(intr)
        # keep the procedures last in the module's child list
        m["children"].insert(0, intr)
        sm = self.new("submodule", "public", parent_module=m["name"], default=None)
        self.maybe_doc(sm, 0.85)
        self.maybe_disp(sm, 0.45)
        for _ in range(self.count(0, 2)):
            sm["children"].append(self.local_var("private"))
        mp = self.new("modproc", "private", explicit=False)
        mp["name"] = intr["name"]
        self.maybe_doc(mp, 0.9)
        self.maybe_disp(mp, 0.2)
        if rng.random() < 0.35:
            mp["pint"] = rng.random() < 0.7
        for _ in range(self.count(1, 2)):
            mp["children"].append(self.local_var("private"))
        if rng.random() < 0.5:
            mp["children"].append(self.proc("private", False, "private", depth=1))
        sm["children"].append(mp)
        return sm

    def file(self, nmod, with_prog, ntop):
        f = self.new("file", "public")
        self.maybe_doc(f, 0.5)
        if self.risky and self.rng.random() < 0.5:
            f["disp"] = self.disp_words()
            f["doc"] = True
        for _ in range(nmod):
            m = self.module_like("module")
            f["children"].append(m)
            if self.rng.random() < 0.3:
                f["children"].append(self.submodule(m))
        for _ in range(ntop):
            f["children"].append(self.proc("public", False, "public"))
        if with_prog:
            f["children"].append(self.module_like("program"))
        return f


def gen_config(rng):
    r = rng.random()
    if r < 0.12:
        display = ["none"]
    elif r < 0.2:
        display = []
    else:
        display = [w for w in WORDS if rng.random() < 0.55]
        if not display and rng.random() < 0.7:
            display = [rng.choice(WORDS)]
    return {"display": display, "proc_internals": rng.random() < 0.6, "hide_undoc": rng.random() < 0.4}


def gen_project(rng, size=1.0, risky=False, typey=False):
    g = Gen(rng, size, risky, typey)
    nfiles = rng.choice([1, 1, 2])
    files = []
    have_prog = False
    for k in range(nfiles):
        with_prog = (not have_prog) and rng.random() < 0.4
        have_prog = have_prog or with_prog
        nmod = rng.choice([1, 1, 2]) if not with_prog else rng.choice([0, 1])
        ntop = 1 if rng.random() < 0.25 else 0
        if nmod == 0 and not with_prog and ntop == 0:
            nmod = 1
        files.append(g.file(nmod, with_prog, ntop))
    return {"config": gen_config(rng), "files": files}


# ---------------------------------------------------------------------------- rendering

def doc_lines(e, ind):
    out = []
    meta = []
    if e.get("disp") is not None:
        words = e["disp"]
        meta.append(f"{ind}!! display: {words[0]}")
        meta += [f"{ind}!!          {w}" for w in words[1:]]
    if e.get("pint") is not None:
        meta.append(f"{ind}!! proc_internals: {'true' if e['pint'] else 'false'}")
    if meta:
        out += meta
        out.append(f"{ind}!!")
    if e["doc"]:
        out.append(f"{ind}!! {tracer(e['id'])}")
    return out


def render_var(e, ind, out, intent=False):
    attr = ""
    if e.get("explicit"):
        attr = f", {e['perm']}"
    base = f"type({e['tref']})" if e.get("tref") else "integer"
    out.append(f"{ind}{base}{attr} :: {e['name']}")
    out += doc_lines(e, ind + "  ")


def render_type(e, ind, out, byid):
    attr = f", {e['perm']}" if e.get("explicit") else ""
    out.append(f"{ind}type{attr} :: {e['name']}")
    out += doc_lines(e, ind + "  ")
    comps = [c for c in e["children"] if c["kind"] == "component"]
    bound = [c for c in e["children"] if c["kind"] in ("boundproc", "finalproc")]
    for c in comps:
        render_var(c, ind + "  ", out)
    if bound:
        out.append(f"{ind}contains")
        for b in bound:
            if b["kind"] == "boundproc":
                attr = f", {b['perm']}" if b.get("explicit") else ""
                out.append(f"{ind}  procedure{attr} :: {b['name']} => {byid[b['refs'][0]]['name']}")
            else:
                out.append(f"{ind}  final :: {byid[b['refs'][0]]['name']}")
            out += doc_lines(b, ind + "    ")
    out.append(f"{ind}end type {e['name']}")


def render_proc(e, ind, out, byid):
    args = [c for c in e["children"] if c["kind"] == "arg"]
    if e["kind"] == "modproc":
        out.append(f"{ind}module procedure {e['name']}")
    else:
        out.append(f"{ind}{e['kind']} {e['name']}({', '.join(a['name'] for a in args)})")
    out += doc_lines(e, ind + "  ")
    for a in args:
        out.append(f"{ind}  integer, intent(in) :: {a['name']}")
        out += doc_lines(a, ind + "    ")
    for c in e["children"]:
        if c["kind"] == "variable":
            render_var(c, ind + "  ", out)
        elif c["kind"] == "type":
            render_type(c, ind + "  ", out, byid)
    if e["kind"] == "function":
        out.append(f"{ind}  {e['name']} = 1")
    inner = [c for c in e["children"] if c["kind"] in PROC_KINDS]
    if inner:
        out.append(f"{ind}contains")
        for c in inner:
            render_proc(c, ind + "  ", out, byid)
    out.append(f"{ind}end {'procedure' if e['kind'] == 'modproc' else e['kind']} {e['name']}")


def render_unit(m, out, byid):
    ind = ""
    if m["kind"] == "submodule":
        out.append(f"submodule ({m['parent_module']}) {m['name']}")
    else:
        out.append(f"{m['kind']} {m['name']}")
    out += doc_lines(m, "  ")
    if m["kind"] == "module":
        out.append("  implicit none")
    if m.get("default"):
        out.append(f"  {m['default']}")
    # accessibility statements for procedures / generics / interfaces declared explicit
    for c in m["children"]:
        if c.get("explicit") and c["kind"] in PROC_KINDS + ("generic", "absint", "iface"):
            out.append(f"  {c['perm']} :: {c['name']}")
    for c in m["children"]:
        k = c["kind"]
        if k == "variable":
            render_var(c, "  ", out)
        elif k == "type":
            render_type(c, "  ", out, byid)
        elif k == "generic":
            out.append(f"  interface {c['name']}")
            out += doc_lines(c, "    ")
            out.append("    module procedure " + ", ".join(byid[r]["name"] for r in c["refs"]))
            out.append(f"  end interface {c['name']}")
        elif k in ("absint", "iface"):
            out.append("  abstract interface" if k == "absint" else "  interface")
            out += doc_lines(c, "    ")
            args = c["children"]
            out.append(f"    {'module ' if c.get('modsub') else ''}subroutine {c['name']}({', '.join(a['name'] for a in args)})")
            for a in args:
                out.append(f"      integer, intent(in) :: {a['name']}")
                out += doc_lines(a, "        ")
            out.append(f"    end subroutine {c['name']}")
            out.append("  end interface")
        elif k == "enum":
            out.append("  enum, bind(c)")
            out += doc_lines(c, "    ")
            for i, v in enumerate(c["children"]):
                out.append(f"    enumerator :: {v['name']} = {i + 1}")
                out += doc_lines(v, "      ")
            out.append("  end enum")
    procs = [c for c in m["children"] if c["kind"] in PROC_KINDS]
    if procs:
        out.append("contains")
        for p in procs:
            render_proc(p, "  ", out, byid)
    out.append(f"end {m['kind']} {m['name']}")


def index(P):
    byid = {}

    def walk(e, parent):
        byid[e["id"]] = e
        e["_parent"] = parent["id"] if parent else None
        for c in e["children"]:
            walk(c, e)

    for f in P["files"]:
        walk(f, None)
    return byid


def strip(P):
    """JSON-able copy without the helper keys"""
    def cp(e):
        d = {k: v for k, v in e.items() if not k.startswith("_") and k != "children"}
        d["children"] = [cp(c) for c in e["children"]]
        return d
    return {"config": P["config"], "files": [cp(f) for f in P["files"]]}


def render_project(P):
    byid = index(P)
    files = {}
    for f in P["files"]:
        out = []
        dl = doc_lines(f, "")
        if dl:
            out += dl
            out.append("")
        for u in f["children"]:
            if u["kind"] in PROC_KINDS:
                render_proc(u, "", out, byid)
            else:
                render_unit(u, out, byid)
            out.append("")
        files[f["name"] + ".f90"] = "\n".join(out) + "\n"
    return files


# ---------------------------------------------------------------------------- serialisation for the Lean driver

WORD_CODE = {"public": "pub", "protected": "prot", "private": "priv", "none": "none"}


def enc_words(ws):
    if ws is None:
        return "-"
    return "+".join(WORD_CODE.get(w, "other") for w in ws) if ws else "0"


def encode_nodes(P):
    """preorder node fields: id,kind,perm,doc,disp,pint,nchildren,refs"""
    out = []

    def walk(e):
        pint = "-" if e["pint"] is None else ("1" if e["pint"] else "0")
        out.append(",".join([str(e["id"]), e["kind"], WORD_CODE[e["perm"]], "1" if e["doc"] else "0",
                             enc_words(e["disp"]), pint, str(len(e["children"])),
                             ";".join(str(r) for r in e["refs"])]))
        for c in e["children"]:
            walk(c)

    for f in P["files"]:
        walk(f)
    return out


def encode_request(P, cmd, variant):
    c = P["config"]
    return [cmd, variant, enc_words(c["display"]), "1" if c["proc_internals"] else "0",
            "1" if c["hide_undoc"] else "0", str(len(P["files"]))] + encode_nodes(P)


if __name__ == "__main__":
    import random
    import sys

    rng = random.Random(int(sys.argv[1]) if len(sys.argv) > 1 else 0)
    P = gen_project(rng, risky=True)
    for name, text in render_project(P).items():
        print("=====", name)
        print(text)
    print(json.dumps(P["config"]))
